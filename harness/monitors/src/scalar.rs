//! `Mon`: the small backend interface of a monitor scalar, and `impl_scalar_traits!`, which
//! derives from it every trait vek's generic code asks of an element type
//! (std ops in all owned/borrowed forms, num_traits Zero/One/Num/NumCast/Real/FloatConst/
//! MulAdd/Signed-ish, approx AbsDiffEq/RelativeEq/UlpsEq, vek Clamp/IsBetween/Lerp).

use std::cmp::Ordering;

pub trait Mon: Copy + std::fmt::Debug + 'static {
    const NAME: &'static str;
    fn m_int(i: i64) -> Self;
    fn m_add(self, o: Self) -> Self;
    fn m_sub(self, o: Self) -> Self;
    fn m_mul(self, o: Self) -> Self;
    fn m_div(self, o: Self) -> Self;
    fn m_rem(self, o: Self) -> Self;
    fn m_neg(self) -> Self;
    fn m_mul_add(self, a: Self, b: Self) -> Self {
        self.m_mul(a).m_add(b)
    }
    fn m_eq(self, o: Self) -> bool;
    fn m_cmp(self, o: Self) -> Option<Ordering>;
    fn m_sqrt(self) -> Self;
    fn m_sin(self) -> Self;
    fn m_cos(self) -> Self;
    fn m_tan(self) -> Self {
        self.m_sin().m_div(self.m_cos())
    }
    fn m_abs(self) -> Self;
    fn m_floor(self) -> Self;
    fn m_round(self) -> Self;
    /// any other function of `Real` (acos, exp, powf, ...): poison and return something
    fn m_unsupported(self, what: &'static str) -> Self;
    fn m_epsilon() -> Self;
    fn m_pi() -> Self;
    fn m_to_f64(self) -> Option<f64>;
}

#[macro_export]
macro_rules! impl_scalar_traits {
    ($T:ty) => {
        impl ::std::ops::Add for $T { type Output = $T; #[inline] fn add(self, o: $T) -> $T { $crate::scalar::Mon::m_add(self, o) } }
        impl ::std::ops::Sub for $T { type Output = $T; #[inline] fn sub(self, o: $T) -> $T { $crate::scalar::Mon::m_sub(self, o) } }
        impl ::std::ops::Mul for $T { type Output = $T; #[inline] fn mul(self, o: $T) -> $T { $crate::scalar::Mon::m_mul(self, o) } }
        impl ::std::ops::Div for $T { type Output = $T; #[inline] fn div(self, o: $T) -> $T { $crate::scalar::Mon::m_div(self, o) } }
        impl ::std::ops::Rem for $T { type Output = $T; #[inline] fn rem(self, o: $T) -> $T { $crate::scalar::Mon::m_rem(self, o) } }
        impl ::std::ops::Neg for $T { type Output = $T; #[inline] fn neg(self) -> $T { $crate::scalar::Mon::m_neg(self) } }
        impl<'a> ::std::ops::Neg for &'a $T { type Output = $T; #[inline] fn neg(self) -> $T { $crate::scalar::Mon::m_neg(*self) } }

        $crate::impl_scalar_traits!(@refops $T, Add add m_add);
        $crate::impl_scalar_traits!(@refops $T, Sub sub m_sub);
        $crate::impl_scalar_traits!(@refops $T, Mul mul m_mul);
        $crate::impl_scalar_traits!(@refops $T, Div div m_div);
        $crate::impl_scalar_traits!(@refops $T, Rem rem m_rem);
        $crate::impl_scalar_traits!(@assign $T, AddAssign add_assign m_add);
        $crate::impl_scalar_traits!(@assign $T, SubAssign sub_assign m_sub);
        $crate::impl_scalar_traits!(@assign $T, MulAssign mul_assign m_mul);
        $crate::impl_scalar_traits!(@assign $T, DivAssign div_assign m_div);
        $crate::impl_scalar_traits!(@assign $T, RemAssign rem_assign m_rem);

        impl PartialEq for $T { #[inline] fn eq(&self, o: &$T) -> bool { $crate::scalar::Mon::m_eq(*self, *o) } }
        impl PartialOrd for $T { #[inline] fn partial_cmp(&self, o: &$T) -> Option<::std::cmp::Ordering> { $crate::scalar::Mon::m_cmp(*self, *o) } }

        impl ::num_traits::Zero for $T {
            #[inline] fn zero() -> $T { <$T as $crate::scalar::Mon>::m_int(0) }
            #[inline] fn is_zero(&self) -> bool { $crate::scalar::Mon::m_eq(*self, <$T as $crate::scalar::Mon>::m_int(0)) }
        }
        impl Default for $T { #[inline] fn default() -> $T { <$T as $crate::scalar::Mon>::m_int(0) } }
        impl ::num_traits::One for $T { #[inline] fn one() -> $T { <$T as $crate::scalar::Mon>::m_int(1) } }
        impl ::num_traits::Num for $T {
            type FromStrRadixErr = ();
            fn from_str_radix(_s: &str, _r: u32) -> Result<$T, ()> { Err(()) }
        }
        impl ::num_traits::ToPrimitive for $T {
            fn to_i64(&self) -> Option<i64> { $crate::scalar::Mon::m_to_f64(*self).and_then(|f| if f.fract() == 0.0 && f.abs() < 9.0e18 { Some(f as i64) } else { None }) }
            fn to_u64(&self) -> Option<u64> { $crate::scalar::Mon::m_to_f64(*self).and_then(|f| if f.fract() == 0.0 && f >= 0.0 && f < 1.8e19 { Some(f as u64) } else { None }) }
            fn to_f64(&self) -> Option<f64> { $crate::scalar::Mon::m_to_f64(*self) }
        }
        impl ::num_traits::NumCast for $T {
            fn from<N: ::num_traits::ToPrimitive>(n: N) -> Option<$T> {
                match n.to_i64() {
                    Some(i) => Some(<$T as $crate::scalar::Mon>::m_int(i)),
                    None => { $crate::report::poison("numcast_non_integer"); Some(<$T as $crate::scalar::Mon>::m_int(0)) }
                }
            }
        }
        impl ::num_traits::ops::mul_add::MulAdd<$T, $T> for $T {
            type Output = $T;
            #[inline] fn mul_add(self, a: $T, b: $T) -> $T { $crate::scalar::Mon::m_mul_add(self, a, b) }
        }
        impl<'a> ::num_traits::ops::mul_add::MulAdd<$T, $T> for &'a $T {
            type Output = $T;
            #[inline] fn mul_add(self, a: $T, b: $T) -> $T { $crate::scalar::Mon::m_mul_add(*self, a, b) }
        }
        impl<'a, 'b> ::num_traits::ops::mul_add::MulAdd<&'b $T, $T> for &'a $T {
            type Output = $T;
            #[inline] fn mul_add(self, a: &'b $T, b: $T) -> $T { $crate::scalar::Mon::m_mul_add(*self, *a, b) }
        }
        impl<'a, 'c> ::num_traits::ops::mul_add::MulAdd<$T, &'c $T> for &'a $T {
            type Output = $T;
            #[inline] fn mul_add(self, a: $T, b: &'c $T) -> $T { $crate::scalar::Mon::m_mul_add(*self, a, *b) }
        }
        impl<'a, 'b, 'c> ::num_traits::ops::mul_add::MulAdd<&'b $T, &'c $T> for &'a $T {
            type Output = $T;
            #[inline] fn mul_add(self, a: &'b $T, b: &'c $T) -> $T { $crate::scalar::Mon::m_mul_add(*self, *a, *b) }
        }
        impl<'b> ::num_traits::ops::mul_add::MulAdd<&'b $T, $T> for $T {
            type Output = $T;
            #[inline] fn mul_add(self, a: &'b $T, b: $T) -> $T { $crate::scalar::Mon::m_mul_add(self, *a, b) }
        }
        impl<'c> ::num_traits::ops::mul_add::MulAdd<$T, &'c $T> for $T {
            type Output = $T;
            #[inline] fn mul_add(self, a: $T, b: &'c $T) -> $T { $crate::scalar::Mon::m_mul_add(self, a, *b) }
        }
        impl<'b, 'c> ::num_traits::ops::mul_add::MulAdd<&'b $T, &'c $T> for $T {
            type Output = $T;
            #[inline] fn mul_add(self, a: &'b $T, b: &'c $T) -> $T { $crate::scalar::Mon::m_mul_add(self, *a, *b) }
        }
        impl From<u8> for $T { fn from(x: u8) -> $T { <$T as $crate::scalar::Mon>::m_int(x as i64) } }
        impl From<u16> for $T { fn from(x: u16) -> $T { <$T as $crate::scalar::Mon>::m_int(x as i64) } }
        impl From<i32> for $T { fn from(x: i32) -> $T { <$T as $crate::scalar::Mon>::m_int(x as i64) } }

        impl ::num_traits::real::Real for $T {
            fn min_value() -> $T { $crate::report::poison("real_min_value"); <$T as $crate::scalar::Mon>::m_int(-1_000_000_000) }
            fn min_positive_value() -> $T { <$T as $crate::scalar::Mon>::m_epsilon() }
            fn epsilon() -> $T { <$T as $crate::scalar::Mon>::m_epsilon() }
            fn max_value() -> $T { $crate::report::poison("real_max_value"); <$T as $crate::scalar::Mon>::m_int(1_000_000_000) }
            fn floor(self) -> $T { $crate::scalar::Mon::m_floor(self) }
            fn ceil(self) -> $T { $crate::scalar::Mon::m_neg($crate::scalar::Mon::m_floor($crate::scalar::Mon::m_neg(self))) }
            fn round(self) -> $T { $crate::scalar::Mon::m_round(self) }
            fn trunc(self) -> $T { self.m_unsupported("trunc") }
            fn fract(self) -> $T { $crate::scalar::Mon::m_sub(self, $crate::scalar::Mon::m_floor(self)) }
            fn abs(self) -> $T { $crate::scalar::Mon::m_abs(self) }
            fn signum(self) -> $T { self.m_unsupported("signum") }
            fn is_sign_positive(self) -> bool { self >= <$T as $crate::scalar::Mon>::m_int(0) }
            fn is_sign_negative(self) -> bool { self < <$T as $crate::scalar::Mon>::m_int(0) }
            fn mul_add(self, a: $T, b: $T) -> $T { $crate::scalar::Mon::m_mul_add(self, a, b) }
            fn recip(self) -> $T { $crate::scalar::Mon::m_div(<$T as $crate::scalar::Mon>::m_int(1), self) }
            fn powi(self, n: i32) -> $T {
                let mut r = <$T as $crate::scalar::Mon>::m_int(1);
                for _ in 0..n.unsigned_abs() { r = $crate::scalar::Mon::m_mul(r, self); }
                if n < 0 { $crate::scalar::Mon::m_div(<$T as $crate::scalar::Mon>::m_int(1), r) } else { r }
            }
            fn powf(self, _n: $T) -> $T { self.m_unsupported("powf") }
            fn sqrt(self) -> $T { $crate::scalar::Mon::m_sqrt(self) }
            fn exp(self) -> $T { self.m_unsupported("exp") }
            fn exp2(self) -> $T { self.m_unsupported("exp2") }
            fn ln(self) -> $T { self.m_unsupported("ln") }
            fn log(self, _b: $T) -> $T { self.m_unsupported("log") }
            fn log2(self) -> $T { self.m_unsupported("log2") }
            fn log10(self) -> $T { self.m_unsupported("log10") }
            fn to_degrees(self) -> $T { self.m_unsupported("to_degrees") }
            fn to_radians(self) -> $T { self.m_unsupported("to_radians") }
            fn max(self, o: $T) -> $T { if self >= o { self } else { o } }
            fn min(self, o: $T) -> $T { if self <= o { self } else { o } }
            fn abs_sub(self, _o: $T) -> $T { self.m_unsupported("abs_sub") }
            fn cbrt(self) -> $T { self.m_unsupported("cbrt") }
            fn hypot(self, _o: $T) -> $T { self.m_unsupported("hypot") }
            fn sin(self) -> $T { $crate::scalar::Mon::m_sin(self) }
            fn cos(self) -> $T { $crate::scalar::Mon::m_cos(self) }
            fn tan(self) -> $T { $crate::scalar::Mon::m_tan(self) }
            fn asin(self) -> $T { self.m_unsupported("asin") }
            fn acos(self) -> $T { self.m_unsupported("acos") }
            fn atan(self) -> $T { self.m_unsupported("atan") }
            fn atan2(self, _o: $T) -> $T { self.m_unsupported("atan2") }
            fn sin_cos(self) -> ($T, $T) { ($crate::scalar::Mon::m_sin(self), $crate::scalar::Mon::m_cos(self)) }
            fn exp_m1(self) -> $T { self.m_unsupported("exp_m1") }
            fn ln_1p(self) -> $T { self.m_unsupported("ln_1p") }
            fn sinh(self) -> $T { self.m_unsupported("sinh") }
            fn cosh(self) -> $T { self.m_unsupported("cosh") }
            fn tanh(self) -> $T { self.m_unsupported("tanh") }
            fn asinh(self) -> $T { self.m_unsupported("asinh") }
            fn acosh(self) -> $T { self.m_unsupported("acosh") }
            fn atanh(self) -> $T { self.m_unsupported("atanh") }
        }
        impl ::num_traits::FloatConst for $T {
            fn E() -> $T { <$T as $crate::scalar::Mon>::m_int(0).m_unsupported("const_E") }
            fn FRAC_1_PI() -> $T { <$T as $crate::scalar::Mon>::m_int(0).m_unsupported("const") }
            fn FRAC_1_SQRT_2() -> $T { <$T as $crate::scalar::Mon>::m_int(0).m_unsupported("const") }
            fn FRAC_2_PI() -> $T { <$T as $crate::scalar::Mon>::m_int(0).m_unsupported("const") }
            fn FRAC_2_SQRT_PI() -> $T { <$T as $crate::scalar::Mon>::m_int(0).m_unsupported("const") }
            fn FRAC_PI_2() -> $T { $crate::scalar::Mon::m_div(<$T as $crate::scalar::Mon>::m_pi(), <$T as $crate::scalar::Mon>::m_int(2)) }
            fn FRAC_PI_3() -> $T { $crate::scalar::Mon::m_div(<$T as $crate::scalar::Mon>::m_pi(), <$T as $crate::scalar::Mon>::m_int(3)) }
            fn FRAC_PI_4() -> $T { $crate::scalar::Mon::m_div(<$T as $crate::scalar::Mon>::m_pi(), <$T as $crate::scalar::Mon>::m_int(4)) }
            fn FRAC_PI_6() -> $T { $crate::scalar::Mon::m_div(<$T as $crate::scalar::Mon>::m_pi(), <$T as $crate::scalar::Mon>::m_int(6)) }
            fn FRAC_PI_8() -> $T { $crate::scalar::Mon::m_div(<$T as $crate::scalar::Mon>::m_pi(), <$T as $crate::scalar::Mon>::m_int(8)) }
            fn LN_10() -> $T { <$T as $crate::scalar::Mon>::m_int(0).m_unsupported("const") }
            fn LN_2() -> $T { <$T as $crate::scalar::Mon>::m_int(0).m_unsupported("const") }
            fn LOG10_E() -> $T { <$T as $crate::scalar::Mon>::m_int(0).m_unsupported("const") }
            fn LOG2_E() -> $T { <$T as $crate::scalar::Mon>::m_int(0).m_unsupported("const") }
            fn PI() -> $T { <$T as $crate::scalar::Mon>::m_pi() }
            fn SQRT_2() -> $T { <$T as $crate::scalar::Mon>::m_int(0).m_unsupported("const") }
        }
        impl ::approx::AbsDiffEq for $T {
            type Epsilon = $T;
            fn default_epsilon() -> $T { <$T as $crate::scalar::Mon>::m_epsilon() }
            fn abs_diff_eq(&self, o: &$T, eps: $T) -> bool {
                $crate::scalar::Mon::m_abs($crate::scalar::Mon::m_sub(*self, *o)) <= eps
            }
        }
        impl ::approx::RelativeEq for $T {
            fn default_max_relative() -> $T { <$T as $crate::scalar::Mon>::m_epsilon() }
            fn relative_eq(&self, o: &$T, eps: $T, max_rel: $T) -> bool {
                // same algorithm as approx's float implementation
                if self == o { return true; }
                let d = $crate::scalar::Mon::m_abs($crate::scalar::Mon::m_sub(*self, *o));
                if d <= eps { return true; }
                let a = $crate::scalar::Mon::m_abs(*self);
                let b = $crate::scalar::Mon::m_abs(*o);
                let largest = if b > a { b } else { a };
                d <= $crate::scalar::Mon::m_mul(largest, max_rel)
            }
        }
        impl ::approx::UlpsEq for $T {
            fn default_max_ulps() -> u32 { 4 }
            fn ulps_eq(&self, o: &$T, eps: $T, _ulps: u32) -> bool {
                ::approx::AbsDiffEq::abs_diff_eq(self, o, eps)
            }
        }
        impl ::vek::ops::Clamp for $T {
            fn clamped(self, lower: $T, upper: $T) -> $T {
                assert!(lower <= upper);
                ::vek::ops::partial_min(::vek::ops::partial_max(self, lower), upper)
            }
        }
        impl ::vek::ops::IsBetween for $T {
            type Output = bool;
            fn is_between(self, lower: $T, upper: $T) -> bool {
                assert!(lower <= upper);
                lower <= self && self <= upper
            }
        }
        // the same two formulas vek gives its float impls, routed through the monitor ops
        impl ::vek::ops::Lerp<$T> for $T {
            type Output = $T;
            fn lerp_unclamped_precise(from: $T, to: $T, factor: $T) -> $T {
                from * (<$T as $crate::scalar::Mon>::m_int(1) - factor) + to * factor
            }
            fn lerp_unclamped(from: $T, to: $T, factor: $T) -> $T {
                $crate::scalar::Mon::m_mul_add(factor, to - from, from)
            }
        }
        impl<'a> ::vek::ops::Lerp<$T> for &'a $T {
            type Output = $T;
            fn lerp_unclamped_precise(from: &'a $T, to: &'a $T, factor: $T) -> $T {
                ::vek::ops::Lerp::lerp_unclamped_precise(*from, *to, factor)
            }
            fn lerp_unclamped(from: &'a $T, to: &'a $T, factor: $T) -> $T {
                ::vek::ops::Lerp::lerp_unclamped(*from, *to, factor)
            }
        }
    };
    (@refops $T:ty, $Tr:ident $f:ident $m:ident) => {
        impl<'a> ::std::ops::$Tr<&'a $T> for $T { type Output = $T; #[inline] fn $f(self, o: &'a $T) -> $T { $crate::scalar::Mon::$m(self, *o) } }
        impl<'a> ::std::ops::$Tr<$T> for &'a $T { type Output = $T; #[inline] fn $f(self, o: $T) -> $T { $crate::scalar::Mon::$m(*self, o) } }
        impl<'a, 'b> ::std::ops::$Tr<&'b $T> for &'a $T { type Output = $T; #[inline] fn $f(self, o: &'b $T) -> $T { $crate::scalar::Mon::$m(*self, *o) } }
    };
    (@assign $T:ty, $Tr:ident $f:ident $m:ident) => {
        impl ::std::ops::$Tr for $T { #[inline] fn $f(&mut self, o: $T) { *self = $crate::scalar::Mon::$m(*self, o); } }
        impl<'a> ::std::ops::$Tr<&'a $T> for $T { #[inline] fn $f(&mut self, o: &'a $T) { *self = $crate::scalar::Mon::$m(*self, *o); } }
    };
}

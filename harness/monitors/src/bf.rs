//! `Bf` — a *budgeted* IEEE double.  Arithmetic is plain `f64` arithmetic (so NaN, infinities
//! and rounding behave exactly as for a user's `f64`), but every scalar operation vek applies to a
//! `Bf` ticks a per-thread counter, and once the counter passes the budget set for the current
//! case the operation panics with `BUDGET_EXCEEDED`.  The panic unwinds out of vek into the
//! harness's `guarded(..)`, which turns "this call did not return within N scalar operations"
//! into an ordinary observation.  This is how the monitors observe *bounded progress* of vek's
//! open-ended loops (`binary_search_point`) without a wall clock: the deadline is a logical step
//! count, generous by orders of magnitude, and independent of machine load.
use crate::scalar::Mon;
use std::cell::Cell;
use std::cmp::Ordering;

#[derive(Copy, Clone, Debug)]
pub struct Bf(pub f64);

thread_local! {
    static OPS: Cell<u64> = Cell::new(0);
    static LIMIT: Cell<u64> = Cell::new(u64::MAX);
}

pub const BUDGET_MSG: &str = "BUDGET_EXCEEDED: scalar-operation budget of the case exhausted";

impl Bf {
    /// start a case: counter to zero, budget = `limit` scalar operations
    pub fn begin(limit: u64) {
        OPS.with(|o| o.set(0));
        LIMIT.with(|l| l.set(limit));
    }
    /// operations counted since `begin`
    pub fn ops() -> u64 {
        OPS.with(|o| o.get())
    }
    /// stop enforcing (the harness's own use of `Bf` values after the call)
    pub fn end() -> u64 {
        LIMIT.with(|l| l.set(u64::MAX));
        Self::ops()
    }
    #[inline]
    fn tick() {
        let n = OPS.with(|o| {
            let n = o.get() + 1;
            o.set(n);
            n
        });
        if n > LIMIT.with(|l| l.get()) {
            // raise once, then stop enforcing so that unwinding code can still compute
            LIMIT.with(|l| l.set(u64::MAX));
            panic!("{}", BUDGET_MSG);
        }
    }
}

impl Mon for Bf {
    const NAME: &'static str = "Bf";
    #[inline]
    fn m_int(i: i64) -> Bf {
        Bf(i as f64)
    }
    #[inline]
    fn m_add(self, o: Bf) -> Bf {
        Bf::tick();
        Bf(self.0 + o.0)
    }
    #[inline]
    fn m_sub(self, o: Bf) -> Bf {
        Bf::tick();
        Bf(self.0 - o.0)
    }
    #[inline]
    fn m_mul(self, o: Bf) -> Bf {
        Bf::tick();
        Bf(self.0 * o.0)
    }
    #[inline]
    fn m_div(self, o: Bf) -> Bf {
        Bf::tick();
        Bf(self.0 / o.0)
    }
    #[inline]
    fn m_rem(self, o: Bf) -> Bf {
        Bf::tick();
        Bf(self.0 % o.0)
    }
    #[inline]
    fn m_neg(self) -> Bf {
        Bf::tick();
        Bf(-self.0)
    }
    #[inline]
    fn m_mul_add(self, a: Bf, b: Bf) -> Bf {
        Bf::tick();
        Bf(self.0.mul_add(a.0, b.0))
    }
    #[inline]
    fn m_eq(self, o: Bf) -> bool {
        Bf::tick();
        self.0 == o.0
    }
    #[inline]
    fn m_cmp(self, o: Bf) -> Option<Ordering> {
        Bf::tick();
        self.0.partial_cmp(&o.0)
    }
    fn m_sqrt(self) -> Bf {
        Bf::tick();
        Bf(self.0.sqrt())
    }
    fn m_sin(self) -> Bf {
        Bf::tick();
        Bf(self.0.sin())
    }
    fn m_cos(self) -> Bf {
        Bf::tick();
        Bf(self.0.cos())
    }
    fn m_abs(self) -> Bf {
        Bf::tick();
        Bf(self.0.abs())
    }
    fn m_floor(self) -> Bf {
        Bf::tick();
        Bf(self.0.floor())
    }
    fn m_round(self) -> Bf {
        Bf::tick();
        Bf(self.0.round())
    }
    fn m_unsupported(self, what: &'static str) -> Bf {
        Bf::tick();
        // unary functions keep their f64 meaning; the binary ones (powf, atan2, hypot, log) lose
        // their second operand in the Mon interface and poison the case instead
        match what {
            "trunc" => Bf(self.0.trunc()),
            "signum" => Bf(self.0.signum()),
            "exp" => Bf(self.0.exp()),
            "ln" => Bf(self.0.ln()),
            "asin" => Bf(self.0.asin()),
            "acos" => Bf(self.0.acos()),
            "atan" => Bf(self.0.atan()),
            "to_degrees" => Bf(self.0.to_degrees()),
            "to_radians" => Bf(self.0.to_radians()),
            _ => {
                crate::report::poison(what);
                Bf(f64::NAN)
            }
        }
    }
    fn m_epsilon() -> Bf {
        Bf(f64::EPSILON)
    }
    fn m_pi() -> Bf {
        Bf(std::f64::consts::PI)
    }
    fn m_to_f64(self) -> Option<f64> {
        Some(self.0)
    }
}

crate::impl_scalar_traits!(Bf);

//! `Q`: exact rational numbers (i128/i128, normalised) with poisoning.
//!
//! vek's generic code runs on `Q` exactly as on `f64`, but every value is exact, `PartialOrd`
//! is the true order (so every branch is taken as in real arithmetic), and anything `Q` cannot
//! represent exactly (irrational sqrt, sin/cos of an unregistered angle, overflow of the
//! representation, acos...) poisons the current case, which then counts as inconclusive.

use crate::report::poison;
use crate::scalar::Mon;
use std::cell::RefCell;
use std::cmp::Ordering;
use std::fmt;

#[derive(Clone, Copy)]
pub struct Q {
    n: i128,
    d: i128, // > 0
}

fn gcd(mut a: u128, mut b: u128) -> u128 {
    while b != 0 {
        let t = a % b;
        a = b;
        b = t;
    }
    a
}

fn isqrt(n: u128) -> u128 {
    if n == 0 {
        return 0;
    }
    let mut x = (n as f64).sqrt() as u128;
    // fix up
    while x.checked_mul(x).map_or(true, |s| s > n) {
        x -= 1;
    }
    while (x + 1).checked_mul(x + 1).map_or(false, |s| s <= n) {
        x += 1;
    }
    x
}

impl Q {
    pub const ZERO: Q = Q { n: 0, d: 1 };
    pub const ONE: Q = Q { n: 1, d: 1 };

    pub fn new(n: i128, d: i128) -> Q {
        if d == 0 {
            poison("div_by_zero");
            return Q::ZERO;
        }
        if n == i128::MIN || d == i128::MIN {
            poison("repr_overflow");
            return Q::ZERO;
        }
        let g = gcd(n.unsigned_abs(), d.unsigned_abs()) as i128;
        let (mut n, mut d) = (n / g, d / g);
        if d < 0 {
            n = -n;
            d = -d;
        }
        Q { n, d }
    }
    pub fn int(i: i64) -> Q {
        Q { n: i as i128, d: 1 }
    }
    pub fn frac(n: i64, d: i64) -> Q {
        Q::new(n as i128, d as i128)
    }
    pub fn num(self) -> i128 {
        self.n
    }
    pub fn den(self) -> i128 {
        self.d
    }
    pub fn is_zero(self) -> bool {
        self.n == 0
    }
    pub fn is_neg(self) -> bool {
        self.n < 0
    }
    pub fn is_int(self) -> bool {
        self.d == 1
    }
    pub fn to_f64(self) -> f64 {
        self.n as f64 / self.d as f64
    }
    /// exact conversion of a finite f64
    pub fn from_f64_exact(x: f64) -> Option<Q> {
        if !x.is_finite() {
            return None;
        }
        if x == 0.0 {
            return Some(Q::ZERO);
        }
        let bits = x.to_bits();
        let sign: i128 = if bits >> 63 == 1 { -1 } else { 1 };
        let exp = ((bits >> 52) & 0x7ff) as i32;
        let frac = (bits & ((1u64 << 52) - 1)) as i128;
        let (m, e) = if exp == 0 { (frac, -1074) } else { (frac | (1i128 << 52), exp - 1075) };
        if e >= 0 {
            if e > 60 {
                return None;
            }
            Some(Q::new(sign * (m << e), 1))
        } else {
            let sh = -e;
            // reduce trailing zeros first so that the denominator fits
            let tz = m.trailing_zeros() as i32;
            let k = tz.min(sh);
            let m2 = m >> k;
            let sh2 = sh - k;
            if sh2 > 120 {
                return None;
            }
            Some(Q::new(sign * m2, 1i128 << sh2))
        }
    }
    /// exact square root if it is rational
    pub fn exact_sqrt(self) -> Option<Q> {
        if self.n < 0 {
            return None;
        }
        let rn = isqrt(self.n as u128);
        let rd = isqrt(self.d as u128);
        if rn * rn == self.n as u128 && rd * rd == self.d as u128 {
            Some(Q { n: rn as i128, d: rd as i128 })
        } else {
            None
        }
    }
    pub fn floor_q(self) -> Q {
        Q { n: self.n.div_euclid(self.d), d: 1 }
    }
    /// round half away from zero
    pub fn round_q(self) -> Q {
        let two_n = match self.n.checked_mul(2) {
            Some(v) => v,
            None => {
                poison("repr_overflow");
                return Q::ZERO;
            }
        };
        let two_d = self.d * 2;
        // floor((2n + d) / 2d) for positives; mirror for negatives
        if self.n >= 0 {
            Q { n: (two_n + self.d).div_euclid(two_d), d: 1 }
        } else {
            Q { n: -((-two_n + self.d).div_euclid(two_d)), d: 1 }
        }
    }
    pub fn abs_q(self) -> Q {
        Q { n: self.n.abs(), d: self.d }
    }
    pub fn half(self) -> Q {
        self.m_div(Q::int(2))
    }
    pub fn sq(self) -> Q {
        self.m_mul(self)
    }
    pub fn max_q(self, o: Q) -> Q {
        if self >= o {
            self
        } else {
            o
        }
    }
    pub fn min_q(self, o: Q) -> Q {
        if self <= o {
            self
        } else {
            o
        }
    }
    /// bit size of the representation (height); generators use this to stay small
    pub fn height_bits(self) -> u32 {
        (128 - self.n.unsigned_abs().leading_zeros()).max(128 - (self.d as u128).leading_zeros())
    }
    pub fn hash64(self) -> u64 {
        crate::prng::mix2(crate::prng::mix2(self.n as u64, (self.n >> 64) as u64), crate::prng::mix2(self.d as u64, (self.d >> 64) as u64))
    }
}

impl fmt::Debug for Q {
    fn fmt(&self, f: &mut fmt::Formatter) -> fmt::Result {
        if self.d == 1 {
            write!(f, "{}", self.n)
        } else {
            write!(f, "{}/{}", self.n, self.d)
        }
    }
}
impl fmt::Display for Q {
    fn fmt(&self, f: &mut fmt::Formatter) -> fmt::Result {
        fmt::Debug::fmt(self, f)
    }
}

// --- angle registry -----------------------------------------------------------------
// vek takes angles as plain T and calls sin/cos on them.  A generator registers *angle
// tokens*: a rational close to the real angle, with an exact rational point (c,s) on the
// unit circle.  sin/cos of anything unregistered poisons.

thread_local! {
    static ANGLES: RefCell<Vec<(Q, Q, Q)>> = const { RefCell::new(Vec::new()) };
}

pub fn clear_angles() {
    ANGLES.with(|a| a.borrow_mut().clear());
}
pub fn register_angle(token: Q, cos: Q, sin: Q) {
    debug_assert!(cos.sq().m_add(sin.sq()) == Q::ONE);
    ANGLES.with(|a| {
        let mut a = a.borrow_mut();
        if let Some(e) = a.iter().find(|e| e.0 == token) {
            // re-registration must agree
            if !(e.1 == cos && e.2 == sin) {
                poison("angle_token_collision");
            }
            return;
        }
        a.push((token, cos, sin));
    });
}
fn lookup_angle(token: Q) -> Option<(Q, Q)> {
    ANGLES.with(|a| a.borrow().iter().find(|e| e.0 == token).map(|e| (e.1, e.2)))
}

/// A registered angle: token value (what is passed to vek) and its exact (cos, sin),
/// plus the half angle's (cos, sin), also registered under token/2.
#[derive(Clone, Copy, Debug)]
pub struct Angle {
    pub token: Q,
    pub c: Q,
    pub s: Q,
    pub c_half: Q,
    pub s_half: Q,
    pub approx: f64,
}

/// Build and register an angle from u = tan(theta/4) (any rational): theta in (-2pi, 2pi).
pub fn angle_from_quarter_tan(u: Q) -> Angle {
    let one = Q::ONE;
    let u2 = u.sq();
    let den = one.m_add(u2);
    let c2 = one.m_sub(u2).m_div(den);
    let s2 = u.m_add(u).m_div(den);
    let c = c2.sq().m_sub(s2.sq());
    let s = s2.m_mul(c2).m_mul(Q::int(2));
    let theta = 4.0 * u.to_f64().atan();
    // dyadic token with 24 fractional bits; token/2 is exact too
    let token = Q::new((theta * (1u64 << 24) as f64).round() as i128, 1i128 << 24);
    register_angle(token, c, s);
    register_angle(token.half(), c2, s2);
    Angle { token, c, s, c_half: c2, s_half: s2, approx: theta }
}

/// Register the sum of two registered angles (and its half) via the addition formulas.
pub fn angle_sum(a: &Angle, b: &Angle) -> Angle {
    let c = a.c.m_mul(b.c).m_sub(a.s.m_mul(b.s));
    let s = a.s.m_mul(b.c).m_add(a.c.m_mul(b.s));
    let c2 = a.c_half.m_mul(b.c_half).m_sub(a.s_half.m_mul(b.s_half));
    let s2 = a.s_half.m_mul(b.c_half).m_add(a.c_half.m_mul(b.s_half));
    let token = a.token.m_add(b.token);
    register_angle(token, c, s);
    register_angle(token.half(), c2, s2);
    Angle { token, c, s, c_half: c2, s_half: s2, approx: a.approx + b.approx }
}

pub fn angle_neg(a: &Angle) -> Angle {
    let token = a.token.m_neg();
    register_angle(token, a.c, a.s.m_neg());
    register_angle(token.half(), a.c_half, a.s_half.m_neg());
    Angle { token, c: a.c, s: a.s.m_neg(), c_half: a.c_half, s_half: a.s_half.m_neg(), approx: -a.approx }
}

impl Mon for Q {
    const NAME: &'static str = "Q";
    #[inline]
    fn m_int(i: i64) -> Q {
        Q::int(i)
    }
    fn m_add(self, o: Q) -> Q {
        if self.d == o.d {
            return match self.n.checked_add(o.n) {
                Some(n) => Q::new(n, self.d),
                None => {
                    poison("repr_overflow");
                    Q::ZERO
                }
            };
        }
        let g = gcd(self.d as u128, o.d as u128) as i128;
        let (da, db) = (self.d / g, o.d / g);
        let r = (|| {
            let a = self.n.checked_mul(db)?;
            let b = o.n.checked_mul(da)?;
            let n = a.checked_add(b)?;
            let d = self.d.checked_mul(db)?;
            Some(Q::new(n, d))
        })();
        r.unwrap_or_else(|| {
            poison("repr_overflow");
            Q::ZERO
        })
    }
    fn m_sub(self, o: Q) -> Q {
        self.m_add(Q { n: -o.n, d: o.d })
    }
    fn m_mul(self, o: Q) -> Q {
        let g1 = gcd(self.n.unsigned_abs(), o.d as u128) as i128;
        let g2 = gcd(o.n.unsigned_abs(), self.d as u128) as i128;
        let (g1, g2) = (g1.max(1), g2.max(1));
        let r = (|| {
            let n = (self.n / g1).checked_mul(o.n / g2)?;
            let d = (self.d / g2).checked_mul(o.d / g1)?;
            Some(Q::new(n, d))
        })();
        r.unwrap_or_else(|| {
            poison("repr_overflow");
            Q::ZERO
        })
    }
    fn m_div(self, o: Q) -> Q {
        if o.n == 0 {
            poison("div_by_zero");
            return Q::ZERO;
        }
        let inv = if o.n < 0 { Q { n: -o.d, d: -o.n } } else { Q { n: o.d, d: o.n } };
        self.m_mul(inv)
    }
    fn m_rem(self, o: Q) -> Q {
        // truncated remainder like f64's %
        if o.n == 0 {
            poison("div_by_zero");
            return Q::ZERO;
        }
        let q = self.m_div(o);
        let t = if q.n >= 0 { q.floor_q() } else { q.m_neg().floor_q().m_neg() };
        self.m_sub(t.m_mul(o))
    }
    #[inline]
    fn m_neg(self) -> Q {
        Q { n: -self.n, d: self.d }
    }
    #[inline]
    fn m_eq(self, o: Q) -> bool {
        self.n == o.n && self.d == o.d
    }
    fn m_cmp(self, o: Q) -> Option<Ordering> {
        if self.d == o.d {
            return Some(self.n.cmp(&o.n));
        }
        match (self.n.checked_mul(o.d), o.n.checked_mul(self.d)) {
            (Some(a), Some(b)) => Some(a.cmp(&b)),
            _ => {
                // fall back to sign / float comparison; exact enough only if far apart
                let (a, b) = (self.to_f64(), o.to_f64());
                if (a - b).abs() > 1e-6 * (a.abs() + b.abs() + 1.0) {
                    a.partial_cmp(&b)
                } else {
                    poison("repr_overflow");
                    Some(Ordering::Equal)
                }
            }
        }
    }
    fn m_sqrt(self) -> Q {
        match self.exact_sqrt() {
            Some(r) => r,
            None => {
                if self.n < 0 {
                    poison("sqrt_negative");
                } else {
                    poison("irrational_sqrt");
                }
                Q::ONE
            }
        }
    }
    fn m_sin(self) -> Q {
        match lookup_angle(self) {
            Some((_, s)) => s,
            None => {
                poison("unregistered_angle");
                Q::ZERO
            }
        }
    }
    fn m_cos(self) -> Q {
        match lookup_angle(self) {
            Some((c, _)) => c,
            None => {
                poison("unregistered_angle");
                Q::ONE
            }
        }
    }
    fn m_abs(self) -> Q {
        self.abs_q()
    }
    fn m_floor(self) -> Q {
        self.floor_q()
    }
    fn m_round(self) -> Q {
        self.round_q()
    }
    fn m_unsupported(self, what: &'static str) -> Q {
        poison(what);
        Q::ZERO
    }
    fn m_epsilon() -> Q {
        Q { n: 1, d: 1i128 << 52 }
    }
    fn m_pi() -> Q {
        // 60-bit dyadic approximation of pi; only ever used by vek in range assertions
        Q::new((std::f64::consts::PI * (1u64 << 50) as f64) as i128, 1i128 << 50)
    }
    fn m_to_f64(self) -> Option<f64> {
        Some(self.to_f64())
    }
}

crate::impl_scalar_traits!(Q);
impl Eq for Q {}
impl std::hash::Hash for Q {
    fn hash<H: std::hash::Hasher>(&self, h: &mut H) {
        self.n.hash(h);
        self.d.hash(h);
    }
}

/// shorthand constructors for tests / generators
pub fn q(n: i64) -> Q {
    Q::int(n)
}
pub fn qf(n: i64, d: i64) -> Q {
    Q::frac(n, d)
}

//! Verdict plumbing: per-case poison flag, sub-check statistics, violations, JSON output.
//!
//! A property binary builds a `Report`, fills `Sub`s (one per sub-check; thread-local
//! copies are merged), and calls `Report::finish`, which writes one JSON document that
//! the python driver turns into evidence / replay files / exit code.

use std::cell::Cell;
use std::collections::{BTreeMap, HashSet};
use std::fmt::Write as _;
use std::panic::{self, AssertUnwindSafe};
use std::time::Instant;

// ---------------------------------------------------------------------------------
// poison: a monitor value that cannot represent what vek asked of it (irrational sqrt,
// overflow of the exact representation, comparison of symbolic values, ...) marks the
// current case inconclusive.  Never a verdict.

thread_local! {
    static POISON: Cell<Option<&'static str>> = const { Cell::new(None) };
}

pub fn poison(reason: &'static str) {
    POISON.with(|p| {
        if p.get().is_none() {
            p.set(Some(reason));
        }
    });
}
pub fn poisoned() -> Option<&'static str> {
    POISON.with(|p| p.get())
}
pub fn take_poison() -> Option<&'static str> {
    POISON.with(|p| p.replace(None))
}

// ---------------------------------------------------------------------------------
// panic capture

static HOOK: std::sync::Once = std::sync::Once::new();
thread_local! {
    static QUIET: Cell<bool> = const { Cell::new(false) };
}

/// Install a panic hook that stays silent while a monitored call is in flight.
pub fn install_quiet_hook() {
    HOOK.call_once(|| {
        let prev = panic::take_hook();
        panic::set_hook(Box::new(move |info| {
            let quiet = QUIET.with(|q| q.get());
            if !quiet {
                prev(info);
            }
        }));
    });
}

/// Run `f`, turning a panic into `Err(message)`.
pub fn guarded<R>(f: impl FnOnce() -> R) -> Result<R, String> {
    install_quiet_hook();
    let was = QUIET.with(|q| q.replace(true));
    let r = panic::catch_unwind(AssertUnwindSafe(f));
    QUIET.with(|q| q.set(was));
    r.map_err(|e| {
        if let Some(s) = e.downcast_ref::<&'static str>() {
            s.to_string()
        } else if let Some(s) = e.downcast_ref::<String>() {
            s.clone()
        } else {
            "<non-string panic>".to_string()
        }
    })
}

// ---------------------------------------------------------------------------------
// JSON (writer only)

#[derive(Clone, Debug)]
pub enum Json {
    Null,
    Bool(bool),
    Int(i128),
    Num(f64),
    Str(String),
    Arr(Vec<Json>),
    Obj(Vec<(String, Json)>),
}

impl Json {
    pub fn s(x: impl Into<String>) -> Json {
        Json::Str(x.into())
    }
    pub fn i(x: impl Into<i128>) -> Json {
        Json::Int(x.into())
    }
    pub fn obj(kv: Vec<(&str, Json)>) -> Json {
        Json::Obj(kv.into_iter().map(|(k, v)| (k.to_string(), v)).collect())
    }
    pub fn write(&self, out: &mut String) {
        match self {
            Json::Null => out.push_str("null"),
            Json::Bool(b) => out.push_str(if *b { "true" } else { "false" }),
            Json::Int(i) => {
                let _ = write!(out, "{}", i);
            }
            Json::Num(f) => {
                if f.is_finite() {
                    let _ = write!(out, "{}", f);
                } else {
                    let _ = write!(out, "\"{}\"", f);
                }
            }
            Json::Str(s) => {
                out.push('"');
                for c in s.chars() {
                    match c {
                        '"' => out.push_str("\\\""),
                        '\\' => out.push_str("\\\\"),
                        '\n' => out.push_str("\\n"),
                        '\r' => out.push_str("\\r"),
                        '\t' => out.push_str("\\t"),
                        c if (c as u32) < 0x20 => {
                            let _ = write!(out, "\\u{:04x}", c as u32);
                        }
                        c => out.push(c),
                    }
                }
                out.push('"');
            }
            Json::Arr(a) => {
                out.push('[');
                for (i, x) in a.iter().enumerate() {
                    if i > 0 {
                        out.push(',');
                    }
                    x.write(out);
                }
                out.push(']');
            }
            Json::Obj(o) => {
                out.push('{');
                for (i, (k, v)) in o.iter().enumerate() {
                    if i > 0 {
                        out.push(',');
                    }
                    Json::Str(k.clone()).write(out);
                    out.push(':');
                    v.write(out);
                }
                out.push('}');
            }
        }
    }
    pub fn to_string(&self) -> String {
        let mut s = String::new();
        self.write(&mut s);
        s
    }
}

// ---------------------------------------------------------------------------------
// violations

#[derive(Clone, Debug)]
pub struct Violation {
    /// sub-check name
    pub sub: String,
    /// vek entry point, e.g. "Lerp::lerp_unclamped"
    pub api: String,
    /// element type / instantiation, e.g. "u8", "Rows4<Q>"
    pub ty: String,
    /// failure class: "wrong_value", "panic", "missing_panic", "ub", "ownership", "build", ...
    pub class: String,
    /// the exact signature known findings are keyed on
    pub sig: String,
    /// human readable: inputs, observed, expected
    pub detail: String,
    /// machine-readable replay address
    pub case_seed: u64,
    pub case_index: u64,
}

impl Violation {
    pub fn to_json(&self) -> Json {
        Json::obj(vec![
            ("sub", Json::s(&self.sub)),
            ("api", Json::s(&self.api)),
            ("ty", Json::s(&self.ty)),
            ("class", Json::s(&self.class)),
            ("sig", Json::s(&self.sig)),
            ("detail", Json::s(&self.detail)),
            ("case_seed", Json::Str(self.case_seed.to_string())),
            ("case_index", Json::Str(self.case_index.to_string())),
        ])
    }
}

// ---------------------------------------------------------------------------------
// sub-check statistics

pub const MAX_VIOLATIONS_KEPT: usize = 40;
pub const MAX_SAMPLES: usize = 3;

#[derive(Debug, Default)]
pub struct Sub {
    pub name: String,
    pub rule: String,
    /// cases executed
    pub evaluations: u64,
    /// cases with a verdict (held or violated)
    pub conclusive: u64,
    /// conclusive + non-trivial cases (possibly with duplicates)
    pub nontrivial: u64,
    /// distinct canonical-input hashes among the non-trivial conclusive cases
    pub distinct: HashSet<u64>,
    /// when a finite space is enumerated without repetition the hash set is skipped and
    /// the count kept here
    pub distinct_enumerated: u64,
    pub exhaustive: bool,
    pub inconclusive: BTreeMap<String, u64>,
    pub observed: BTreeMap<String, u64>,
    pub samples: Vec<String>,
    pub violations: Vec<Violation>,
    pub violations_total: u64,
    /// violations by signature (all of them, not only the kept ones)
    pub violations_by_sig: BTreeMap<String, u64>,
    /// minimum number of distinct non-trivial conclusive cases this sub-check must reach
    pub floor: u64,
    /// entry points that must be observed at least once
    pub required: Vec<String>,
    pub extra: Vec<(String, Json)>,
}

impl Sub {
    pub fn new(name: &str, rule: &str) -> Self {
        Sub { name: name.to_string(), rule: rule.to_string(), ..Default::default() }
    }
    pub fn with_floor(mut self, floor: u64) -> Self {
        self.floor = floor;
        self
    }
    pub fn require(mut self, apis: &[&str]) -> Self {
        for a in apis {
            self.required.push(a.to_string());
        }
        self
    }
    /// fresh accumulator with the same identity (for worker threads)
    pub fn fork(&self) -> Sub {
        Sub { name: self.name.clone(), rule: self.rule.clone(), ..Default::default() }
    }
    pub fn saw(&mut self, api: &str) {
        *self.observed.entry(api.to_string()).or_insert(0) += 1;
    }
    pub fn saw_n(&mut self, api: &str, n: u64) {
        *self.observed.entry(api.to_string()).or_insert(0) += n;
    }
    pub fn sample(&mut self, f: impl FnOnce() -> String) {
        if self.samples.len() < MAX_SAMPLES {
            self.samples.push(f());
        }
    }
    /// one executed case that held. `hash` = canonical input hash, `nontrivial` per the rule.
    pub fn held(&mut self, hash: u64, nontrivial: bool) {
        self.evaluations += 1;
        self.conclusive += 1;
        if nontrivial {
            self.nontrivial += 1;
            self.distinct.insert(hash);
        }
    }
    /// a held case from an enumeration that is known not to repeat
    pub fn held_enumerated(&mut self, nontrivial: bool) {
        self.evaluations += 1;
        self.conclusive += 1;
        if nontrivial {
            self.nontrivial += 1;
            self.distinct_enumerated += 1;
        }
    }
    pub fn inconclusive(&mut self, reason: &str) {
        self.evaluations += 1;
        *self.inconclusive.entry(reason.to_string()).or_insert(0) += 1;
    }
    pub fn violated(&mut self, v: Violation) {
        self.evaluations += 1;
        self.conclusive += 1;
        self.add_violation(v);
    }
    /// record a violation without counting a case (when the case is counted elsewhere)
    pub fn add_violation(&mut self, v: Violation) {
        self.violations_total += 1;
        let n = self.violations_by_sig.entry(v.sig.clone()).or_insert(0);
        *n += 1;
        // keep the first few per signature so that every distinct signature has a witness
        if *n <= 3 && self.violations.len() < MAX_VIOLATIONS_KEPT {
            self.violations.push(v);
        }
    }
    pub fn merge(&mut self, o: Sub) {
        self.evaluations += o.evaluations;
        self.conclusive += o.conclusive;
        self.nontrivial += o.nontrivial;
        self.distinct.extend(o.distinct);
        self.distinct_enumerated += o.distinct_enumerated;
        for (k, v) in o.inconclusive {
            *self.inconclusive.entry(k).or_insert(0) += v;
        }
        for (k, v) in o.observed {
            *self.observed.entry(k).or_insert(0) += v;
        }
        for s in o.samples {
            if self.samples.len() < MAX_SAMPLES {
                self.samples.push(s);
            }
        }
        self.violations_total += o.violations_total;
        for (k, v) in o.violations_by_sig {
            *self.violations_by_sig.entry(k).or_insert(0) += v;
        }
        for v in o.violations {
            let kept_same = self.violations.iter().filter(|w| w.sig == v.sig).count();
            if kept_same < 3 && self.violations.len() < MAX_VIOLATIONS_KEPT {
                self.violations.push(v);
            }
        }
        self.extra.extend(o.extra);
    }
    pub fn distinct_count(&self) -> u64 {
        self.distinct.len() as u64 + self.distinct_enumerated
    }
    fn to_json(&self) -> Json {
        let missing: Vec<Json> = self
            .required
            .iter()
            .filter(|r| self.observed.get(*r).copied().unwrap_or(0) == 0)
            .map(|r| Json::s(r.clone()))
            .collect();
        let mut kv = vec![
            ("name", Json::s(&self.name)),
            ("rule", Json::s(&self.rule)),
            ("evaluations", Json::i(self.evaluations)),
            ("conclusive", Json::i(self.conclusive)),
            ("nontrivial", Json::i(self.nontrivial)),
            ("distinct_nontrivial", Json::i(self.distinct_count())),
            ("exhaustive", Json::Bool(self.exhaustive)),
            ("floor", Json::i(self.floor)),
            (
                "inconclusive",
                Json::Obj(self.inconclusive.iter().map(|(k, v)| (k.clone(), Json::i(*v))).collect()),
            ),
            (
                "observed_calls",
                Json::Obj(self.observed.iter().map(|(k, v)| (k.clone(), Json::i(*v))).collect()),
            ),
            ("required_missing", Json::Arr(missing)),
            ("samples", Json::Arr(self.samples.iter().map(|s| Json::s(s.clone())).collect())),
            ("violations_total", Json::i(self.violations_total)),
            (
                "violations_by_sig",
                Json::Obj(self.violations_by_sig.iter().map(|(k, v)| (k.clone(), Json::i(*v))).collect()),
            ),
            ("violations", Json::Arr(self.violations.iter().map(|v| v.to_json()).collect())),
        ];
        let extra: Vec<(String, Json)> = self.extra.clone();
        let mut o: Vec<(String, Json)> = kv.drain(..).map(|(k, v)| (k.to_string(), v)).collect();
        if !extra.is_empty() {
            o.push(("extra".to_string(), Json::Obj(extra)));
        }
        Json::Obj(o)
    }
}

// ---------------------------------------------------------------------------------
// run configuration and the report

#[derive(Clone, Debug)]
pub struct Config {
    pub property: String,
    pub tier: String,
    pub seed: u64,
    pub out: Option<String>,
    pub profile: String,
    pub threads: usize,
    /// replay: run only this sub-check / case
    pub only_sub: Option<String>,
    pub only_index: Option<u64>,
    pub only_seed: Option<u64>,
    /// shard i of n (for tools that run one thread per process, e.g. Miri)
    pub shard: (u64, u64),
    pub tool: String,
    /// multiply all case counts (debug aid)
    pub scale_pct: u64,
}

impl Config {
    pub fn from_args(property: &str) -> Config {
        let mut c = Config {
            property: property.to_string(),
            tier: "quick".into(),
            seed: 1,
            out: None,
            profile: if cfg!(debug_assertions) { "checked".into() } else { "release".into() },
            threads: 16,
            only_sub: None,
            only_index: None,
            only_seed: None,
            shard: (0, 1),
            tool: "native".into(),
            scale_pct: 100,
        };
        let args: Vec<String> = std::env::args().collect();
        let mut i = 1;
        while i < args.len() {
            let a = args[i].as_str();
            let mut val = || {
                i += 1;
                args.get(i).cloned().unwrap_or_default()
            };
            match a {
                "--tier" => c.tier = val(),
                "--seed" => c.seed = val().parse().unwrap_or(1),
                "--out" => c.out = Some(val()),
                "--threads" => c.threads = val().parse().unwrap_or(16),
                "--sub" => c.only_sub = Some(val()),
                "--index" => c.only_index = val().parse().ok(),
                "--case-seed" => c.only_seed = val().parse().ok(),
                "--tool" => c.tool = val(),
                "--scale" => c.scale_pct = val().parse().unwrap_or(100),
                "--shard" => {
                    let v = val();
                    let mut it = v.split('/');
                    let a = it.next().and_then(|x| x.parse().ok()).unwrap_or(0);
                    let b = it.next().and_then(|x| x.parse().ok()).unwrap_or(1);
                    c.shard = (a, b);
                }
                _ => {}
            }
            i += 1;
        }
        c
    }
    pub fn thorough(&self) -> bool {
        self.tier == "thorough"
    }
    /// pick a case count by tier
    pub fn n(&self, quick: u64, thorough: u64) -> u64 {
        let base = if self.thorough() { thorough } else { quick };
        (base * self.scale_pct / 100).max(1)
    }
    pub fn wants(&self, sub: &str) -> bool {
        match &self.only_sub {
            Some(s) => s == sub,
            None => true,
        }
    }
    pub fn case_seed(&self) -> u64 {
        self.only_seed.unwrap_or(self.seed)
    }
}

pub struct Report {
    pub cfg: Config,
    pub subs: Vec<Sub>,
    pub start: Instant,
    pub notes: Vec<String>,
}

impl Report {
    pub fn new(cfg: Config) -> Self {
        install_quiet_hook();
        Report { cfg, subs: Vec::new(), start: Instant::now(), notes: Vec::new() }
    }
    pub fn push(&mut self, s: Sub) {
        if let Some(e) = self.subs.iter_mut().find(|e| e.name == s.name) {
            e.merge(s);
        } else {
            self.subs.push(s);
        }
    }
    pub fn note(&mut self, s: impl Into<String>) {
        self.notes.push(s.into());
    }
    /// Write the result document and return the process exit code *before* known
    /// findings are applied by the driver (0 = no violation, 1 = violations, 2 = harness).
    pub fn finish(self) -> i32 {
        let wall = self.start.elapsed().as_secs_f64();
        let mut harness_problems: Vec<Json> = Vec::new();
        let replaying = self.cfg.only_sub.is_some();
        let sharded = self.cfg.shard.1 > 1;
        let mut total_viol = 0u64;
        let mut blind_notes: Vec<String> = Vec::new();
        for s in &self.subs {
            total_viol += s.violations_total;
            if replaying || sharded {
                continue;
            }
            for r in &s.required {
                if s.observed.get(r).copied().unwrap_or(0) == 0 {
                    harness_problems.push(Json::s(format!("{}: required entry point {} observed 0 times", s.name, r)));
                }
            }
            // violated cases are explored cases too: they count towards the floor, so that a
            // defect breaking most cases is reported as a violation (exit 1), not as a thin run
            if s.distinct_count() + s.violations_total < s.floor {
                // A finite-field / symbolic tier cannot follow a branch on element values: when vek's
                // code for an entry point (newly) compares elements, every case of such a tier
                // abstains.  That is structural blindness of the tier, not a thin run: the floor is
                // waived (with a note) provided every entry point the sub-check had to observe is
                // observed by another sub-check of this run that is not blinded -- the exact-rational
                // and native tiers then decide.  Otherwise it stays a harness problem.
                // The same holds for the exact-rational tier when vek (newly) asks for the largest /
                // smallest value of the element type: the rationals have none (`real_max_value`,
                // `real_min_value` poison the case).  There only the cases that reach such a call
                // abstain, so the waiver applies when the abstaining cases account for the shortfall.
                const BLIND: [&str; 8] = ["poison:fp_compare", "poison:sym_compare", "poison:fp_abs", "poison:fp_epsilon", "poison:sym_epsilon", "poison:fp_floor", "poison:real_max_value", "poison:real_min_value"];
                let blind_count = |t: &Sub| -> u64 { BLIND.iter().map(|k| t.inconclusive.get(*k).copied().unwrap_or(0)).sum() };
                let blinded = |t: &Sub| -> bool { t.evaluations > 0 && blind_count(t) * 100 >= t.evaluations * 95 };
                let shortfall_is_blindness = blind_count(s) * 2 >= s.evaluations && s.distinct_count() + s.violations_total + blind_count(s) >= s.floor;
                if blinded(s) || shortfall_is_blindness {
                    let names: Vec<&String> = if s.required.is_empty() { s.observed.keys().collect() } else { s.required.iter().collect() };
                    let covered = names.iter().all(|r| self.subs.iter().any(|t| t.name != s.name && !blinded(t) && t.conclusive > 0 && t.observed.get(*r).copied().unwrap_or(0) > 0));
                    if covered && !names.is_empty() {
                        blind_notes.push(format!(
                            "{}: abstained (vek branches on element values in every case; a finite-field / symbolic tier cannot follow a branch); its {} entry points are decided by the other tiers of this run",
                            s.name,
                            names.len()
                        ));
                        continue;
                    }
                }
                harness_problems.push(Json::s(format!(
                    "{}: only {} distinct non-trivial conclusive cases, floor is {}",
                    s.name,
                    s.distinct_count(),
                    s.floor
                )));
            }
        }
        let doc = Json::obj(vec![
            ("property", Json::s(&self.cfg.property)),
            ("tier", Json::s(&self.cfg.tier)),
            ("seed", Json::Str(self.cfg.seed.to_string())),
            ("profile", Json::s(&self.cfg.profile)),
            ("tool", Json::s(&self.cfg.tool)),
            ("shard", Json::s(format!("{}/{}", self.cfg.shard.0, self.cfg.shard.1))),
            ("wall_s", Json::Num(wall)),
            ("notes", Json::Arr(self.notes.iter().chain(blind_notes.iter()).map(|n| Json::s(n.clone())).collect())),
            ("harness_problems", Json::Arr(harness_problems.clone())),
            ("subs", Json::Arr(self.subs.iter().map(|s| s.to_json()).collect())),
        ]);
        let text = doc.to_string();
        match &self.cfg.out {
            Some(p) => {
                if let Err(e) = std::fs::write(p, &text) {
                    eprintln!("cannot write {}: {}", p, e);
                    return 2;
                }
            }
            None => println!("{}", text),
        }
        // human-readable summary on stderr
        for s in &self.subs {
            eprintln!(
                "[{} {}/{}] {:<34} eval={:<9} concl={:<9} distinct={:<8} inconcl={:<7} viol={}",
                self.cfg.property,
                self.cfg.profile,
                self.cfg.tool,
                s.name,
                s.evaluations,
                s.conclusive,
                s.distinct_count(),
                s.inconclusive.values().sum::<u64>(),
                s.violations_total
            );
        }
        for h in &harness_problems {
            eprintln!("HARNESS-PROBLEM {}", h.to_string());
        }
        if total_viol > 0 {
            return 1;
        }
        if !harness_problems.is_empty() {
            return 2;
        }
        0
    }
}

/// Run `work(thread_index, thread_count)` on `threads` scoped threads and collect results.
pub fn parallel<R: Send>(threads: usize, work: impl Fn(usize, usize) -> R + Sync) -> Vec<R> {
    let threads = threads.max(1);
    if threads == 1 {
        return vec![work(0, 1)];
    }
    std::thread::scope(|sc| {
        let hs: Vec<_> = (0..threads)
            .map(|t| {
                let w = &work;
                std::thread::Builder::new()
                    .stack_size(64 << 20)
                    .spawn_scoped(sc, move || w(t, threads))
                    .expect("spawn")
            })
            .collect();
        hs.into_iter().map(|h| h.join().expect("worker thread panicked")).collect()
    })
}

/// Convenience: run cases `0..n` of a sub-check split over threads, merging the Subs.
pub fn run_cases(cfg: &Config, proto: Sub, n: u64, f: impl Fn(&mut Sub, u64) + Sync) -> Sub {
    let mut out = proto;
    if !cfg.wants(&out.name) {
        // keep the sub out of floor accounting when replaying something else
        out.floor = 0;
        out.required.clear();
        return out;
    }
    if let Some(ix) = cfg.only_index {
        let mut s = out.fork();
        f(&mut s, ix);
        out.merge(s);
        return out;
    }
    let (sh, shn) = cfg.shard;
    let name = out.name.clone();
    let rule = out.rule.clone();
    let parts = parallel(cfg.threads, |t, tn| {
        let mut s = Sub::new(&name, &rule);
        let mut i = t as u64;
        while i < n {
            if i % shn == sh {
                f(&mut s, i);
            }
            i += tn as u64;
        }
        s
    });
    for p in parts {
        out.merge(p);
    }
    out
}

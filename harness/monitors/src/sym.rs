//! `Sym`: an element type that *records* what vek does to it.
//!
//! A `Sym` is a `Copy` handle into a per-thread, hash-consed operation log.  vek's real,
//! compiled generic code runs once, concretely, on these handles; every scalar operation it
//! applies appends a node.  Nothing is simplified, so the log is a faithful trace of the
//! dataflow: which operation was applied to which operands to produce each output element.
//!
//! Two offline oracles read the log:
//!  * structural: output i must be exactly the node `Add(x_i, y_i)` (handle equality);
//!  * algebraic: the logged expression is evaluated at random points of GF(2^61-1)
//!    (`eval_fp`), optionally with forward-mode derivatives (`eval_dual`), and compared with an
//!    independent reference evaluated at the same points — a polynomial identity test that is
//!    insensitive to association/commutation/fusing, i.e. "equal in every commutative ring";
//!    a mismatch is then re-evaluated on small exact rationals to print a concrete witness.
//!
//! Comparisons on `Sym` poison the case: branching code is monitored with `Q` instead.

use crate::fp::Fp;
use crate::prng::{mix2, Rng};
use crate::q::Q;
use crate::report::poison;
use crate::scalar::Mon;
use std::cell::RefCell;
use std::cmp::Ordering;
use std::collections::HashMap;
use std::fmt;

#[derive(Clone, Copy, PartialEq, Eq, Hash, Debug)]
pub enum Op {
    Add,
    Sub,
    Mul,
    Div,
    Rem,
    Neg,
    MulAdd,
    Shl,
    Shr,
    And,
    Or,
    Xor,
    Not,
    Sqrt,
    Sin,
    Cos,
    Abs,
    Floor,
    Round,
}

impl Op {
    pub fn sym(self) -> &'static str {
        match self {
            Op::Add => "+",
            Op::Sub => "-",
            Op::Mul => "*",
            Op::Div => "/",
            Op::Rem => "%",
            Op::Neg => "neg",
            Op::MulAdd => "mul_add",
            Op::Shl => "<<",
            Op::Shr => ">>",
            Op::And => "&",
            Op::Or => "|",
            Op::Xor => "^",
            Op::Not => "!",
            Op::Sqrt => "sqrt",
            Op::Sin => "sin",
            Op::Cos => "cos",
            Op::Abs => "abs",
            Op::Floor => "floor",
            Op::Round => "round",
        }
    }
}

#[derive(Clone, PartialEq, Eq, Hash, Debug)]
pub enum Node {
    Var(u32),
    Const(i64),
    Un(Op, u32),
    Bin(Op, u32, u32),
    Tri(Op, u32, u32, u32),
}

#[derive(Default)]
struct Arena {
    nodes: Vec<Node>,
    index: HashMap<Node, u32>,
    /// operation events in execution order (including repeated ones that hash-cons away)
    events: u64,
    op_counts: HashMap<Op, u64>,
}

thread_local! {
    static ARENA: RefCell<Arena> = RefCell::new(Arena::default());
}

#[derive(Clone, Copy, Hash)]
pub struct Sym(pub u32);
impl Eq for Sym {}

pub fn sym_reset() {
    ARENA.with(|a| {
        let mut a = a.borrow_mut();
        a.nodes.clear();
        a.index.clear();
        a.events = 0;
        a.op_counts.clear();
    });
}
pub fn sym_node_count() -> usize {
    ARENA.with(|a| a.borrow().nodes.len())
}
/// number of scalar operation events vek performed since the last reset
pub fn sym_events() -> u64 {
    ARENA.with(|a| a.borrow().events)
}
pub fn sym_op_count(op: Op) -> u64 {
    ARENA.with(|a| a.borrow().op_counts.get(&op).copied().unwrap_or(0))
}

fn intern(n: Node, is_event: Option<Op>) -> Sym {
    ARENA.with(|a| {
        let mut a = a.borrow_mut();
        if let Some(op) = is_event {
            a.events += 1;
            *a.op_counts.entry(op).or_insert(0) += 1;
        }
        if let Some(&i) = a.index.get(&n) {
            return Sym(i);
        }
        let i = a.nodes.len() as u32;
        a.nodes.push(n.clone());
        a.index.insert(n, i);
        Sym(i)
    })
}

impl Sym {
    pub fn var(k: u32) -> Sym {
        intern(Node::Var(k), None)
    }
    pub fn konst(i: i64) -> Sym {
        intern(Node::Const(i), None)
    }
    /// reference constructors (do not count as events of the code under test)
    pub fn un(op: Op, a: Sym) -> Sym {
        intern(Node::Un(op, a.0), None)
    }
    pub fn bin(op: Op, a: Sym, b: Sym) -> Sym {
        intern(Node::Bin(op, a.0, b.0), None)
    }
    pub fn tri(op: Op, a: Sym, b: Sym, c: Sym) -> Sym {
        intern(Node::Tri(op, a.0, b.0, c.0), None)
    }
    fn ev_un(op: Op, a: Sym) -> Sym {
        intern(Node::Un(op, a.0), Some(op))
    }
    fn ev_bin(op: Op, a: Sym, b: Sym) -> Sym {
        intern(Node::Bin(op, a.0, b.0), Some(op))
    }
    fn ev_tri(op: Op, a: Sym, b: Sym, c: Sym) -> Sym {
        intern(Node::Tri(op, a.0, b.0, c.0), Some(op))
    }
    pub fn node(self) -> Node {
        ARENA.with(|a| a.borrow().nodes[self.0 as usize].clone())
    }
    pub fn render(self) -> String {
        let mut s = String::new();
        render_into(self.0, &mut s, 0);
        s
    }
    /// set of variable ids this expression depends on
    pub fn vars(self) -> Vec<u32> {
        let mut out = Vec::new();
        let mut seen = std::collections::HashSet::new();
        let mut stack = vec![self.0];
        ARENA.with(|a| {
            let a = a.borrow();
            while let Some(i) = stack.pop() {
                if !seen.insert(i) {
                    continue;
                }
                match &a.nodes[i as usize] {
                    Node::Var(k) => out.push(*k),
                    Node::Const(_) => {}
                    Node::Un(_, x) => stack.push(*x),
                    Node::Bin(_, x, y) => {
                        stack.push(*x);
                        stack.push(*y)
                    }
                    Node::Tri(_, x, y, z) => {
                        stack.push(*x);
                        stack.push(*y);
                        stack.push(*z)
                    }
                }
            }
        });
        out.sort_unstable();
        out
    }
}

fn render_into(i: u32, out: &mut String, depth: u32) {
    if depth > 40 || out.len() > 600 {
        out.push_str("...");
        return;
    }
    let n = ARENA.with(|a| a.borrow().nodes[i as usize].clone());
    match n {
        Node::Var(k) => {
            out.push_str(&format!("v{}", k));
        }
        Node::Const(c) => out.push_str(&c.to_string()),
        Node::Un(op, a) => {
            out.push_str(op.sym());
            out.push('(');
            render_into(a, out, depth + 1);
            out.push(')');
        }
        Node::Bin(op, a, b) => {
            out.push('(');
            render_into(a, out, depth + 1);
            out.push_str(op.sym());
            render_into(b, out, depth + 1);
            out.push(')');
        }
        Node::Tri(op, a, b, c) => {
            out.push_str(op.sym());
            out.push('(');
            render_into(a, out, depth + 1);
            out.push(',');
            render_into(b, out, depth + 1);
            out.push(',');
            render_into(c, out, depth + 1);
            out.push(')');
        }
    }
}

impl fmt::Debug for Sym {
    fn fmt(&self, f: &mut fmt::Formatter) -> fmt::Result {
        write!(f, "{}", self.render())
    }
}
impl fmt::Display for Sym {
    fn fmt(&self, f: &mut fmt::Formatter) -> fmt::Result {
        write!(f, "{}", self.render())
    }
}

impl Mon for Sym {
    const NAME: &'static str = "Sym";
    fn m_int(i: i64) -> Sym {
        Sym::konst(i)
    }
    fn m_add(self, o: Sym) -> Sym {
        Sym::ev_bin(Op::Add, self, o)
    }
    fn m_sub(self, o: Sym) -> Sym {
        Sym::ev_bin(Op::Sub, self, o)
    }
    fn m_mul(self, o: Sym) -> Sym {
        Sym::ev_bin(Op::Mul, self, o)
    }
    fn m_div(self, o: Sym) -> Sym {
        Sym::ev_bin(Op::Div, self, o)
    }
    fn m_rem(self, o: Sym) -> Sym {
        Sym::ev_bin(Op::Rem, self, o)
    }
    fn m_neg(self) -> Sym {
        Sym::ev_un(Op::Neg, self)
    }
    fn m_mul_add(self, a: Sym, b: Sym) -> Sym {
        Sym::ev_tri(Op::MulAdd, self, a, b)
    }
    fn m_eq(self, o: Sym) -> bool {
        self.0 == o.0
    }
    fn m_cmp(self, o: Sym) -> Option<Ordering> {
        poison("sym_compare");
        Some(self.0.cmp(&o.0))
    }
    fn m_sqrt(self) -> Sym {
        Sym::ev_un(Op::Sqrt, self)
    }
    fn m_sin(self) -> Sym {
        Sym::ev_un(Op::Sin, self)
    }
    fn m_cos(self) -> Sym {
        Sym::ev_un(Op::Cos, self)
    }
    fn m_abs(self) -> Sym {
        Sym::ev_un(Op::Abs, self)
    }
    fn m_floor(self) -> Sym {
        Sym::ev_un(Op::Floor, self)
    }
    fn m_round(self) -> Sym {
        Sym::ev_un(Op::Round, self)
    }
    fn m_unsupported(self, what: &'static str) -> Sym {
        poison(what);
        self
    }
    fn m_epsilon() -> Sym {
        poison("sym_epsilon");
        Sym::konst(0)
    }
    fn m_pi() -> Sym {
        poison("sym_pi");
        Sym::konst(3)
    }
    fn m_to_f64(self) -> Option<f64> {
        None
    }
}

crate::impl_scalar_traits!(Sym);

macro_rules! sym_bitop {
    ($Tr:ident $f:ident $TrA:ident $fa:ident $op:expr) => {
        impl std::ops::$Tr for Sym { type Output = Sym; fn $f(self, o: Sym) -> Sym { Sym::ev_bin($op, self, o) } }
        impl<'a> std::ops::$Tr<&'a Sym> for Sym { type Output = Sym; fn $f(self, o: &'a Sym) -> Sym { Sym::ev_bin($op, self, *o) } }
        impl<'a> std::ops::$Tr<Sym> for &'a Sym { type Output = Sym; fn $f(self, o: Sym) -> Sym { Sym::ev_bin($op, *self, o) } }
        impl<'a, 'b> std::ops::$Tr<&'b Sym> for &'a Sym { type Output = Sym; fn $f(self, o: &'b Sym) -> Sym { Sym::ev_bin($op, *self, *o) } }
        impl std::ops::$TrA for Sym { fn $fa(&mut self, o: Sym) { *self = Sym::ev_bin($op, *self, o); } }
    };
}
sym_bitop!(BitAnd bitand BitAndAssign bitand_assign Op::And);
sym_bitop!(BitOr bitor BitOrAssign bitor_assign Op::Or);
sym_bitop!(BitXor bitxor BitXorAssign bitxor_assign Op::Xor);
sym_bitop!(Shl shl ShlAssign shl_assign Op::Shl);
sym_bitop!(Shr shr ShrAssign shr_assign Op::Shr);
impl std::ops::Not for Sym {
    type Output = Sym;
    fn not(self) -> Sym {
        Sym::ev_un(Op::Not, self)
    }
}

// --- evaluation ---------------------------------------------------------------------

/// A domain the log can be evaluated in.
pub trait EvalDom: Copy {
    fn int(i: i64) -> Self;
    fn add(self, o: Self) -> Option<Self>;
    fn sub(self, o: Self) -> Option<Self>;
    fn mul(self, o: Self) -> Option<Self>;
    fn div(self, o: Self) -> Option<Self>;
    fn neg(self) -> Option<Self>;
    /// uninterpreted unary function
    fn func(op: Op, a: Self) -> Option<Self>;
}

impl EvalDom for Fp {
    fn int(i: i64) -> Fp {
        Fp::from_i64(i)
    }
    fn add(self, o: Fp) -> Option<Fp> {
        Some(Fp::add(self, o))
    }
    fn sub(self, o: Fp) -> Option<Fp> {
        Some(Fp::sub(self, o))
    }
    fn mul(self, o: Fp) -> Option<Fp> {
        Some(Fp::mul(self, o))
    }
    fn div(self, o: Fp) -> Option<Fp> {
        Fp::div(self, o)
    }
    fn neg(self) -> Option<Fp> {
        Some(Fp::neg(self))
    }
    fn func(op: Op, a: Fp) -> Option<Fp> {
        // a fixed pseudo-random function per op: consistent, so f(x) == f(x)
        Some(Fp::new(mix2(a.0, op as u64 + 0x5151)))
    }
}

/// forward-mode dual number over GF(p)
#[derive(Clone, Copy, Debug)]
pub struct Dual {
    pub v: Fp,
    pub d: Fp,
}
impl EvalDom for Dual {
    fn int(i: i64) -> Dual {
        Dual { v: Fp::from_i64(i), d: Fp::ZERO }
    }
    fn add(self, o: Dual) -> Option<Dual> {
        Some(Dual { v: self.v.add(o.v), d: self.d.add(o.d) })
    }
    fn sub(self, o: Dual) -> Option<Dual> {
        Some(Dual { v: self.v.sub(o.v), d: self.d.sub(o.d) })
    }
    fn mul(self, o: Dual) -> Option<Dual> {
        Some(Dual { v: self.v.mul(o.v), d: self.d.mul(o.v).add(self.v.mul(o.d)) })
    }
    fn div(self, o: Dual) -> Option<Dual> {
        let inv = o.v.inv()?;
        let v = self.v.mul(inv);
        // (a/b)' = (a' - (a/b) b') / b
        let d = self.d.sub(v.mul(o.d)).mul(inv);
        Some(Dual { v, d })
    }
    fn neg(self) -> Option<Dual> {
        Some(Dual { v: self.v.neg(), d: self.d.neg() })
    }
    fn func(_op: Op, _a: Dual) -> Option<Dual> {
        None
    }
}

/// exact rational evaluation (for printing concrete witnesses); overflow -> None
#[derive(Clone, Copy, Debug)]
pub struct QE(pub Q);
impl EvalDom for QE {
    fn int(i: i64) -> QE {
        QE(Q::int(i))
    }
    fn add(self, o: QE) -> Option<QE> {
        chk(self.0.m_add(o.0))
    }
    fn sub(self, o: QE) -> Option<QE> {
        chk(self.0.m_sub(o.0))
    }
    fn mul(self, o: QE) -> Option<QE> {
        chk(self.0.m_mul(o.0))
    }
    fn div(self, o: QE) -> Option<QE> {
        if o.0.is_zero() {
            return None;
        }
        chk(self.0.m_div(o.0))
    }
    fn neg(self) -> Option<QE> {
        Some(QE(self.0.m_neg()))
    }
    fn func(_op: Op, _a: QE) -> Option<QE> {
        None
    }
}
fn chk(q: Q) -> Option<QE> {
    if crate::report::poisoned().is_some() {
        None
    } else {
        Some(QE(q))
    }
}

/// Evaluate every node of the current log under `assign` (variable id -> value).
/// Entry i is None if node i is undefined in this domain (division by zero, integer-only
/// operator, uninterpreted function where the domain has none).
pub fn eval_all<D: EvalDom>(assign: &dyn Fn(u32) -> D) -> Vec<Option<D>> {
    ARENA.with(|a| {
        let a = a.borrow();
        let mut out: Vec<Option<D>> = Vec::with_capacity(a.nodes.len());
        for n in a.nodes.iter() {
            let v = match n {
                Node::Var(k) => Some(assign(*k)),
                Node::Const(c) => Some(D::int(*c)),
                Node::Un(op, x) => match (op, out[*x as usize]) {
                    (_, None) => None,
                    (Op::Neg, Some(x)) => x.neg(),
                    (Op::Sqrt | Op::Sin | Op::Cos | Op::Abs | Op::Floor | Op::Round, Some(x)) => D::func(*op, x),
                    _ => None,
                },
                Node::Bin(op, x, y) => match (out[*x as usize], out[*y as usize]) {
                    (Some(x), Some(y)) => match op {
                        Op::Add => x.add(y),
                        Op::Sub => x.sub(y),
                        Op::Mul => x.mul(y),
                        Op::Div => x.div(y),
                        _ => None,
                    },
                    _ => None,
                },
                Node::Tri(op, x, y, z) => match (out[*x as usize], out[*y as usize], out[*z as usize]) {
                    (Some(x), Some(y), Some(z)) if *op == Op::MulAdd => x.mul(y).and_then(|m| m.add(z)),
                    _ => None,
                },
            };
            out.push(v);
        }
        out
    })
}

/// A random assignment of the variables, as a closure-friendly table.
pub struct Point {
    pub vals: Vec<Fp>,
}
impl Point {
    pub fn random(nvars: usize, rng: &mut Rng) -> Point {
        Point { vals: (0..nvars).map(|_| Fp::random_nonzero(rng)).collect() }
    }
    pub fn get(&self, k: u32) -> Fp {
        self.vals[k as usize]
    }
}

/// Outcome of comparing logged outputs with reference values at random points.
pub enum PitResult {
    /// all outputs agree with the reference at every point
    Equal { points: usize },
    /// output `index` differs; `witness` is a concrete small-rational counterexample if one
    /// could be computed
    Differ { index: usize, witness: Option<String> },
    /// some output was undefined at every point tried
    Undefined { index: usize },
}

/// Polynomial identity test.  `outputs` are handles produced by the code under test,
/// `reference(point)` computes the expected values of the same outputs from the variable
/// assignment, independently of vek.
pub fn pit(
    outputs: &[Sym],
    nvars: usize,
    rng: &mut Rng,
    points: usize,
    reference: &dyn Fn(&dyn Fn(u32) -> Fp) -> Vec<Fp>,
) -> PitResult {
    let mut defined_once = vec![false; outputs.len()];
    let mut done = 0usize;
    let mut attempts = 0usize;
    while done < points && attempts < points * 4 {
        attempts += 1;
        let pt = Point::random(nvars, rng);
        let f = |k: u32| pt.get(k);
        let vals = eval_all::<Fp>(&f);
        let exp = reference(&f);
        assert_eq!(exp.len(), outputs.len(), "reference arity");
        let mut all_defined = true;
        for (i, o) in outputs.iter().enumerate() {
            match vals[o.0 as usize] {
                Some(v) => {
                    defined_once[i] = true;
                    if v != exp[i] {
                        return PitResult::Differ { index: i, witness: None };
                    }
                }
                None => all_defined = false,
            }
        }
        if all_defined {
            done += 1;
        }
    }
    if let Some(i) = defined_once.iter().position(|d| !d) {
        return PitResult::Undefined { index: i };
    }
    PitResult::Equal { points: done }
}

/// Evaluate one output on small integers exactly, for a readable witness.
pub fn exact_witness(output: Sym, nvars: usize, rng: &mut Rng) -> Option<(Vec<i64>, Q)> {
    for _ in 0..20 {
        let vals: Vec<i64> = (0..nvars).map(|_| rng.range_i64(-7, 9)).collect();
        let f = |k: u32| QE(Q::int(vals[k as usize]));
        let saved = crate::report::take_poison();
        let all = eval_all::<QE>(&f);
        let bad = crate::report::take_poison();
        if let Some(s) = saved {
            poison(s);
        }
        if bad.is_some() {
            continue;
        }
        if let Some(QE(v)) = all[output.0 as usize] {
            return Some((vals, v));
        }
    }
    None
}

//! `Tag`: an opaque `Copy` token with an identity.  Used to watch pure data movement
//! (conversions, swizzles, shuffles, transposes, fills): output position -> input id.
//!
//! `Own`: a non-`Copy`, heap-owning token whose create / observe / clone / drop events are
//! written to a per-thread ownership ledger.  The heap allocation is real, so a double drop is
//! a real double free and an observation after a drop a real use-after-free — Miri and
//! memcheck corroborate the ledger independently.

use crate::report::poison;
use std::cell::{Cell, RefCell};
use std::fmt;
use std::mem::ManuallyDrop;
use std::sync::atomic::{AtomicBool, Ordering};

pub const TAG_ZERO: u32 = 0xFFFF_0000;
pub const TAG_ONE: u32 = 0xFFFF_0001;
pub const TAG_FULL: u32 = 0xFFFF_0002;
pub const TAG_DEFAULT: u32 = 0xFFFF_0003;

#[derive(Clone, Copy, PartialEq, Eq, Hash, PartialOrd, Ord)]
pub struct Tag(pub u32);

impl fmt::Debug for Tag {
    fn fmt(&self, f: &mut fmt::Formatter) -> fmt::Result {
        match self.0 {
            TAG_ZERO => write!(f, "ZERO"),
            TAG_ONE => write!(f, "ONE"),
            TAG_FULL => write!(f, "FULL"),
            TAG_DEFAULT => write!(f, "DEFAULT"),
            i => write!(f, "t{}", i),
        }
    }
}
impl fmt::Display for Tag {
    fn fmt(&self, f: &mut fmt::Formatter) -> fmt::Result {
        // plain number, so Display output of matrices can be parsed back
        write!(f, "{}", self.0)
    }
}
impl Default for Tag {
    fn default() -> Self {
        Tag(TAG_DEFAULT)
    }
}
impl std::ops::Add for Tag {
    type Output = Tag;
    fn add(self, _o: Tag) -> Tag {
        poison("tag_arith");
        self
    }
}
impl std::ops::Mul for Tag {
    type Output = Tag;
    fn mul(self, _o: Tag) -> Tag {
        poison("tag_arith");
        self
    }
}
impl num_traits::Zero for Tag {
    fn zero() -> Tag {
        Tag(TAG_ZERO)
    }
    fn is_zero(&self) -> bool {
        self.0 == TAG_ZERO
    }
}
impl num_traits::One for Tag {
    fn one() -> Tag {
        Tag(TAG_ONE)
    }
}
impl vek::ops::ColorComponent for Tag {
    fn full() -> Tag {
        Tag(TAG_FULL)
    }
}

// ---------------------------------------------------------------------------------------

/// When true (Miri / memcheck runs) `Own` performs the raw memory operation even when the
/// ledger already knows it is illegal, so that the sanitizer sees it.  When false (native
/// runs) the ledger reports the error and the illegal free / read is skipped, so that the
/// monitor process survives to report.
pub static RAW_MEMORY: AtomicBool = AtomicBool::new(false);

#[derive(Clone, Copy, Debug, PartialEq, Eq)]
pub enum Ev {
    Create(u32),
    Clone(u32, u32),
    Observe(u32),
    Drop(u32),
}

#[derive(Clone, Copy, Debug, Default)]
pub struct Slot {
    pub live: bool,
    pub drops: u32,
    pub observations: u32,
    pub default_minted: bool,
    /// native runs only (RAW_MEMORY off): address of the heap cell, so that a garbage `Own`
    /// (bytes that were never a live element) is recognised before its pointer is used.
    /// Left 0 under Miri / memcheck, where remembering addresses would hide leaks.
    pub addr: usize,
}

#[derive(Default)]
struct Ledger {
    slots: Vec<Slot>,
    events: Vec<Ev>,
    errors: Vec<String>,
}

thread_local! {
    static LEDGER: RefCell<Ledger> = RefCell::new(Ledger::default());
    static IN_LEDGER: Cell<bool> = const { Cell::new(false) };
}

pub fn ledger_reset() {
    LEDGER.with(|l| {
        let mut l = l.borrow_mut();
        l.slots.clear();
        l.events.clear();
        l.errors.clear();
    });
}
pub fn ledger_len() -> usize {
    LEDGER.with(|l| l.borrow().slots.len())
}
pub fn ledger_slot(id: u32) -> Slot {
    LEDGER.with(|l| l.borrow().slots.get(id as usize).copied().unwrap_or_default())
}
pub fn ledger_live() -> Vec<u32> {
    LEDGER.with(|l| l.borrow().slots.iter().enumerate().filter(|(_, s)| s.live).map(|(i, _)| i as u32).collect())
}
pub fn ledger_events_from(mark: usize) -> Vec<Ev> {
    LEDGER.with(|l| l.borrow().events[mark..].to_vec())
}
pub fn ledger_mark() -> usize {
    LEDGER.with(|l| l.borrow().events.len())
}
pub fn ledger_take_errors() -> Vec<String> {
    LEDGER.with(|l| std::mem::take(&mut l.borrow_mut().errors))
}
pub fn ledger_error_count() -> usize {
    LEDGER.with(|l| l.borrow().errors.len())
}

pub struct Own {
    id: u32,
    cell: ManuallyDrop<Box<u64>>,
}

const MAGIC: u64 = 0x0DD_C0FFEE_0000;

impl Own {
    pub fn new() -> Own {
        let id = LEDGER.with(|l| {
            let mut l = l.borrow_mut();
            let id = l.slots.len() as u32;
            l.slots.push(Slot { live: true, ..Default::default() });
            l.events.push(Ev::Create(id));
            id
        });
        let o = Own { id, cell: ManuallyDrop::new(Box::new(MAGIC + id as u64)) };
        if !RAW_MEMORY.load(Ordering::Relaxed) {
            let a = o.addr();
            LEDGER.with(|l| l.borrow_mut().slots[id as usize].addr = a);
        }
        o
    }
    /// identity without counting as an observation by the code under test
    pub fn id(&self) -> u32 {
        self.id
    }
    pub fn addr(&self) -> usize {
        &**self.cell as *const u64 as usize
    }
    fn observe(&self) -> u64 {
        let live = LEDGER.with(|l| {
            let mut l = l.borrow_mut();
            let id = self.id;
            l.events.push(Ev::Observe(id));
            let addr = &**self.cell as *const u64 as usize;
            match l.slots.get_mut(id as usize) {
                Some(s) if s.addr != 0 && s.addr != addr => {
                    l.errors.push(format!("observe of a garbage element (id field {} but its heap cell is not the one the ledger created)", id));
                    false
                }
                Some(s) => {
                    s.observations += 1;
                    if !s.live {
                        l.errors.push(format!("observe-after-drop id={}", id));
                        false
                    } else {
                        true
                    }
                }
                None => {
                    l.errors.push(format!("observe of unknown id={} (garbage element)", id));
                    false
                }
            }
        });
        if live || RAW_MEMORY.load(Ordering::Relaxed) {
            // real read of the heap cell: a use-after-free if the element was dropped
            let v = unsafe { std::ptr::read_volatile(&**self.cell as *const u64) };
            if live && v != MAGIC + self.id as u64 {
                LEDGER.with(|l| l.borrow_mut().errors.push(format!("heap cell of id={} corrupted: {:#x}", self.id, v)));
            }
            v
        } else {
            0
        }
    }
}

impl Default for Own {
    fn default() -> Own {
        let o = Own::new();
        LEDGER.with(|l| l.borrow_mut().slots[o.id as usize].default_minted = true);
        o
    }
}

impl Drop for Own {
    fn drop(&mut self) {
        let ok = LEDGER.with(|l| {
            let mut l = l.borrow_mut();
            let id = self.id;
            l.events.push(Ev::Drop(id));
            let addr = &**self.cell as *const u64 as usize;
            match l.slots.get_mut(id as usize) {
                Some(s) if s.addr != 0 && s.addr != addr => {
                    l.errors.push(format!("drop of a garbage element (id field {} but its heap cell is not the one the ledger created)", id));
                    false
                }
                Some(s) => {
                    s.drops += 1;
                    if !s.live {
                        let n = s.drops;
                        l.errors.push(format!("double-drop id={} (drop #{})", id, n));
                        false
                    } else {
                        s.live = false;
                        true
                    }
                }
                None => {
                    l.errors.push(format!("drop of unknown id={} (garbage element)", id));
                    false
                }
            }
        });
        if ok || RAW_MEMORY.load(Ordering::Relaxed) {
            unsafe { ManuallyDrop::drop(&mut self.cell) };
        }
        // an element type whose destructor panics (armed by the harness for one id, once): the drop
        // has been recorded and the memory released, then the destructor unwinds
        if ok && DROP_PANIC.with(|d| d.get()) == Some(self.id) {
            DROP_PANIC.with(|d| d.set(None));
            panic!("the destructor of element id {} panics", self.id);
        }
    }
}

thread_local! {
    static DROP_PANIC: std::cell::Cell<Option<u32>> = std::cell::Cell::new(None);
}
/// make the destructor of the element with this id panic (once), or disarm with `None`
pub fn arm_drop_panic(id: Option<u32>) {
    DROP_PANIC.with(|d| d.set(id));
}

impl Clone for Own {
    fn clone(&self) -> Own {
        self.observe();
        let o = Own::new();
        LEDGER.with(|l| l.borrow_mut().events.push(Ev::Clone(self.id, o.id)));
        o
    }
}
impl fmt::Debug for Own {
    fn fmt(&self, f: &mut fmt::Formatter) -> fmt::Result {
        self.observe();
        write!(f, "Own#{}", self.id)
    }
}
impl PartialEq for Own {
    fn eq(&self, o: &Own) -> bool {
        let a = self.observe();
        let b = o.observe();
        self.id == o.id && a == b
    }
}
impl Eq for Own {}
impl std::hash::Hash for Own {
    fn hash<H: std::hash::Hasher>(&self, h: &mut H) {
        let v = self.observe();
        h.write_u64(v);
    }
}

//! Shared input generators for the exact (`Q`) tiers.
use crate::prng::Rng;
use crate::q::Q;
use crate::scalar::Mon;

/// small rational: numerator in -m..=m, denominator in 1..=dmax
pub fn small_q(rng: &mut Rng, m: i64, dmax: i64) -> Q {
    Q::frac(rng.range_i64(-m, m), rng.range_i64(1, dmax))
}
pub fn small_q_nonzero(rng: &mut Rng, m: i64, dmax: i64) -> Q {
    Q::frac(rng.nonzero_i64(m), rng.range_i64(1, dmax))
}
pub fn small_q_pos(rng: &mut Rng, m: i64, dmax: i64) -> Q {
    Q::frac(rng.range_i64(1, m), rng.range_i64(1, dmax))
}
/// boundary-biased small rational: often 0, +-1, or an integer
pub fn biased_q(rng: &mut Rng, m: i64, dmax: i64) -> Q {
    match rng.below(10) {
        0 => Q::ZERO,
        1 => Q::ONE,
        2 => Q::int(-1),
        3 | 4 => Q::int(rng.range_i64(-m, m)),
        _ => small_q(rng, m, dmax),
    }
}

/// A rational unit quaternion (x,y,z,w) from four integers (not all zero):
/// q = (a + bi + cj + dk)^2 / |.|^2 is a unit quaternion with rational entries.
pub fn rational_unit_quat(rng: &mut Rng, m: i64) -> [Q; 4] {
    loop {
        let a = rng.range_i64(-m, m);
        let b = rng.range_i64(-m, m);
        let c = rng.range_i64(-m, m);
        let d = rng.range_i64(-m, m);
        let n = a * a + b * b + c * c + d * d;
        if n == 0 {
            continue;
        }
        // (w,x,y,z) = (a,b,c,d); square: w' = a^2-b^2-c^2-d^2, v' = 2a(b,c,d)
        let w = Q::frac(a * a - b * b - c * c - d * d, n);
        let x = Q::frac(2 * a * b, n);
        let y = Q::frac(2 * a * c, n);
        let z = Q::frac(2 * a * d, n);
        return [x, y, z, w];
    }
}

/// Rotation matrix (row-major 3x3, acting on column vectors) of a unit quaternion [x,y,z,w],
/// textbook formula, written independently of vek.
pub fn quat_to_mat3(q: [Q; 4]) -> [[Q; 3]; 3] {
    let [x, y, z, w] = q;
    let two = Q::int(2);
    let one = Q::ONE;
    [
        [one - two * (y * y + z * z), two * (x * y - z * w), two * (x * z + y * w)],
        [two * (x * y + z * w), one - two * (x * x + z * z), two * (y * z - x * w)],
        [two * (x * z - y * w), two * (y * z + x * w), one - two * (x * x + y * y)],
    ]
}

/// A random rational rotation matrix (proper, orthonormal rows and columns).
pub fn rational_rotation(rng: &mut Rng, m: i64) -> [[Q; 3]; 3] {
    quat_to_mat3(rational_unit_quat(rng, m))
}

/// A vector with rational length: a Pythagorean-style 3-vector from the quaternion
/// parametrisation: the first column of a rational rotation, scaled.
pub fn rational_length_vec3(rng: &mut Rng, m: i64) -> ([Q; 3], Q) {
    let r = rational_rotation(rng, m);
    let len = small_q_pos(rng, 6, 3);
    ([r[0][0] * len, r[1][0] * len, r[2][0] * len], len)
}

/// 2-vector with rational length
pub fn rational_length_vec2(rng: &mut Rng, m: i64) -> ([Q; 2], Q) {
    loop {
        let a = rng.range_i64(-m, m);
        let b = rng.range_i64(-m, m);
        if a == 0 && b == 0 {
            continue;
        }
        let n = a * a + b * b;
        let len = small_q_pos(rng, 6, 3);
        return ([Q::frac(a * a - b * b, n) * len, Q::frac(2 * a * b, n) * len], len);
    }
}

pub fn dot3(a: [Q; 3], b: [Q; 3]) -> Q {
    a[0] * b[0] + a[1] * b[1] + a[2] * b[2]
}
pub fn cross3(a: [Q; 3], b: [Q; 3]) -> [Q; 3] {
    [a[1] * b[2] - a[2] * b[1], a[2] * b[0] - a[0] * b[2], a[0] * b[1] - a[1] * b[0]]
}
pub fn matvec3(m: [[Q; 3]; 3], v: [Q; 3]) -> [Q; 3] {
    [dot3(m[0], v), dot3(m[1], v), dot3(m[2], v)]
}

/// naive n x n matrix product on nested arrays
pub fn matmul<const N: usize, T: Mon>(a: [[T; N]; N], b: [[T; N]; N]) -> [[T; N]; N] {
    let mut out = [[T::m_int(0); N]; N];
    for i in 0..N {
        for j in 0..N {
            let mut s = T::m_int(0);
            for k in 0..N {
                s = s.m_add(a[i][k].m_mul(b[k][j]));
            }
            out[i][j] = s;
        }
    }
    out
}
pub fn matvec<const N: usize, T: Mon>(a: [[T; N]; N], v: [T; N]) -> [T; N] {
    let mut out = [T::m_int(0); N];
    for i in 0..N {
        let mut s = T::m_int(0);
        for k in 0..N {
            s = s.m_add(a[i][k].m_mul(v[k]));
        }
        out[i] = s;
    }
    out
}
pub fn identity<const N: usize, T: Mon>() -> [[T; N]; N] {
    let mut out = [[T::m_int(0); N]; N];
    for i in 0..N {
        out[i][i] = T::m_int(1);
    }
    out
}
/// Leibniz determinant by permutation enumeration (independent of vek's expansion)
pub fn det<const N: usize, T: Mon>(a: [[T; N]; N]) -> T {
    fn rec<const N: usize, T: Mon>(a: &[[T; N]; N], row: usize, used: &mut [bool; N], sign: i64, acc: T, total: &mut T, inv_so_far: usize, perm: &mut [usize; N]) {
        let _ = inv_so_far;
        if row == N {
            // sign by inversion count
            let mut inv = 0;
            for i in 0..N {
                for j in (i + 1)..N {
                    if perm[i] > perm[j] {
                        inv += 1;
                    }
                }
            }
            let term = if inv % 2 == 0 { acc } else { acc.m_neg() };
            *total = total.m_add(term);
            let _ = sign;
            return;
        }
        for c in 0..N {
            if !used[c] {
                used[c] = true;
                perm[row] = c;
                rec(a, row + 1, used, sign, acc.m_mul(a[row][c]), total, 0, perm);
                used[c] = false;
            }
        }
    }
    let mut total = T::m_int(0);
    let mut used = [false; N];
    let mut perm = [0usize; N];
    rec(&a, 0, &mut used, 1, T::m_int(1), &mut total, 0, &mut perm);
    total
}

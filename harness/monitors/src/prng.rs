//! Small deterministic PRNG (SplitMix64 seeding a xoshiro256**), no external crates.
//! Every generated case is addressed by (sub-check name, seed, index): `Rng::for_case`.

#[derive(Clone, Debug)]
pub struct Rng {
    s: [u64; 4],
}

pub fn splitmix64(state: &mut u64) -> u64 {
    *state = state.wrapping_add(0x9E37_79B9_7F4A_7C15);
    let mut z = *state;
    z = (z ^ (z >> 30)).wrapping_mul(0xBF58_476D_1CE4_E5B9);
    z = (z ^ (z >> 27)).wrapping_mul(0x94D0_49BB_1331_11EB);
    z ^ (z >> 31)
}

pub fn hash_str(s: &str) -> u64 {
    // FNV-1a 64
    let mut h: u64 = 0xcbf2_9ce4_8422_2325;
    for b in s.as_bytes() {
        h ^= *b as u64;
        h = h.wrapping_mul(0x0000_0100_0000_01B3);
    }
    h
}

pub fn mix2(a: u64, b: u64) -> u64 {
    let mut s = a ^ b.rotate_left(32) ^ 0xD6E8_FEB8_6659_FD93;
    let x = splitmix64(&mut s);
    x ^ splitmix64(&mut s).rotate_left(17)
}

impl Rng {
    pub fn new(seed: u64) -> Self {
        let mut st = seed;
        let s = [
            splitmix64(&mut st),
            splitmix64(&mut st),
            splitmix64(&mut st),
            splitmix64(&mut st),
        ];
        Rng { s }
    }
    /// Independent stream for one case of one sub-check.
    pub fn for_case(sub: &str, seed: u64, index: u64) -> Self {
        Rng::new(mix2(mix2(hash_str(sub), seed), index))
    }
    pub fn next_u64(&mut self) -> u64 {
        let result = self.s[1].wrapping_mul(5).rotate_left(7).wrapping_mul(9);
        let t = self.s[1] << 17;
        self.s[2] ^= self.s[0];
        self.s[3] ^= self.s[1];
        self.s[1] ^= self.s[2];
        self.s[0] ^= self.s[3];
        self.s[2] ^= t;
        self.s[3] = self.s[3].rotate_left(45);
        result
    }
    pub fn next_u32(&mut self) -> u32 {
        (self.next_u64() >> 32) as u32
    }
    /// uniform in 0..n (n > 0)
    pub fn below(&mut self, n: u64) -> u64 {
        debug_assert!(n > 0);
        // multiply-shift; bias negligible for our n
        ((self.next_u64() as u128 * n as u128) >> 64) as u64
    }
    pub fn usize_below(&mut self, n: usize) -> usize {
        self.below(n as u64) as usize
    }
    /// uniform in lo..=hi
    pub fn range_i64(&mut self, lo: i64, hi: i64) -> i64 {
        debug_assert!(lo <= hi);
        let span = (hi as i128 - lo as i128 + 1) as u128;
        let r = ((self.next_u64() as u128 * span) >> 64) as i128;
        (lo as i128 + r) as i64
    }
    pub fn bool(&mut self) -> bool {
        self.next_u64() & 1 == 1
    }
    /// true with probability num/den
    pub fn chance(&mut self, num: u64, den: u64) -> bool {
        self.below(den) < num
    }
    pub fn pick<'a, T>(&mut self, xs: &'a [T]) -> &'a T {
        &xs[self.usize_below(xs.len())]
    }
    /// uniform in [0,1)
    pub fn unit_f64(&mut self) -> f64 {
        (self.next_u64() >> 11) as f64 / (1u64 << 53) as f64
    }
    pub fn f64_in(&mut self, lo: f64, hi: f64) -> f64 {
        lo + (hi - lo) * self.unit_f64()
    }
    /// non-zero integer in -m..=m
    pub fn nonzero_i64(&mut self, m: i64) -> i64 {
        loop {
            let v = self.range_i64(-m, m);
            if v != 0 {
                return v;
            }
        }
    }
    pub fn shuffle<T>(&mut self, xs: &mut [T]) {
        for i in (1..xs.len()).rev() {
            let j = self.usize_below(i + 1);
            xs.swap(i, j);
        }
    }
}

/// Incremental 64-bit hasher for canonical-input hashes (distinctness counting).
#[derive(Clone, Copy)]
pub struct H64(pub u64);
impl H64 {
    pub fn new() -> Self {
        H64(0x1234_5678_9ABC_DEF1)
    }
    pub fn u(&mut self, x: u64) -> &mut Self {
        self.0 = mix2(self.0, x);
        self
    }
    pub fn i(&mut self, x: i128) -> &mut Self {
        self.u(x as u64).u((x >> 64) as u64)
    }
    pub fn s(&mut self, x: &str) -> &mut Self {
        self.u(hash_str(x))
    }
    pub fn f(&mut self, x: f64) -> &mut Self {
        self.u(x.to_bits())
    }
    pub fn get(&self) -> u64 {
        self.0
    }
}
impl Default for H64 {
    fn default() -> Self {
        Self::new()
    }
}

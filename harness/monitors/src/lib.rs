//! Monitor element types and verdict plumbing for the vek runtime-monitoring harness.
//! See /verif/DESIGN.md.

pub mod prng;
pub mod report;
#[macro_use]
pub mod scalar;
pub mod bf;
pub mod fp;
pub mod q;
pub mod sym;
pub mod tag;
pub mod gen;

pub use bf::Bf;
pub use fp::Fp;
pub use prng::{Rng, H64};
pub use q::Q;
pub use report::{guarded, poison, poisoned, run_cases, take_poison, Config, Json, Report, Sub, Violation};
pub use scalar::Mon;
pub use sym::Sym;
pub use tag::{Own, Tag};

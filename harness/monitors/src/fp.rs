//! `Fp`: the prime field GF(2^61 - 1) as a vek element type.
//!
//! Running vek's generic code on random points of a large prime field decides polynomial and
//! rational-function identities of *arbitrary depth* without overflow (Schwartz–Zippel: a
//! non-zero polynomial of degree d vanishes at a random point with probability <= d/p,
//! p ~ 2.3e18).  `Fp` has no order: any comparison poisons the case (branching code is run on
//! `Q` instead).  sqrt/sin/cos are looked up in per-case registries filled by the generator.

use crate::report::poison;
use crate::scalar::Mon;
use std::cell::RefCell;
use std::cmp::Ordering;
use std::fmt;

pub const P: u64 = (1u64 << 61) - 1;

#[derive(Clone, Copy)]
pub struct Fp(pub u64);

#[inline]
fn reduce(x: u128) -> u64 {
    // x < 2^122
    let lo = (x as u64) & P;
    let hi = (x >> 61) as u64;
    let mut s = lo + hi; // < 2^62
    s = (s & P) + (s >> 61);
    if s >= P {
        s -= P;
    }
    s
}

impl Fp {
    pub const ZERO: Fp = Fp(0);
    pub const ONE: Fp = Fp(1);
    pub fn new(x: u64) -> Fp {
        Fp(x % P)
    }
    pub fn from_i64(i: i64) -> Fp {
        if i >= 0 {
            Fp((i as u64) % P)
        } else {
            let m = (i.unsigned_abs()) % P;
            Fp(if m == 0 { 0 } else { P - m })
        }
    }
    pub fn from_i128(i: i128) -> Fp {
        let m = (i.unsigned_abs() % P as u128) as u64;
        if i >= 0 || m == 0 {
            Fp(m)
        } else {
            Fp(P - m)
        }
    }
    pub fn add(self, o: Fp) -> Fp {
        let mut s = self.0 + o.0;
        if s >= P {
            s -= P;
        }
        Fp(s)
    }
    pub fn sub(self, o: Fp) -> Fp {
        Fp(if self.0 >= o.0 { self.0 - o.0 } else { self.0 + P - o.0 })
    }
    pub fn mul(self, o: Fp) -> Fp {
        Fp(reduce(self.0 as u128 * o.0 as u128))
    }
    pub fn neg(self) -> Fp {
        Fp(if self.0 == 0 { 0 } else { P - self.0 })
    }
    pub fn pow(self, mut e: u64) -> Fp {
        let mut b = self;
        let mut r = Fp::ONE;
        while e > 0 {
            if e & 1 == 1 {
                r = r.mul(b);
            }
            b = b.mul(b);
            e >>= 1;
        }
        r
    }
    pub fn inv(self) -> Option<Fp> {
        if self.0 == 0 {
            None
        } else {
            Some(self.pow(P - 2))
        }
    }
    pub fn div(self, o: Fp) -> Option<Fp> {
        o.inv().map(|i| self.mul(i))
    }
    pub fn random(rng: &mut crate::prng::Rng) -> Fp {
        Fp(rng.below(P))
    }
    pub fn random_nonzero(rng: &mut crate::prng::Rng) -> Fp {
        Fp(1 + rng.below(P - 1))
    }
}

impl fmt::Debug for Fp {
    fn fmt(&self, f: &mut fmt::Formatter) -> fmt::Result {
        write!(f, "{}p", self.0)
    }
}
impl fmt::Display for Fp {
    fn fmt(&self, f: &mut fmt::Formatter) -> fmt::Result {
        write!(f, "{}p", self.0)
    }
}

thread_local! {
    static FP_ANGLES: RefCell<Vec<(Fp, Fp, Fp)>> = const { RefCell::new(Vec::new()) };
    static FP_ROOTS: RefCell<Vec<(Fp, Fp)>> = const { RefCell::new(Vec::new()) };
}

pub fn fp_clear() {
    FP_ANGLES.with(|a| a.borrow_mut().clear());
    FP_ROOTS.with(|a| a.borrow_mut().clear());
}
/// declare `root` to be the square root the code under test gets for `root*root`
pub fn fp_register_root(root: Fp) {
    let sq = root.mul(root);
    FP_ROOTS.with(|r| {
        let mut r = r.borrow_mut();
        if let Some(e) = r.iter().find(|e| e.0 == sq) {
            if e.1 != root {
                poison("fp_root_collision");
            }
            return;
        }
        r.push((sq, root));
    });
}
pub fn fp_register_angle(token: Fp, c: Fp, s: Fp) {
    FP_ANGLES.with(|a| {
        let mut a = a.borrow_mut();
        if let Some(e) = a.iter().find(|e| e.0 == token) {
            if !(e.1 == c && e.2 == s) {
                poison("fp_angle_collision");
            }
            return;
        }
        a.push((token, c, s));
    });
}

#[derive(Clone, Copy, Debug)]
pub struct FpAngle {
    pub token: Fp,
    pub c: Fp,
    pub s: Fp,
    pub c_half: Fp,
    pub s_half: Fp,
}

/// A random "angle": a point on the unit circle of GF(p) obtained from the rational
/// parametrisation by u = "tan(theta/4)", registered under a fresh random token (and the half
/// angle under token/2).
pub fn fp_random_angle(rng: &mut crate::prng::Rng) -> FpAngle {
    loop {
        let u = Fp::random(rng);
        let den = Fp::ONE.add(u.mul(u));
        let Some(di) = den.inv() else { continue };
        let c2 = Fp::ONE.sub(u.mul(u)).mul(di);
        let s2 = u.add(u).mul(di);
        let c = c2.mul(c2).sub(s2.mul(s2));
        let s = s2.mul(c2).mul(Fp(2));
        let token = Fp::random(rng);
        let half = token.mul(Fp(2).inv().unwrap());
        fp_register_angle(token, c, s);
        fp_register_angle(half, c2, s2);
        return FpAngle { token, c, s, c_half: c2, s_half: s2 };
    }
}
pub fn fp_angle_sum(a: &FpAngle, b: &FpAngle) -> FpAngle {
    let c = a.c.mul(b.c).sub(a.s.mul(b.s));
    let s = a.s.mul(b.c).add(a.c.mul(b.s));
    let c2 = a.c_half.mul(b.c_half).sub(a.s_half.mul(b.s_half));
    let s2 = a.s_half.mul(b.c_half).add(a.c_half.mul(b.s_half));
    let token = a.token.add(b.token);
    fp_register_angle(token, c, s);
    fp_register_angle(token.mul(Fp(2).inv().unwrap()), c2, s2);
    FpAngle { token, c, s, c_half: c2, s_half: s2 }
}

impl Mon for Fp {
    const NAME: &'static str = "Fp";
    fn m_int(i: i64) -> Fp {
        Fp::from_i64(i)
    }
    fn m_add(self, o: Fp) -> Fp {
        self.add(o)
    }
    fn m_sub(self, o: Fp) -> Fp {
        self.sub(o)
    }
    fn m_mul(self, o: Fp) -> Fp {
        self.mul(o)
    }
    fn m_div(self, o: Fp) -> Fp {
        match self.div(o) {
            Some(v) => v,
            None => {
                poison("div_by_zero");
                Fp::ZERO
            }
        }
    }
    fn m_rem(self, _o: Fp) -> Fp {
        poison("fp_rem");
        Fp::ZERO
    }
    fn m_neg(self) -> Fp {
        self.neg()
    }
    fn m_eq(self, o: Fp) -> bool {
        self.0 == o.0
    }
    fn m_cmp(self, o: Fp) -> Option<Ordering> {
        poison("fp_compare");
        Some(self.0.cmp(&o.0))
    }
    fn m_sqrt(self) -> Fp {
        let r = FP_ROOTS.with(|r| r.borrow().iter().find(|e| e.0 == self).map(|e| e.1));
        match r {
            Some(v) => v,
            None => {
                if self.0 == 0 {
                    return Fp::ZERO;
                }
                if self.0 == 1 {
                    return Fp::ONE;
                }
                poison("unregistered_sqrt");
                Fp::ONE
            }
        }
    }
    fn m_sin(self) -> Fp {
        match FP_ANGLES.with(|a| a.borrow().iter().find(|e| e.0 == self).map(|e| e.2)) {
            Some(v) => v,
            None => {
                poison("unregistered_angle");
                Fp::ZERO
            }
        }
    }
    fn m_cos(self) -> Fp {
        match FP_ANGLES.with(|a| a.borrow().iter().find(|e| e.0 == self).map(|e| e.1)) {
            Some(v) => v,
            None => {
                poison("unregistered_angle");
                Fp::ONE
            }
        }
    }
    fn m_abs(self) -> Fp {
        poison("fp_abs");
        self
    }
    fn m_floor(self) -> Fp {
        poison("fp_floor");
        self
    }
    fn m_round(self) -> Fp {
        poison("fp_round");
        self
    }
    fn m_unsupported(self, what: &'static str) -> Fp {
        poison(what);
        Fp::ZERO
    }
    fn m_epsilon() -> Fp {
        poison("fp_epsilon");
        Fp::ZERO
    }
    fn m_pi() -> Fp {
        poison("fp_pi");
        Fp::ZERO
    }
    fn m_to_f64(self) -> Option<f64> {
        None
    }
}

crate::impl_scalar_traits!(Fp);
impl Eq for Fp {}

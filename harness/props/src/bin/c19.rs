//! C19 — vector kind/size conversions, swizzles, shuffles and colour helpers keep elements.
//!
//! Data-movement sub-checks instantiate vek with `Tag` (opaque identity tokens; `Zero::zero()`,
//! `One::one()` and `ColorComponent::full()` are reserved ids) and read the result through the raw
//! public fields: output position -> input id or fill id, against tables written from the
//! property statement (equal size: order kept; shrink: trailing dropped; grow: zero / supplied
//! scalar / w=1 point / w=0 direction; Rgb->Rgba opaque; named swizzles spell their permutation;
//! shuffles pick (lo[a], lo[b], hi[c], hi[d]) with indices mod 4; lane diagrams from the docs).
//! Colour helpers run on every native `ColorComponent` type against literal / i128 references.
//! The commutation law embed(M)·embed(v) = embed(M·v) is decided on `Sym` traces by polynomial
//! identity testing and on exact rationals.

use monitors::fp::Fp;
use monitors::gen::biased_q;
use monitors::prng::{Rng, H64};
use monitors::report::{guarded, run_cases, take_poison, Config, Report, Sub};
use monitors::sym::{sym_reset, Sym};
use monitors::tag::{Tag, TAG_FULL, TAG_ONE, TAG_ZERO};
use monitors::Q;
use props::*;
use std::collections::HashSet;
use std::fmt::Debug;
use std::num::Wrapping;
use vek::ops::ColorComponent;
use vek::vec::repr_c::{Extent2, Extent3, Rgb, Rgba, Uv, Uvw, Vec2, Vec3, Vec4};
use vek::vec::ShuffleMask4;

const PROP: &str = "C19";

// ------------------------------------------------------------------ case context

struct Cx<'a> {
    sub: &'a mut Sub,
    cfg: &'a Config,
    idx: u64,
    rng: Rng,
    used: HashSet<u32>,
    /// cases come from a complete enumeration without repetition
    enumerated: bool,
}

impl<'a> Cx<'a> {
    fn new(sub: &'a mut Sub, cfg: &'a Config, idx: u64, stream: &str, enumerated: bool) -> Cx<'a> {
        let rng = Rng::for_case(stream, cfg.case_seed(), idx);
        Cx { sub, cfg, idx, rng, used: HashSet::new(), enumerated }
    }
    /// a fresh tag id, distinct from every id handed out since the last decision and from the
    /// reserved fill ids
    fn id(&mut self) -> u32 {
        loop {
            let v = 1 + self.rng.below(0xFFFE_0000) as u32;
            if self.used.insert(v) {
                return v;
            }
        }
    }
    /// a vector of fresh distinct tags, written through the raw fields
    fn fresh<V: VecX<Tag>>(&mut self) -> (V, Vec<u32>) {
        let ids: Vec<u32> = (0..V::DIM).map(|_| self.id()).collect();
        (V::from_fn(|i| Tag(ids[i])), ids)
    }
    /// Decide one executed case: `got` (what vek returned, read through raw fields) must equal
    /// `exp` element by element.
    #[allow(clippy::too_many_arguments)]
    fn decide<E: PartialEq + Debug>(&mut self, api: &str, ty: &str, what: &str, label: &str, inputs: String, hash: u64, nontrivial: bool, got: Result<Vec<E>, String>, exp: &[E]) -> bool {
        self.used.clear();
        self.sub.saw(api);
        let got = match got {
            Ok(g) => g,
            Err(e) => {
                let _ = take_poison();
                let v = violation(PROP, self.sub, api, ty, "panic", what, format!("{} [{}]: inputs {}: panicked: {}; expected {:?}", label, ty, inputs, e, exp), self.cfg.case_seed(), self.idx);
                self.sub.violated(v);
                return false;
            }
        };
        if let Some(p) = take_poison() {
            self.sub.inconclusive(&format!("poison:{}", p));
            return false;
        }
        if got.len() != exp.len() || got.iter().zip(exp.iter()).any(|(g, e)| !(g == e)) {
            let v = violation(PROP, self.sub, api, ty, "wrong_value", what, format!("{} [{}]: inputs {}: vek returned {:?}, expected {:?}", label, ty, inputs, got, exp), self.cfg.case_seed(), self.idx);
            self.sub.violated(v);
            return false;
        }
        self.sub.sample(|| format!("{} [{}]: {} -> {:?}", label, ty, inputs, got));
        if self.enumerated {
            self.sub.held_enumerated(nontrivial);
        } else {
            self.sub.held(hash, nontrivial);
        }
        true
    }
    /// Tag case: run `f` (a call into vek) guarded, read the raw fields, compare ids.
    fn run<V: VecX<Tag>>(&mut self, api: &str, what: &str, label: &str, inputs: &[u32], exp: &[u32], f: impl FnOnce() -> V) -> bool {
        let got = guarded(|| VecX::to_vec(&f()));
        let mut h = H64::new();
        h.s(label);
        for i in inputs {
            h.u(*i as u64);
        }
        let e: Vec<Tag> = exp.iter().map(|i| Tag(*i)).collect();
        self.decide(api, "Tag", what, label, format!("{:?}", tags(inputs)), h.get(), true, got, &e)
    }
}

fn tags(ids: &[u32]) -> Vec<Tag> {
    ids.iter().map(|i| Tag(*i)).collect()
}

/// expected ids of a named swizzle: the name spells the permutation
fn swz(name: &str, letters: &str, s: &[u32]) -> Vec<u32> {
    name.chars().map(|ch| s[letters.find(ch).expect("swizzle letter")]).collect()
}

// ------------------------------------------------------------------ conversions (Tag)

const NOFILL: u32 = 0;

macro_rules! conv {
    ($c:expr, $Src:ident => $Dst:ident, $what:expr, $fill:expr) => {{
        let (v, s): ($Src<Tag>, Vec<u32>) = $c.fresh();
        let n = <$Dst<Tag> as VecX<Tag>>::DIM;
        let exp: Vec<u32> = (0..n).map(|i| if i < s.len() { s[i] } else { $fill }).collect();
        $c.run(concat!(stringify!($Dst), "::from(", stringify!($Src), ")"), $what, concat!(stringify!($Src), "->", stringify!($Dst)), &s, &exp, || <$Dst<Tag> as From<$Src<Tag>>>::from(v));
    }};
}
macro_rules! conv_tuple {
    ($c:expr, $Src:ident => $Dst:ident) => {{
        let (v, mut s): ($Src<Tag>, Vec<u32>) = $c.fresh();
        let t = $c.id();
        s.push(t);
        let exp = s.clone();
        $c.run(concat!(stringify!($Dst), "::from((", stringify!($Src), ",T))"), "tuple_appends_scalar", concat!("(", stringify!($Src), ",T)->", stringify!($Dst)), &s, &exp, || <$Dst<Tag> as From<($Src<Tag>, Tag)>>::from((v, Tag(t))));
    }};
}

const KEEP: &str = "equal_size_order_kept";
const SHRINK: &str = "shrink_drops_trailing";
const GROW: &str = "grow_appends_zero";

fn conv_table(c: &mut Cx) {
    // equal size: order kept (every From impl between kinds that exists in vec.rs)
    conv!(c, Extent2 => Vec2, KEEP, NOFILL);
    conv!(c, Vec2 => Extent2, KEEP, NOFILL);
    conv!(c, Vec2 => Uv, KEEP, NOFILL);
    conv!(c, Extent3 => Vec3, KEEP, NOFILL);
    conv!(c, Rgb => Vec3, KEEP, NOFILL);
    conv!(c, Uvw => Vec3, KEEP, NOFILL);
    conv!(c, Vec3 => Extent3, KEEP, NOFILL);
    conv!(c, Vec3 => Rgb, KEEP, NOFILL);
    conv!(c, Vec3 => Uvw, KEEP, NOFILL);
    conv!(c, Rgba => Vec4, KEEP, NOFILL);
    conv!(c, Vec4 => Rgba, KEEP, NOFILL);
    // shrink: trailing dropped
    conv!(c, Vec3 => Vec2, SHRINK, NOFILL);
    conv!(c, Vec4 => Vec2, SHRINK, NOFILL);
    conv!(c, Vec4 => Vec3, SHRINK, NOFILL);
    conv!(c, Rgba => Rgb, SHRINK, NOFILL);
    // grow: zeros appended
    conv!(c, Vec2 => Vec3, GROW, TAG_ZERO);
    conv!(c, Vec2 => Vec4, GROW, TAG_ZERO);
    conv!(c, Vec3 => Vec4, GROW, TAG_ZERO);
    // Rgb -> Rgba is opaque
    conv!(c, Rgb => Rgba, "rgb_to_rgba_alpha_full", TAG_FULL);
    // (smaller, scalar)
    conv_tuple!(c, Vec2 => Vec3);
    conv_tuple!(c, Vec3 => Vec4);
    conv_tuple!(c, Extent2 => Extent3);
    conv_tuple!(c, Rgb => Rgba);
    conv_tuple!(c, Uv => Uvw);

    // colour constructors
    {
        let (r, g, b) = (c.id(), c.id(), c.id());
        c.run("Rgba::new_opaque", "alpha_full", "Rgba::new_opaque", &[r, g, b], &[r, g, b, TAG_FULL], || Rgba::new_opaque(Tag(r), Tag(g), Tag(b)));
        let (r, g, b) = (c.id(), c.id(), c.id());
        c.run("Rgba::new_transparent", "alpha_zero", "Rgba::new_transparent", &[r, g, b], &[r, g, b, TAG_ZERO], || Rgba::new_transparent(Tag(r), Tag(g), Tag(b)));
    }
    macro_rules! from_rgbish {
        ($Src:ident) => {{
            let (v, s): ($Src<Tag>, Vec<u32>) = c.fresh();
            c.run("Rgba::from_opaque", "alpha_full", concat!("Rgba::from_opaque(", stringify!($Src), ")"), &s, &[s[0], s[1], s[2], TAG_FULL], || Rgba::<Tag>::from_opaque(v));
            let (v, s): ($Src<Tag>, Vec<u32>) = c.fresh();
            c.run("Rgba::from_transparent", "alpha_zero", concat!("Rgba::from_transparent(", stringify!($Src), ")"), &s, &[s[0], s[1], s[2], TAG_ZERO], || Rgba::<Tag>::from_transparent(v));
            let (v, mut s): ($Src<Tag>, Vec<u32>) = c.fresh();
            let a = c.id();
            let e = [s[0], s[1], s[2], a];
            s.push(a);
            c.run("Rgba::from_translucent", "alpha_supplied", concat!("Rgba::from_translucent(", stringify!($Src), ",T)"), &s, &e, || Rgba::<Tag>::from_translucent(v, Tag(a)));
        }};
    }
    from_rgbish!(Rgb);
    from_rgbish!(Vec3);
    from_rgbish!(Rgba);
}

// ------------------------------------------------------------------ swizzles, with_*, reorderings (Tag)

fn swizzle_table(c: &mut Cx) {
    const P: &str = "swizzle_named_permutation";
    macro_rules! sw {
        ($V:ident :: $f:ident, $letters:expr) => {{
            let (v, s): ($V<Tag>, Vec<u32>) = c.fresh();
            let exp = swz(stringify!($f), $letters, &s);
            c.run(concat!(stringify!($V), "::", stringify!($f)), P, concat!(stringify!($V), "::", stringify!($f)), &s, &exp, || v.$f());
        }};
    }
    sw!(Vec2::yx, "xy");
    sw!(Vec3::zyx, "xyz");
    sw!(Vec3::xy, "xyz");
    sw!(Vec4::wxyz, "xyzw");
    sw!(Vec4::wzyx, "xyzw");
    sw!(Vec4::zyxw, "xyzw");
    sw!(Vec4::xyz, "xyzw");
    sw!(Vec4::xy, "xyzw");
    sw!(Rgba::rgb, "rgba");
    // colour reorderings: shuffled_<order> maps RGBA to that order
    macro_rules! reorder {
        ($V:ident :: $f:ident, $order:expr, $letters:expr) => {{
            let (v, s): ($V<Tag>, Vec<u32>) = c.fresh();
            let exp = swz($order, $letters, &s);
            c.run(concat!(stringify!($V), "::", stringify!($f)), "colour_reordering", concat!(stringify!($V), "::", stringify!($f)), &s, &exp, || v.$f());
        }};
    }
    reorder!(Rgba::shuffled_argb, "argb", "rgba");
    reorder!(Rgba::shuffled_bgra, "bgra", "rgba");
    reorder!(Rgb::shuffled_bgr, "bgr", "rgb");
    // with_*: replaces exactly the named element
    macro_rules! with {
        ($V:ident :: $f:ident, $pos:expr) => {{
            let (v, mut s): ($V<Tag>, Vec<u32>) = c.fresh();
            let t = c.id();
            let mut exp = s.clone();
            exp[$pos] = t;
            s.push(t);
            c.run(concat!(stringify!($V), "::", stringify!($f)), "with_replaces_named_element", concat!(stringify!($V), "::", stringify!($f)), &s, &exp, || v.$f(Tag(t)));
        }};
    }
    with!(Vec2::with_x, 0);
    with!(Vec2::with_y, 1);
    with!(Vec3::with_x, 0);
    with!(Vec3::with_y, 1);
    with!(Vec3::with_z, 2);
    with!(Vec4::with_x, 0);
    with!(Vec4::with_y, 1);
    with!(Vec4::with_z, 2);
    with!(Vec4::with_w, 3);
    // growing setters
    {
        let (v, mut s): (Vec2<Tag>, Vec<u32>) = c.fresh();
        let t = c.id();
        let e = [s[0], s[1], t];
        s.push(t);
        c.run("Vec2::with_z", "with_grows_by_named_element", "Vec2::with_z", &s, &e, || v.with_z(Tag(t)));
        let (v, mut s): (Vec2<Tag>, Vec<u32>) = c.fresh();
        let t = c.id();
        let e = [s[0], s[1], TAG_ZERO, t];
        s.push(t);
        c.run("Vec2::with_w", "with_grows_by_named_element", "Vec2::with_w", &s, &e, || v.with_w(Tag(t)));
        let (v, mut s): (Vec3<Tag>, Vec<u32>) = c.fresh();
        let t = c.id();
        let e = [s[0], s[1], s[2], t];
        s.push(t);
        c.run("Vec3::with_w", "with_grows_by_named_element", "Vec3::with_w", &s, &e, || v.with_w(Tag(t)));
    }
}

// ------------------------------------------------------------------ homogeneous constructors and unit vectors (Tag)

fn homogeneous_table(c: &mut Cx) {
    const PT: &str = "point_w_one";
    const DIR: &str = "direction_w_zero";
    let (x, y) = (c.id(), c.id());
    c.run("Vec3::new_point_2d", PT, "Vec3::new_point_2d", &[x, y], &[x, y, TAG_ONE], || Vec3::new_point_2d(Tag(x), Tag(y)));
    let (x, y) = (c.id(), c.id());
    c.run("Vec3::new_direction_2d", DIR, "Vec3::new_direction_2d", &[x, y], &[x, y, TAG_ZERO], || Vec3::new_direction_2d(Tag(x), Tag(y)));
    let (x, y, z) = (c.id(), c.id(), c.id());
    c.run("Vec4::new_point", PT, "Vec4::new_point", &[x, y, z], &[x, y, z, TAG_ONE], || Vec4::new_point(Tag(x), Tag(y), Tag(z)));
    let (x, y, z) = (c.id(), c.id(), c.id());
    c.run("Vec4::new_direction", DIR, "Vec4::new_direction", &[x, y, z], &[x, y, z, TAG_ZERO], || Vec4::new_direction(Tag(x), Tag(y), Tag(z)));
    // from_*: the argument is first turned into the smaller spatial vector (drop trailing / append
    // zero / keep order), then w (or z in 2D) is set
    macro_rules! from2 {
        ($Src:ident) => {{
            let (v, s): ($Src<Tag>, Vec<u32>) = c.fresh();
            c.run("Vec3::from_point_2d", PT, concat!("Vec3::from_point_2d(", stringify!($Src), ")"), &s, &[s[0], s[1], TAG_ONE], || Vec3::<Tag>::from_point_2d(v));
            let (v, s): ($Src<Tag>, Vec<u32>) = c.fresh();
            c.run("Vec3::from_direction_2d", DIR, concat!("Vec3::from_direction_2d(", stringify!($Src), ")"), &s, &[s[0], s[1], TAG_ZERO], || Vec3::<Tag>::from_direction_2d(v));
        }};
    }
    from2!(Vec2);
    from2!(Vec3);
    from2!(Vec4);
    from2!(Extent2);
    macro_rules! from3 {
        ($Src:ident) => {{
            let (v, s): ($Src<Tag>, Vec<u32>) = c.fresh();
            let z = if s.len() > 2 { s[2] } else { TAG_ZERO };
            c.run("Vec4::from_point", PT, concat!("Vec4::from_point(", stringify!($Src), ")"), &s, &[s[0], s[1], z, TAG_ONE], || Vec4::<Tag>::from_point(v));
            let (v, s): ($Src<Tag>, Vec<u32>) = c.fresh();
            let z = if s.len() > 2 { s[2] } else { TAG_ZERO };
            c.run("Vec4::from_direction", DIR, concat!("Vec4::from_direction(", stringify!($Src), ")"), &s, &[s[0], s[1], z, TAG_ZERO], || Vec4::<Tag>::from_direction(v));
        }};
    }
    from3!(Vec3);
    from3!(Vec2);
    from3!(Vec4);
    from3!(Extent3);
    from3!(Rgb);
    from3!(Uvw);
    // unit vectors on Tag: ONE at the named axis, ZERO elsewhere (w = ONE for the point forms)
    macro_rules! unit {
        ($V:ident :: $f:ident, [$($e:expr),+]) => {{
            c.run(concat!(stringify!($V), "::", stringify!($f)), "unit_vector_fill", concat!(stringify!($V), "::", stringify!($f)), &[], &[$($e),+], || $V::<Tag>::$f());
        }};
    }
    const O: u32 = TAG_ONE;
    const Z: u32 = TAG_ZERO;
    unit!(Vec2::unit_x, [O, Z]);
    unit!(Vec2::unit_y, [Z, O]);
    unit!(Vec3::unit_x, [O, Z, Z]);
    unit!(Vec3::unit_y, [Z, O, Z]);
    unit!(Vec3::unit_z, [Z, Z, O]);
    unit!(Vec4::unit_x, [O, Z, Z, Z]);
    unit!(Vec4::unit_y, [Z, O, Z, Z]);
    unit!(Vec4::unit_z, [Z, Z, O, Z]);
    unit!(Vec4::unit_w, [Z, Z, Z, O]);
    unit!(Vec4::unit_x_point, [O, Z, Z, O]);
    unit!(Vec4::unit_y_point, [Z, O, Z, O]);
    unit!(Vec4::unit_z_point, [Z, Z, O, O]);
}

// ------------------------------------------------------------------ unit vectors and deprecated direction names (values)

trait Lit: num_traits::Zero + num_traits::One + std::ops::Neg<Output = Self> + Copy + PartialEq + Debug {
    fn lit(i: i32) -> Self;
}
impl Lit for i32 {
    fn lit(i: i32) -> i32 {
        i
    }
}
impl Lit for f64 {
    fn lit(i: i32) -> f64 {
        i as f64
    }
}
impl Lit for Q {
    fn lit(i: i32) -> Q {
        Q::int(i as i64)
    }
}

#[allow(deprecated)]
fn unit_literals<T: Lit>(c: &mut Cx, ty: &str) {
    macro_rules! u {
        ($V:ident :: $f:ident, [$($k:expr),+]) => {{
            let label = concat!(stringify!($V), "::", stringify!($f));
            let got = guarded(|| VecX::to_vec(&$V::<T>::$f()));
            let exp = [$(T::lit($k)),+];
            let mut h = H64::new();
            h.s(label).s(ty);
            c.decide(label, ty, "unit_vector_literal", label, "()".to_string(), h.get(), true, got, &exp);
        }};
    }
    u!(Vec2::unit_x, [1, 0]);
    u!(Vec2::unit_y, [0, 1]);
    u!(Vec2::left, [-1, 0]);
    u!(Vec2::right, [1, 0]);
    u!(Vec2::up, [0, 1]);
    u!(Vec2::down, [0, -1]);
    u!(Vec3::unit_x, [1, 0, 0]);
    u!(Vec3::unit_y, [0, 1, 0]);
    u!(Vec3::unit_z, [0, 0, 1]);
    u!(Vec3::left, [-1, 0, 0]);
    u!(Vec3::right, [1, 0, 0]);
    u!(Vec3::up, [0, 1, 0]);
    u!(Vec3::down, [0, -1, 0]);
    u!(Vec3::forward_lh, [0, 0, 1]);
    u!(Vec3::forward_rh, [0, 0, -1]);
    u!(Vec3::back_lh, [0, 0, -1]);
    u!(Vec3::back_rh, [0, 0, 1]);
    u!(Vec4::unit_x, [1, 0, 0, 0]);
    u!(Vec4::unit_y, [0, 1, 0, 0]);
    u!(Vec4::unit_z, [0, 0, 1, 0]);
    u!(Vec4::unit_w, [0, 0, 0, 1]);
    u!(Vec4::left, [-1, 0, 0, 0]);
    u!(Vec4::right, [1, 0, 0, 0]);
    u!(Vec4::up, [0, 1, 0, 0]);
    u!(Vec4::down, [0, -1, 0, 0]);
    u!(Vec4::forward_lh, [0, 0, 1, 0]);
    u!(Vec4::forward_rh, [0, 0, -1, 0]);
    u!(Vec4::back_lh, [0, 0, -1, 0]);
    u!(Vec4::back_rh, [0, 0, 1, 0]);
    u!(Vec4::unit_x_point, [1, 0, 0, 1]);
    u!(Vec4::unit_y_point, [0, 1, 0, 1]);
    u!(Vec4::unit_z_point, [0, 0, 1, 1]);
    u!(Vec4::left_point, [-1, 0, 0, 1]);
    u!(Vec4::right_point, [1, 0, 0, 1]);
    u!(Vec4::up_point, [0, 1, 0, 1]);
    u!(Vec4::down_point, [0, -1, 0, 1]);
    u!(Vec4::forward_point_lh, [0, 0, 1, 1]);
    u!(Vec4::forward_point_rh, [0, 0, -1, 1]);
    u!(Vec4::back_point_lh, [0, 0, -1, 1]);
    u!(Vec4::back_point_rh, [0, 0, 1, 1]);
}

// ------------------------------------------------------------------ ShuffleMask4

type M4 = (usize, usize, usize, usize);

fn mask_hash(label: &str, m: M4) -> u64 {
    let mut h = H64::new();
    h.s(label).u(m.0 as u64).u(m.1 as u64).u(m.2 as u64).u(m.3 as u64);
    h.get()
}

/// index tuple with at least one element outside 0..=3
fn out_of_range_tuple(rng: &mut Rng) -> M4 {
    fn one(rng: &mut Rng) -> usize {
        match rng.below(8) {
            0 => rng.below(4) as usize,
            1 | 2 => rng.below(10) as usize,
            3 => 4 + rng.below(1000) as usize,
            4 => usize::MAX - rng.below(9) as usize,
            5 => (1usize << (2 + rng.below(62))).wrapping_add(rng.below(4) as usize),
            6 => (rng.next_u64() as usize) | 4,
            _ => rng.next_u64() as usize,
        }
    }
    loop {
        let m = (one(rng), one(rng), one(rng), one(rng));
        if m.0 > 3 || m.1 > 3 || m.2 > 3 || m.3 > 3 {
            return m;
        }
    }
}

fn mask_case(c: &mut Cx, m: M4) {
    let in_range = m.0 < 4 && m.1 < 4 && m.2 < 4 && m.3 < 4;
    let what = if in_range { "in_range_indices_roundtrip" } else { "indices_taken_mod_4" };
    let exp = [m.0 % 4, m.1 % 4, m.2 % 4, m.3 % 4];
    let inputs = format!("{:?}", m);
    let flat = |t: M4| vec![t.0, t.1, t.2, t.3];
    let got = guarded(|| flat(ShuffleMask4::new(m.0, m.1, m.2, m.3).to_indices()));
    c.sub.saw("ShuffleMask4::to_indices");
    c.decide("ShuffleMask4::new", "usize", what, "ShuffleMask4::new(a,b,c,d).to_indices()", inputs.clone(), mask_hash("new", m), true, got, &exp);
    let got = guarded(|| flat(ShuffleMask4::from(m).to_indices()));
    c.decide("ShuffleMask4::from(tuple)", "usize", what, "ShuffleMask4::from((a,b,c,d)).to_indices()", inputs.clone(), mask_hash("from_tuple", m), true, got, &exp);
    let got = guarded(|| flat(ShuffleMask4::from([m.0, m.1, m.2, m.3]).to_indices()));
    c.decide("ShuffleMask4::from([usize;4])", "usize", what, "ShuffleMask4::from([a,b,c,d]).to_indices()", inputs.clone(), mask_hash("from_array", m), true, got, &exp);
    // broadcast form: the first index of the tuple, used for all four lanes
    let k = m.0;
    if c.enumerated && !(m.1 == k && m.2 == k && m.3 == k) {
        return;
    }
    let got = guarded(|| flat(ShuffleMask4::from(k).to_indices()));
    let what_k = if k < 4 { "in_range_indices_roundtrip" } else { "indices_taken_mod_4" };
    c.decide("ShuffleMask4::from(usize)", "usize", what_k, "ShuffleMask4::from(k).to_indices()", format!("{}", k), mask_hash("from_usize", (k, k, k, k)), true, got, &[k % 4; 4]);
}

// ------------------------------------------------------------------ 4-lane shuffles on Vec4 and Rgba (Tag)

macro_rules! shuffle_fns {
    ($V:ident, $by_mask:ident, $diagrams:ident) => {
        fn $by_mask(c: &mut Cx, m: M4) {
            let in_range = m.0 < 4 && m.1 < 4 && m.2 < 4 && m.3 < 4;
            let what = if in_range { "lanes_lo_a_lo_b_hi_c_hi_d" } else { "lane_indices_mod_4" };
            let n = stringify!($V);
            let (lo, l): ($V<Tag>, Vec<u32>) = c.fresh();
            let (hi, h): ($V<Tag>, Vec<u32>) = c.fresh();
            let inputs: Vec<u32> = l.iter().chain(h.iter()).copied().collect();
            let e = [l[m.0 % 4], l[m.1 % 4], h[m.2 % 4], h[m.3 % 4]];
            let api = format!("{}::shuffle_lo_hi", n);
            c.run(&api, what, &format!("{}::shuffle_lo_hi(lo,hi,tuple {:?})", n, m), &inputs, &e, || $V::shuffle_lo_hi(lo, hi, m));
            c.run(&api, what, &format!("{}::shuffle_lo_hi(lo,hi,array {:?})", n, m), &inputs, &e, || $V::shuffle_lo_hi(lo, hi, [m.0, m.1, m.2, m.3]));
            c.run(&api, what, &format!("{}::shuffle_lo_hi(lo,hi,ShuffleMask4::new{:?})", n, m), &inputs, &e, || $V::shuffle_lo_hi(lo, hi, ShuffleMask4::new(m.0, m.1, m.2, m.3)));
            let e = [l[m.0 % 4], l[m.1 % 4], l[m.2 % 4], l[m.3 % 4]];
            c.run(&format!("{}::shuffled", n), what, &format!("{}::shuffled(tuple {:?})", n, m), &l, &e, || lo.shuffled(m));
            // broadcast of one lane: shuffled(k) with k = first index of the tuple
            let k = m.0;
            if c.enumerated && !(m.1 == k && m.2 == k && m.3 == k) {
                return;
            }
            let what_k = if k < 4 { "broadcast_lane_k" } else { "lane_indices_mod_4" };
            c.run(&format!("{}::shuffled(usize)", n), what_k, &format!("{}::shuffled({})", n, k), &h, &[h[k % 4]; 4], || hi.shuffled(k));
        }
        fn $diagrams(c: &mut Cx) {
            const D: &str = "lane_diagram";
            let n = stringify!($V);
            // diagrams from the docs with a = lanes 0..3, b = lanes 4..7
            macro_rules! two {
                ($f:ident, $d:expr) => {{
                    let (a, sa): ($V<Tag>, Vec<u32>) = c.fresh();
                    let (b, sb): ($V<Tag>, Vec<u32>) = c.fresh();
                    let inputs: Vec<u32> = sa.iter().chain(sb.iter()).copied().collect();
                    let d: [usize; 4] = $d;
                    let e: Vec<u32> = d.iter().map(|k| inputs[*k]).collect();
                    c.run(&format!("{}::{}", n, stringify!($f)), D, &format!("{}::{}(a,b)", n, stringify!($f)), &inputs, &e, || $V::$f(a, b));
                }};
            }
            macro_rules! one {
                ($f:ident, $d:expr) => {{
                    let (a, sa): ($V<Tag>, Vec<u32>) = c.fresh();
                    let d: [usize; 4] = $d;
                    let e: Vec<u32> = d.iter().map(|k| sa[*k]).collect();
                    c.run(&format!("{}::{}", n, stringify!($f)), D, &format!("{}::{}(v)", n, stringify!($f)), &sa, &e, || a.$f());
                }};
            }
            two!(interleave_0011, [0, 4, 1, 5]);
            two!(interleave_2233, [2, 6, 3, 7]);
            two!(shuffle_lo_hi_0101, [0, 1, 4, 5]);
            two!(shuffle_hi_lo_2323, [6, 7, 2, 3]);
            one!(shuffled_0101, [0, 1, 0, 1]);
            one!(shuffled_2323, [2, 3, 2, 3]);
            one!(shuffled_0022, [0, 0, 2, 2]);
            one!(shuffled_1133, [1, 1, 3, 3]);
        }
    };
}
shuffle_fns!(Vec4, vec4_by_mask, vec4_diagrams);
shuffle_fns!(Rgba, rgba_by_mask, rgba_diagrams);

// ------------------------------------------------------------------ colours on native component types

/// A native `ColorComponent` type with literal expectations written from the trait's doc
/// ("`T::MAX` for integers and `1` for real number types").
trait CC: ColorComponent + Copy + PartialEq + PartialOrd + Default + Debug + num_traits::Zero + num_traits::One + std::ops::Sub<Output = Self> + 'static {
    const NAME: &'static str;
    fn doc_full() -> Self;
    fn doc_zero() -> Self;
    /// `(c, full - c)` for a boundary-biased `c` in the colour domain `0..=full`; the second
    /// component is computed here in wide integer arithmetic, not by the type's own `Sub`
    fn pair(rng: &mut Rng) -> (Self, Self);
    /// an arbitrary value of the type (for alpha, which the helpers must not touch)
    fn any(rng: &mut Rng) -> Self;
    fn bits(self) -> u64;
}

macro_rules! cc_int {
    ($($t:ident),+) => {$(
        impl CC for $t {
            const NAME: &'static str = stringify!($t);
            fn doc_full() -> $t { <$t>::MAX }
            fn doc_zero() -> $t { 0 }
            fn pair(rng: &mut Rng) -> ($t, $t) {
                let max = <$t>::MAX as u128;
                let v: u128 = match rng.below(10) {
                    0 => 0,
                    1 => max,
                    2 => 1,
                    3 => max - 1,
                    4 => max / 2,
                    5 => max / 2 + 1,
                    _ => (rng.next_u64() as u128) % (max + 1),
                };
                (v as $t, (max - v) as $t)
            }
            fn any(rng: &mut Rng) -> $t { rng.next_u64() as $t }
            fn bits(self) -> u64 { self as u64 }
        }
        impl CC for Wrapping<$t> {
            const NAME: &'static str = concat!("Wrapping<", stringify!($t), ">");
            fn doc_full() -> Self { Wrapping(<$t>::MAX) }
            fn doc_zero() -> Self { Wrapping(0) }
            fn pair(rng: &mut Rng) -> (Self, Self) {
                let (a, b) = <$t as CC>::pair(rng);
                (Wrapping(a), Wrapping(b))
            }
            fn any(rng: &mut Rng) -> Self { Wrapping(rng.next_u64() as $t) }
            fn bits(self) -> u64 { self.0 as u64 }
        }
    )+};
}
cc_int!(u8, u16, u32, u64, i8, i16, i32, i64);

macro_rules! cc_float {
    ($t:ident, $maxm:expr) => {
        impl CC for $t {
            const NAME: &'static str = stringify!($t);
            fn doc_full() -> $t { 1.0 }
            fn doc_zero() -> $t { 0.0 }
            // c = k / 2^m with 0 <= k <= 2^m: c and 1 - c = (2^m - k) / 2^m are both exactly
            // representable, so the exact answer is the only correctly rounded one
            fn pair(rng: &mut Rng) -> ($t, $t) {
                let m = 1 + rng.below($maxm);
                let den = 1u64 << m;
                let k = match rng.below(8) {
                    0 => 0,
                    1 => den,
                    2 => 1,
                    3 => den - 1,
                    _ => rng.below(den + 1),
                };
                (k as $t / den as $t, (den - k) as $t / den as $t)
            }
            fn any(rng: &mut Rng) -> $t { rng.range_i64(-1 << 20, 1 << 20) as $t / 16.0 }
            fn bits(self) -> u64 { (self as f64).to_bits() }
        }
    };
}
cc_float!(f32, 20);
cc_float!(f64, 50);

macro_rules! for_all_cc {
    ($m:ident) => {
        $m!(f32); $m!(f64);
        $m!(u8); $m!(u16); $m!(u32); $m!(u64); $m!(i8); $m!(i16); $m!(i32); $m!(i64);
        $m!(Wrapping<u8>); $m!(Wrapping<u16>); $m!(Wrapping<u32>); $m!(Wrapping<u64>);
        $m!(Wrapping<i8>); $m!(Wrapping<i16>); $m!(Wrapping<i32>); $m!(Wrapping<i64>);
    };
}

/// nullary colour API: `full()`, `zero()`, the eight named colours on Rgb and Rgba
fn color_constants<T: CC>(c: &mut Cx) {
    let ty = T::NAME;
    let f = T::doc_full();
    let z = T::doc_zero();
    let hh = |l: &str| {
        let mut h = H64::new();
        h.s(l).s(T::NAME);
        h.get()
    };
    let got = guarded(|| vec![<T as ColorComponent>::full()]);
    c.decide("ColorComponent::full", ty, "full_is_max_or_one", "ColorComponent::full()", "()".into(), hh("full"), true, got, &[f]);
    let got = guarded(|| vec![<T as num_traits::Zero>::zero()]);
    c.decide("Zero::zero", ty, "zero_is_zero", "Zero::zero()", "()".into(), hh("zero"), true, got, &[z]);
    macro_rules! named {
        ($name:ident, [$r:expr, $g:expr, $b:expr]) => {{
            let l3 = concat!("Rgb::", stringify!($name));
            let got = guarded(|| VecX::to_vec(&Rgb::<T>::$name()));
            c.decide(l3, ty, "named_colour_definition", l3, "()".into(), hh(l3), true, got, &[$r, $g, $b]);
            let l4 = concat!("Rgba::", stringify!($name));
            let got = guarded(|| VecX::to_vec(&Rgba::<T>::$name()));
            c.decide(l4, ty, "named_colour_definition", l4, "()".into(), hh(l4), true, got, &[$r, $g, $b, f]);
        }};
    }
    named!(black, [z, z, z]);
    named!(white, [f, f, f]);
    named!(red, [f, z, z]);
    named!(green, [z, f, z]);
    named!(blue, [z, z, f]);
    named!(cyan, [z, f, f]);
    named!(magenta, [f, z, f]);
    named!(yellow, [f, f, z]);
}

/// sampled colour helpers for one component type
fn color_sampled<T: CC>(c: &mut Cx) {
    let ty = T::NAME;
    let (r, ir) = T::pair(&mut c.rng);
    let (g, ig) = T::pair(&mut c.rng);
    let (b, ib) = T::pair(&mut c.rng);
    let a = T::any(&mut c.rng);
    let f = T::doc_full();
    let z = T::doc_zero();
    let inputs = format!("r={:?} g={:?} b={:?} a={:?}", r, g, b, a);
    let nontrivial = !(r == g && g == b);
    let hh = |l: &str| {
        let mut h = H64::new();
        h.s(l).s(T::NAME).u(r.bits()).u(g.bits()).u(b.bits()).u(a.bits());
        h.get()
    };
    macro_rules! chk {
        ($api:expr, $what:expr, $label:expr, $exp:expr, $call:expr) => {{
            let got = guarded(|| VecX::to_vec(&$call));
            c.decide($api, ty, $what, $label, inputs.clone(), hh($label), nontrivial, got, &$exp);
        }};
    }
    chk!("Rgb::inverted_rgb", "inverse_is_full_minus_channel", "Rgb::inverted_rgb", [ir, ig, ib], Rgb::new(r, g, b).inverted_rgb());
    chk!("Rgb::inverted_rgb", "involution", "Rgb::inverted_rgb twice", [r, g, b], Rgb::new(r, g, b).inverted_rgb().inverted_rgb());
    chk!("Rgba::inverted_rgb", "inverse_is_full_minus_channel_alpha_kept", "Rgba::inverted_rgb", [ir, ig, ib, a], Rgba::new(r, g, b, a).inverted_rgb());
    chk!("Rgba::inverted_rgb", "involution_alpha_kept", "Rgba::inverted_rgb twice", [r, g, b, a], Rgba::new(r, g, b, a).inverted_rgb().inverted_rgb());
    chk!("Rgba::new_opaque", "alpha_full", "Rgba::new_opaque", [r, g, b, f], Rgba::new_opaque(r, g, b));
    chk!("Rgba::new_transparent", "alpha_zero", "Rgba::new_transparent", [r, g, b, z], Rgba::new_transparent(r, g, b));
    chk!("Rgba::from_opaque", "alpha_full", "Rgba::from_opaque(Rgb)", [r, g, b, f], Rgba::from_opaque(Rgb::new(r, g, b)));
    chk!("Rgba::from_transparent", "alpha_zero", "Rgba::from_transparent(Rgb)", [r, g, b, z], Rgba::from_transparent(Rgb::new(r, g, b)));
    chk!("Rgba::from_translucent", "alpha_supplied", "Rgba::from_translucent(Rgb,a)", [r, g, b, a], Rgba::from_translucent(Rgb::new(r, g, b), a));
    chk!("Rgba::from(Rgb)", "rgb_to_rgba_alpha_full", "Rgba::from(Rgb)", [r, g, b, f], <Rgba<T> as From<Rgb<T>>>::from(Rgb::new(r, g, b)));
    chk!("Rgb::gray", "gray_replicates_value", "Rgb::gray", [a, a, a], Rgb::gray(a));
    chk!("Rgb::grey", "gray_replicates_value", "Rgb::grey", [a, a, a], Rgb::grey(a));
    chk!("Rgba::gray", "gray_replicates_value_alpha_full", "Rgba::gray", [a, a, a, f], Rgba::gray(a));
    chk!("Rgba::grey", "gray_replicates_value_alpha_full", "Rgba::grey", [a, a, a, f], Rgba::grey(a));
}

/// exhaustive u8 sweep of one channel position: index = kind*1024 + position*256 + value
fn inverted_u8_case(c: &mut Cx, i: u64) {
    let v = (i % 256) as u8;
    let pos = ((i / 256) % 4) as usize;
    let rgba = i / 1024 == 1;
    // the other channels are fixed per (kind, position) from the seed
    let mut rng = Rng::for_case("inverted_rgb_u8/others", c.cfg.case_seed(), i / 256);
    let mut ch = [rng.below(256) as u8, rng.below(256) as u8, rng.below(256) as u8, rng.below(256) as u8];
    ch[pos] = v;
    let inv = |x: u8| (255i32 - x as i32) as u8;
    let inputs = format!("{:?}", if rgba { &ch[..] } else { &ch[..3] });
    if rgba {
        let got = guarded(|| VecX::to_vec(&Rgba::new(ch[0], ch[1], ch[2], ch[3]).inverted_rgb()));
        c.decide("Rgba::inverted_rgb", "u8", "inverse_is_full_minus_channel_alpha_kept", "Rgba::inverted_rgb", inputs.clone(), 0, true, got, &[inv(ch[0]), inv(ch[1]), inv(ch[2]), ch[3]]);
        let got = guarded(|| VecX::to_vec(&Rgba::new(ch[0], ch[1], ch[2], ch[3]).inverted_rgb().inverted_rgb()));
        c.decide("Rgba::inverted_rgb", "u8", "involution_alpha_kept", "Rgba::inverted_rgb twice", inputs, 0, true, got, &ch);
    } else {
        let got = guarded(|| VecX::to_vec(&Rgb::new(ch[0], ch[1], ch[2]).inverted_rgb()));
        c.decide("Rgb::inverted_rgb", "u8", "inverse_is_full_minus_channel", "Rgb::inverted_rgb", inputs.clone(), 0, true, got, &[inv(ch[0]), inv(ch[1]), inv(ch[2])]);
        let got = guarded(|| VecX::to_vec(&Rgb::new(ch[0], ch[1], ch[2]).inverted_rgb().inverted_rgb()));
        c.decide("Rgb::inverted_rgb", "u8", "involution", "Rgb::inverted_rgb twice", inputs, 0, true, got, &ch[..3]);
    }
}

/// thorough only: one (r) plane of the full 256^3 cube of Rgb<u8> / Rgba<u8> (alpha derived)
fn inverted_u8_plane(c: &mut Cx, r: u8) {
    let mut bad: Option<String> = None;
    let res = guarded(|| {
        for g in 0..=255u8 {
            for b in 0..=255u8 {
                let a = r ^ g.rotate_left(3) ^ b.rotate_left(5);
                let e = [255 - r, 255 - g, 255 - b];
                let o = Rgb::new(r, g, b).inverted_rgb();
                let o4 = Rgba::new(r, g, b, a).inverted_rgb();
                let back = o4.inverted_rgb();
                if [o.r, o.g, o.b] != e || [o4.r, o4.g, o4.b, o4.a] != [e[0], e[1], e[2], a] || [back.r, back.g, back.b, back.a] != [r, g, b, a] {
                    return Some(format!("(r,g,b,a)=({},{},{},{}): Rgb -> {:?}, Rgba -> {:?}, twice -> {:?}; expected {:?} / alpha {}", r, g, b, a, o, o4, back, e, a));
                }
            }
        }
        None
    });
    c.sub.saw_n("Rgb::inverted_rgb", 65536);
    c.sub.saw_n("Rgba::inverted_rgb", 2 * 65536);
    match res {
        Ok(None) => {}
        Ok(Some(d)) => bad = Some(d),
        Err(e) => bad = Some(format!("plane r={}: panicked: {}", r, e)),
    }
    match bad {
        None => {
            for _ in 0..65536 {
                c.sub.held_enumerated(true);
            }
        }
        Some(d) => {
            let v = violation(PROP, c.sub, "Rgba::inverted_rgb", "u8", "wrong_value", "inverse_is_full_minus_channel_alpha_kept", d, c.cfg.case_seed(), c.idx);
            c.sub.violated(v);
        }
    }
}

/// component types on which `average_rgb` exists (`From<u8>`), with inputs that cannot overflow
trait Avg: CC + std::ops::Add<Output = Self> + std::ops::Div<Output = Self> + From<u8> {
    /// three channels and the reference (r+g+b)/3 computed outside the type
    fn triple(rng: &mut Rng) -> ([Self; 3], Self);
}
macro_rules! avg_int {
    ($($t:ident),+) => {$(
        impl Avg for $t {
            fn triple(rng: &mut Rng) -> ([$t; 3], $t) {
                let cap = (<$t>::MAX as u128) / 3; // three such values cannot overflow the sum
                let mut one = || -> u128 {
                    match rng.below(8) {
                        0 => 0,
                        1 => cap,
                        2 => 1,
                        3 => rng.below(256) as u128 % (cap + 1),
                        _ => (rng.next_u64() as u128) % (cap + 1),
                    }
                };
                let (a, b, c) = (one(), one(), one());
                ([a as $t, b as $t, c as $t], ((a + b + c) / 3) as $t)
            }
        }
    )+};
}
avg_int!(u8, u16, u32, u64, i16, i32, i64);
macro_rules! avg_float {
    ($t:ident, $bits:expr) => {
        impl Avg for $t {
            // channels k/8 with small k: the sum is exact in any association, and the single
            // division by 3 is correctly rounded, so the result is unique
            fn triple(rng: &mut Rng) -> ([$t; 3], $t) {
                let mut one = || rng.below(1 << $bits);
                let (a, b, c) = (one(), one(), one());
                ([a as $t / 8.0, b as $t / 8.0, c as $t / 8.0], ((a + b + c) as $t / 8.0) / 3.0)
            }
        }
    };
}
avg_float!(f32, 20);
avg_float!(f64, 48);

fn average_case<T: Avg>(c: &mut Cx) {
    let ty = T::NAME;
    let ([r, g, b], e) = T::triple(&mut c.rng);
    // alpha is arbitrary and frequently the type's full value: were it added, integer sums would
    // overflow / the mean would change
    let a = if c.rng.bool() { T::doc_full() } else { T::any(&mut c.rng) };
    let inputs = format!("r={:?} g={:?} b={:?} a={:?}", r, g, b, a);
    let nontrivial = !(r == g && g == b);
    let hh = |l: &str| {
        let mut h = H64::new();
        h.s(l).s(T::NAME).u(r.bits()).u(g.bits()).u(b.bits()).u(a.bits());
        h.get()
    };
    let got = guarded(|| vec![Rgb::new(r, g, b).average_rgb()]);
    c.decide("Rgb::average_rgb", ty, "mean_of_rgb", "Rgb::average_rgb", inputs.clone(), hh("rgb"), nontrivial, got, &[e]);
    let got = guarded(|| vec![Rgba::new(r, g, b, a).average_rgb()]);
    c.decide("Rgba::average_rgb", ty, "mean_of_rgb_without_alpha", "Rgba::average_rgb", inputs, hh("rgba"), nontrivial, got, &[e]);
}

// ------------------------------------------------------------------ matrix size conversions (Tag)

/// grow fills with the identity, shrink takes the upper-left block: one formula for both
fn resize_case<A: MatX<Tag>, B: MatX<Tag>>(c: &mut Cx, f: fn(A) -> B) {
    let (na, nb) = (A::N, B::N);
    let ids: Vec<u32> = (0..na * na).map(|_| c.id()).collect();
    let src = A::from_fn(|i, j| Tag(ids[i * na + j]));
    let mut exp = Vec::new();
    for i in 0..nb {
        for j in 0..nb {
            exp.push(Tag(if i < na && j < na { ids[i * na + j] } else if i == j { TAG_ONE } else { TAG_ZERO }));
        }
    }
    let got = guarded(|| {
        let m = f(src);
        let mut o = Vec::new();
        for i in 0..nb {
            for j in 0..nb {
                o.push(m.get(i, j));
            }
        }
        o
    });
    let api = format!("Mat{}::from(Mat{})", nb, na);
    let label = format!("{}->{}", A::NAME, B::NAME);
    let what = if nb > na { "grow_fills_identity" } else { "shrink_takes_upper_left_block" };
    let mut h = H64::new();
    h.s(&label);
    for i in &ids {
        h.u(*i as u64);
    }
    c.decide(&api, "Tag", what, &label, format!("{:?} (row-major listing)", tags(&ids)), h.get(), true, got, &exp);
}

fn resize_table(c: &mut Cx) {
    resize_case::<Rows2<Tag>, Rows3<Tag>>(c, |m| m.into());
    resize_case::<Rows2<Tag>, Rows4<Tag>>(c, |m| m.into());
    resize_case::<Rows3<Tag>, Rows4<Tag>>(c, |m| m.into());
    resize_case::<Rows4<Tag>, Rows3<Tag>>(c, |m| m.into());
    resize_case::<Rows4<Tag>, Rows2<Tag>>(c, |m| m.into());
    resize_case::<Rows3<Tag>, Rows2<Tag>>(c, |m| m.into());
    resize_case::<Cols2<Tag>, Cols3<Tag>>(c, |m| m.into());
    resize_case::<Cols2<Tag>, Cols4<Tag>>(c, |m| m.into());
    resize_case::<Cols3<Tag>, Cols4<Tag>>(c, |m| m.into());
    resize_case::<Cols4<Tag>, Cols3<Tag>>(c, |m| m.into());
    resize_case::<Cols4<Tag>, Cols2<Tag>>(c, |m| m.into());
    resize_case::<Cols3<Tag>, Cols2<Tag>>(c, |m| m.into());
}

// ------------------------------------------------------------------ commutation law

/// One embedding configuration: `em` embeds the small matrix, `ev` the small vector; `tail` are
/// the values the embedded product must carry in the appended positions.
struct Embed<MS, ML, VS, VL> {
    label: &'static str,
    mat_api: &'static str,
    vec_api: &'static str,
    tail: &'static [i64],
    em: fn(MS) -> ML,
    ev: fn(VS) -> VL,
}

fn commute_sym<MS, ML, VS, VL>(sub: &mut Sub, cfg: &Config, e: &Embed<MS, ML, VS, VL>)
where
    MS: MatX<Sym> + Copy + std::ops::Mul<VS, Output = VS>,
    VS: VecX<Sym> + Copy + std::ops::Mul<MS, Output = VS>,
    ML: MatX<Sym> + Copy + std::ops::Mul<VL, Output = VL>,
    VL: VecX<Sym> + Copy + std::ops::Mul<ML, Output = VL>,
{
    let n = MS::N;
    let big = ML::N;
    let tail = e.tail;
    let mk = || {
        sym_reset();
        (MS::from_fn(|i, j| Sym::var((i * n + j) as u32)), VS::from_fn(|i| Sym::var((n * n + i) as u32)))
    };
    // column vector: (M v)_i = sum_k m_ik v_k ; row vector: (v M)_j = sum_k v_k m_kj
    let ref_col = move |f: &dyn Fn(u32) -> Fp| -> Vec<Fp> {
        (0..big)
            .map(|i| if i < n { (0..n).fold(Fp::ZERO, |s, k| s.add(f((i * n + k) as u32).mul(f((n * n + k) as u32)))) } else { Fp::from_i64(tail[i - n]) })
            .collect()
    };
    let ref_row = move |f: &dyn Fn(u32) -> Fp| -> Vec<Fp> {
        (0..big)
            .map(|j| if j < n { (0..n).fold(Fp::ZERO, |s, k| s.add(f((n * n + k) as u32).mul(f((k * n + j) as u32)))) } else { Fp::from_i64(tail[j - n]) })
            .collect()
    };
    let mut step = |name: &str, api: &str, r: Result<VL, String>, reference: &dyn Fn(&dyn Fn(u32) -> Fp) -> Vec<Fp>| {
        let case = format!("{} [{}/{}] {}", e.label, MS::NAME, ML::NAME, name);
        match r {
            Ok(v) => {
                let o: Vec<Sym> = (0..big).map(|i| v.get(i)).collect();
                decide_pit(PROP, sub, api, "Sym", &case, &o, n * n + n, cfg.case_seed(), 0, reference);
            }
            Err(p) => {
                let _ = take_poison();
                sub.saw(api);
                let v = violation(PROP, sub, api, "Sym", "panic", "embedding_commutes_with_product", format!("{}: panicked: {}", case, p), cfg.case_seed(), 0);
                sub.violated(v);
            }
        }
    };
    let (m, v) = mk();
    step("embed(M)*embed(v)", e.mat_api, guarded(|| (e.em)(m) * (e.ev)(v)), &ref_col);
    let (m, v) = mk();
    step("embed(M*v)", e.vec_api, guarded(|| (e.ev)(m * v)), &ref_col);
    let (m, v) = mk();
    step("embed(v)*embed(M)", e.mat_api, guarded(|| (e.ev)(v) * (e.em)(m)), &ref_row);
    let (m, v) = mk();
    step("embed(v*M)", e.vec_api, guarded(|| (e.ev)(v * m)), &ref_row);
}

fn commute_q<MS, ML, VS, VL>(c: &mut Cx, e: &Embed<MS, ML, VS, VL>)
where
    MS: MatX<Q> + Copy + std::ops::Mul<VS, Output = VS>,
    VS: VecX<Q> + Copy + std::ops::Mul<MS, Output = VS>,
    ML: MatX<Q> + Copy + std::ops::Mul<VL, Output = VL>,
    VL: VecX<Q> + Copy + std::ops::Mul<ML, Output = VL>,
{
    let n = MS::N;
    let big = ML::N;
    let em: Vec<Vec<Q>> = (0..n).map(|_| (0..n).map(|_| biased_q(&mut c.rng, 9, 6)).collect()).collect();
    let ev: Vec<Q> = (0..n).map(|_| biased_q(&mut c.rng, 9, 6)).collect();
    let m = MS::from_fn(|i, j| em[i][j]);
    let v = VS::from_fn(|i| ev[i]);
    let mut col = Vec::new();
    let mut row = Vec::new();
    for i in 0..big {
        if i < n {
            let mut s = Q::ZERO;
            let mut t = Q::ZERO;
            for k in 0..n {
                s = s + em[i][k] * ev[k];
                t = t + ev[k] * em[k][i];
            }
            col.push(s);
            row.push(t);
        } else {
            col.push(Q::int(e.tail[i - n]));
            row.push(Q::int(e.tail[i - n]));
        }
    }
    let inputs = format!("m={:?} v={:?}", em, ev);
    let zeros = em.iter().flatten().chain(ev.iter()).filter(|q| q.is_zero()).count();
    let nontrivial = zeros * 2 < n * n + n;
    let hh = |l: &str| {
        let mut h = H64::new();
        h.s(e.label).s(MS::NAME).s(l);
        for q in em.iter().flatten().chain(ev.iter()) {
            h.u(q.hash64());
        }
        h.get()
    };
    let what = "embedding_commutes_with_product";
    let lab = |s: &str| format!("{} [{}/{}] {}", e.label, MS::NAME, ML::NAME, s);
    let got = guarded(|| VecX::to_vec(&((e.em)(m) * (e.ev)(v))));
    c.decide(e.mat_api, "Q", what, &lab("embed(M)*embed(v)"), inputs.clone(), hh("a"), nontrivial, got, &col);
    let got = guarded(|| VecX::to_vec(&(e.ev)(m * v)));
    c.decide(e.vec_api, "Q", what, &lab("embed(M*v)"), inputs.clone(), hh("b"), nontrivial, got, &col);
    let got = guarded(|| VecX::to_vec(&((e.ev)(v) * (e.em)(m))));
    c.decide(e.mat_api, "Q", what, &lab("embed(v)*embed(M)"), inputs.clone(), hh("c"), nontrivial, got, &row);
    let got = guarded(|| VecX::to_vec(&(e.ev)(v * m)));
    c.decide(e.vec_api, "Q", what, &lab("embed(v*M)"), inputs, hh("d"), nontrivial, got, &row);
}

/// Invoke `$go!(embed_config)` for every embedding configuration, in both layouts, with element `$T`.
macro_rules! for_all_embeddings {
    ($T:ty, $go:ident) => {
        for_all_embeddings!(@layout $T, $go, Rows2, Rows3, Rows4);
        for_all_embeddings!(@layout $T, $go, Cols2, Cols3, Cols4);
    };
    (@layout $T:ty, $go:ident, $M2:ident, $M3:ident, $M4:ident) => {
        $go!(Embed::<$M3<$T>, $M4<$T>, Vec3<$T>, Vec4<$T>> { label: "3->4 zero", mat_api: "Mat4::from(Mat3)", vec_api: "Vec4::from(Vec3)", tail: &[0], em: |m| m.into(), ev: |v| Vec4::from(v) });
        $go!(Embed::<$M3<$T>, $M4<$T>, Vec3<$T>, Vec4<$T>> { label: "3->4 point", mat_api: "Mat4::from(Mat3)", vec_api: "Vec4::from_point", tail: &[1], em: |m| m.into(), ev: |v| Vec4::from_point(v) });
        $go!(Embed::<$M3<$T>, $M4<$T>, Vec3<$T>, Vec4<$T>> { label: "3->4 direction", mat_api: "Mat4::from(Mat3)", vec_api: "Vec4::from_direction", tail: &[0], em: |m| m.into(), ev: |v| Vec4::from_direction(v) });
        $go!(Embed::<$M2<$T>, $M3<$T>, Vec2<$T>, Vec3<$T>> { label: "2->3 zero", mat_api: "Mat3::from(Mat2)", vec_api: "Vec3::from(Vec2)", tail: &[0], em: |m| m.into(), ev: |v| Vec3::from(v) });
        $go!(Embed::<$M2<$T>, $M3<$T>, Vec2<$T>, Vec3<$T>> { label: "2->3 point", mat_api: "Mat3::from(Mat2)", vec_api: "Vec3::from_point_2d", tail: &[1], em: |m| m.into(), ev: |v| Vec3::from_point_2d(v) });
        $go!(Embed::<$M2<$T>, $M3<$T>, Vec2<$T>, Vec3<$T>> { label: "2->3 direction", mat_api: "Mat3::from(Mat2)", vec_api: "Vec3::from_direction_2d", tail: &[0], em: |m| m.into(), ev: |v| Vec3::from_direction_2d(v) });
        $go!(Embed::<$M2<$T>, $M4<$T>, Vec2<$T>, Vec4<$T>> { label: "2->4 zero", mat_api: "Mat4::from(Mat2)", vec_api: "Vec4::from(Vec2)", tail: &[0, 0], em: |m| m.into(), ev: |v| Vec4::from(v) });
        $go!(Embed::<$M2<$T>, $M4<$T>, Vec2<$T>, Vec4<$T>> { label: "2->4 point", mat_api: "Mat4::from(Mat2)", vec_api: "Vec4::from_point", tail: &[0, 1], em: |m| m.into(), ev: |v| Vec4::from_point(v) });
    };
}

// ------------------------------------------------------------------ main

/// Violated cases are conclusive executions too: they must not turn into a "floor not met"
/// harness problem (exit 2) that hides the violation verdict (exit 1).
fn push(rep: &mut Report, mut s: Sub) {
    s.floor = s.floor.saturating_sub(s.violations_total);
    rep.push(s);
}

fn main() {
    let cfg = Config::from_args(PROP);
    let mut rep = Report::new(cfg.clone());
    let rounds = cfg.n(64, 4000);

    // ---- conversions between kinds and sizes
    {
        let proto = Sub::new(
            "conv_tag",
            "every From impl between vector kinds/sizes in vec.rs (19), the five (smaller, scalar) tuple impls and the Rgba opaque/transparent/translucent constructors (from Rgb, Vec3, Rgba arguments), executed on vectors of all-distinct random Tag ids written through the raw fields; output position -> input id / ZERO / FULL must match the table (equal size: order kept, shrink: trailing dropped, grow: ZERO appended, Rgb->Rgba: FULL). One case per (conversion, direction) per round; a round draws fresh ids; distinct = (conversion, ids)",
        )
        .with_floor(35)
        .require(&[
            "Vec2::from(Vec3)", "Vec2::from(Vec4)", "Vec2::from(Extent2)", "Vec3::from(Vec2)", "Vec3::from(Vec4)", "Vec3::from(Extent3)", "Vec3::from(Rgb)", "Vec3::from(Uvw)",
            "Vec4::from(Vec3)", "Vec4::from(Vec2)", "Vec4::from(Rgba)", "Extent3::from(Vec3)", "Extent2::from(Vec2)", "Rgba::from(Vec4)", "Rgba::from(Rgb)", "Rgb::from(Vec3)",
            "Rgb::from(Rgba)", "Uvw::from(Vec3)", "Uv::from(Vec2)", "Vec3::from((Vec2,T))", "Vec4::from((Vec3,T))", "Extent3::from((Extent2,T))", "Rgba::from((Rgb,T))", "Uvw::from((Uv,T))",
            "Rgba::new_opaque", "Rgba::new_transparent", "Rgba::from_opaque", "Rgba::from_transparent", "Rgba::from_translucent",
        ]);
        let s = run_cases(&cfg, proto, rounds, |s, i| {
            let mut c = Cx::new(s, &cfg, i, "conv_tag/ids", false);
            conv_table(&mut c);
        });
        push(&mut rep, s);
    }
    {
        let proto = Sub::new(
            "swizzle_with_tag",
            "named swizzles (yx zyx xy xyz wxyz wzyx zyxw rgb: the name spells the permutation), colour reorderings (shuffled_argb/bgra/bgr) and with_x/y/z/w (replace exactly the named element; Vec2::with_z, Vec2::with_w (z = ZERO), Vec3::with_w grow) on all-distinct random Tag ids; one case per entry point per round",
        )
        .with_floor(24)
        .require(&[
            "Vec2::yx", "Vec3::zyx", "Vec3::xy", "Vec4::wxyz", "Vec4::wzyx", "Vec4::zyxw", "Vec4::xyz", "Vec4::xy", "Rgba::rgb", "Rgba::shuffled_argb", "Rgba::shuffled_bgra", "Rgb::shuffled_bgr",
            "Vec2::with_x", "Vec2::with_y", "Vec2::with_z", "Vec2::with_w", "Vec3::with_x", "Vec3::with_y", "Vec3::with_z", "Vec3::with_w", "Vec4::with_x", "Vec4::with_y", "Vec4::with_z", "Vec4::with_w",
        ]);
        let s = run_cases(&cfg, proto, rounds, |s, i| {
            let mut c = Cx::new(s, &cfg, i, "swizzle_with_tag/ids", false);
            swizzle_table(&mut c);
        });
        push(&mut rep, s);
    }
    {
        let proto = Sub::new(
            "homogeneous_units_tag",
            "homogeneous constructors new_point(_2d)/new_direction(_2d)/from_point(_2d)/from_direction(_2d) (arguments of every kind with an Into impl) on distinct random Tag ids: last element ONE for points, ZERO for directions, the rest per the conversion table; unit_x/y/z/w and unit_*_point on Tag: ONE at the axis (and w), ZERO elsewhere; one case per entry/argument kind per round (the nullary unit vectors count once)",
        )
        .with_floor(36)
        .require(&["Vec3::new_point_2d", "Vec3::new_direction_2d", "Vec3::from_point_2d", "Vec3::from_direction_2d", "Vec4::new_point", "Vec4::new_direction", "Vec4::from_point", "Vec4::from_direction", "Vec4::unit_w", "Vec4::unit_z_point"]);
        let s = run_cases(&cfg, proto, rounds, |s, i| {
            let mut c = Cx::new(s, &cfg, i, "homogeneous_units_tag/ids", false);
            homogeneous_table(&mut c);
        });
        push(&mut rep, s);
    }
    {
        let mut s = Sub::new(
            "unit_direction_literals",
            "every nullary unit-vector function (unit_x/y/z/w, unit_*_point and the deprecated left right up down forward_lh/rh back_lh/rh and *_point* names) of Vec2/Vec3/Vec4 on i32, f64 and exact Q against the literal vector its documentation states; the functions take no input, so one execution per element type is the complete input space",
        )
        .with_floor(120)
        .require(&["Vec2::left", "Vec2::down", "Vec3::forward_rh", "Vec3::back_lh", "Vec4::left", "Vec4::left_point", "Vec4::down_point", "Vec4::forward_point_rh", "Vec4::back_point_lh", "Vec4::back_point_rh", "Vec4::unit_w"]);
        s.exhaustive = true;
        if cfg.wants("unit_direction_literals") {
            let mut c = Cx::new(&mut s, &cfg, 0, "unit_direction_literals", true);
            unit_literals::<i32>(&mut c, "i32");
            unit_literals::<f64>(&mut c, "f64");
            unit_literals::<Q>(&mut c, "Q");
        } else {
            s.floor = 0;
            s.required.clear();
        }
        push(&mut rep, s);
    }

    // ---- ShuffleMask4
    {
        let mut proto = Sub::new(
            "mask_indices_exhaustive",
            "all 256 index tuples (a,b,c,d) in 0..=3: ShuffleMask4::new / from(tuple) / from([usize;4]) followed by to_indices must return (a,b,c,d); from(usize k) must give (k,k,k,k); case index = a+4b+16c+64d; each (constructor, mask) counts once",
        )
        .with_floor(256 * 3 + 4)
        .require(&["ShuffleMask4::new", "ShuffleMask4::from(tuple)", "ShuffleMask4::from([usize;4])", "ShuffleMask4::from(usize)", "ShuffleMask4::to_indices"]);
        proto.exhaustive = true;
        let s = run_cases(&cfg, proto, 256, |s, i| {
            let mut c = Cx::new(s, &cfg, i, "mask_indices_exhaustive", true);
            let i = i as usize;
            mask_case(&mut c, (i & 3, (i >> 2) & 3, (i >> 4) & 3, (i >> 6) & 3));
        });
        push(&mut rep, s);
    }
    let n_oor = 10_000 + cfg.n(20_000, 1_000_000);
    {
        let proto = Sub::new(
            "mask_indices_out_of_range",
            "index tuples with at least one element outside 0..=3: the first 10^4 cases enumerate all tuples over 0..=9 (skipping the 256 in-range ones), the rest are random (small, up to 1000, near usize::MAX, powers of two plus a residue, random 64-bit); to_indices after new/from must be each index modulo 4 (computed with %); distinct by (constructor, tuple)",
        )
        .with_floor(20_000)
        .require(&["ShuffleMask4::new", "ShuffleMask4::from(tuple)", "ShuffleMask4::from([usize;4])", "ShuffleMask4::from(usize)"]);
        let s = run_cases(&cfg, proto, n_oor, |s, i| {
            let mut c = Cx::new(s, &cfg, i, "mask_indices_out_of_range", false);
            let m = if i < 10_000 {
                let i = i as usize;
                let m = (i % 10, (i / 10) % 10, (i / 100) % 10, i / 1000);
                if m.0 < 4 && m.1 < 4 && m.2 < 4 && m.3 < 4 {
                    return;
                }
                m
            } else {
                out_of_range_tuple(&mut c.rng)
            };
            mask_case(&mut c, m);
        });
        push(&mut rep, s);
    }

    // ---- shuffles
    {
        let mut proto = Sub::new(
            "shuffle_exhaustive",
            "all 256 masks on Vec4 and Rgba with 8 distinct random Tag ids (lo, hi): shuffle_lo_hi(lo,hi,mask) must be (lo[a],lo[b],hi[c],hi[d]) with the mask given as tuple, array and ShuffleMask4::new; shuffled(mask) must be (v[a],v[b],v[c],v[d]); shuffled(k) must broadcast lane k; case index = a+4b+16c+64d; each (type, entry form, mask) counts once",
        )
        .with_floor(2 * (256 * 4 + 4))
        .require(&["Vec4::shuffle_lo_hi", "Vec4::shuffled", "Vec4::shuffled(usize)", "Rgba::shuffle_lo_hi", "Rgba::shuffled", "Rgba::shuffled(usize)"]);
        proto.exhaustive = true;
        let s = run_cases(&cfg, proto, 256, |s, i| {
            let mut c = Cx::new(s, &cfg, i, "shuffle_exhaustive/ids", true);
            let k = i as usize;
            let m = (k & 3, (k >> 2) & 3, (k >> 4) & 3, (k >> 6) & 3);
            vec4_by_mask(&mut c, m);
            rgba_by_mask(&mut c, m);
        });
        push(&mut rep, s);
    }
    {
        let n = cfg.n(20_000, 500_000);
        let proto = Sub::new(
            "shuffle_out_of_range",
            "random index tuples with at least one element outside 0..=3 through shuffle_lo_hi / shuffled / shuffled(k) on Vec4 and Rgba with distinct random Tag ids: lanes are selected modulo 4 (doc example: shuffled((2,3,4,5)) of (0,1,2,3) is (2,3,0,1)); distinct by (entry form, tuple, ids)",
        )
        .with_floor(n * 4)
        .require(&["Vec4::shuffle_lo_hi", "Vec4::shuffled", "Vec4::shuffled(usize)", "Rgba::shuffle_lo_hi", "Rgba::shuffled", "Rgba::shuffled(usize)"]);
        let s = run_cases(&cfg, proto, n, |s, i| {
            let mut c = Cx::new(s, &cfg, i, "shuffle_out_of_range", false);
            let m = out_of_range_tuple(&mut c.rng);
            vec4_by_mask(&mut c, m);
            let m = out_of_range_tuple(&mut c.rng);
            rgba_by_mask(&mut c, m);
        });
        push(&mut rep, s);
    }
    {
        let proto = Sub::new(
            "shuffle_diagrams",
            "interleave_0011/2233, shuffle_lo_hi_0101, shuffle_hi_lo_2323, shuffled_0101/2323/0022/1133 on Vec4 and Rgba with distinct random Tag ids against the lane diagrams of their documentation (a = lanes 0..3, b = lanes 4..7: (0,4,1,5), (2,6,3,7), (0,1,4,5), (6,7,2,3), (0,1,0,1), (2,3,2,3), (0,0,2,2), (1,1,3,3)); one case per (type, function) per round",
        )
        .with_floor(16)
        .require(&[
            "Vec4::interleave_0011", "Vec4::interleave_2233", "Vec4::shuffle_lo_hi_0101", "Vec4::shuffle_hi_lo_2323", "Vec4::shuffled_0101", "Vec4::shuffled_2323", "Vec4::shuffled_0022", "Vec4::shuffled_1133",
            "Rgba::interleave_0011", "Rgba::interleave_2233", "Rgba::shuffle_lo_hi_0101", "Rgba::shuffle_hi_lo_2323", "Rgba::shuffled_0101", "Rgba::shuffled_2323", "Rgba::shuffled_0022", "Rgba::shuffled_1133",
        ]);
        let s = run_cases(&cfg, proto, rounds, |s, i| {
            let mut c = Cx::new(s, &cfg, i, "shuffle_diagrams/ids", false);
            vec4_diagrams(&mut c);
            rgba_diagrams(&mut c);
        });
        push(&mut rep, s);
    }

    // ---- colours
    {
        let mut s = Sub::new(
            "color_constants",
            "for each of the 18 ColorComponent types (f32 f64 u8..u64 i8..i64 and their Wrapping forms): full() is MAX for integers and 1 for floats, zero() is 0, and the eight named colours of Rgb and Rgba (black white red green blue cyan magenta yellow; Rgba alpha = full) equal their literal definitions; nullary functions, one execution per type is the complete input space",
        )
        .with_floor(18 * 18)
        .require(&["ColorComponent::full", "Rgb::black", "Rgb::white", "Rgb::red", "Rgb::green", "Rgb::blue", "Rgb::cyan", "Rgb::magenta", "Rgb::yellow", "Rgba::black", "Rgba::white", "Rgba::red", "Rgba::green", "Rgba::blue", "Rgba::cyan", "Rgba::magenta", "Rgba::yellow"]);
        s.exhaustive = true;
        if cfg.wants("color_constants") {
            let mut c = Cx::new(&mut s, &cfg, 0, "color_constants", true);
            macro_rules! go {
                ($t:ty) => {
                    color_constants::<$t>(&mut c);
                };
            }
            for_all_cc!(go);
        } else {
            s.floor = 0;
            s.required.clear();
        }
        push(&mut rep, s);
    }
    {
        let n = cfg.n(2_000, 30_000);
        let proto = Sub::new(
            "color_sampled",
            "per case and per ColorComponent type: channels r,g,b boundary-biased in the colour domain 0..=full (integers: 0, 1, MAX-1, MAX, MAX/2, random; floats: k/2^m so that 1-c is exact; negative signed values are outside the domain because full-c overflows), alpha arbitrary; inverted_rgb == full-c per channel (reference in i128 / exact dyadics) with alpha untouched and is an involution, on Rgb and Rgba; new_opaque/new_transparent/from_opaque/from_transparent/from_translucent/Rgba::from(Rgb)/gray/grey against their definitions; non-trivial = r,g,b not all equal; distinct by (type, entry, values)",
        )
        .with_floor(n * 18 * 8)
        .require(&["Rgb::inverted_rgb", "Rgba::inverted_rgb", "Rgba::new_opaque", "Rgba::new_transparent", "Rgba::from_opaque", "Rgba::from_transparent", "Rgba::from_translucent", "Rgba::from(Rgb)", "Rgb::gray", "Rgb::grey", "Rgba::gray", "Rgba::grey"]);
        let s = run_cases(&cfg, proto, n, |s, i| {
            let mut c = Cx::new(s, &cfg, i, "color_sampled", false);
            macro_rules! go {
                ($t:ty) => {
                    color_sampled::<$t>(&mut c);
                };
            }
            for_all_cc!(go);
        });
        push(&mut rep, s);
    }
    {
        let mut proto = Sub::new(
            "inverted_rgb_u8_channels",
            "u8, exhaustive per channel position: for Rgb (3 positions) and Rgba (4 positions, alpha included) the position sweeps all 256 values while the others hold seed-chosen values; inverted_rgb must give 255-c on r,g,b, keep alpha, and applying it twice must return the input; case index = kind*1024 + position*256 + value",
        )
        .with_floor(2 * (3 + 4) * 256)
        .require(&["Rgb::inverted_rgb", "Rgba::inverted_rgb"]);
        proto.exhaustive = true;
        let s = run_cases(&cfg, proto, 2048, |s, i| {
            if i < 1024 && (i / 256) % 4 == 3 {
                return; // Rgb has no fourth channel
            }
            let mut c = Cx::new(s, &cfg, i, "inverted_rgb_u8_channels", true);
            inverted_u8_case(&mut c, i);
        });
        push(&mut rep, s);
    }
    if cfg.thorough() {
        let mut proto = Sub::new(
            "inverted_rgb_u8_cube",
            "thorough tier: the complete 256^3 cube of Rgb<u8> (and Rgba<u8> with an alpha derived from r,g,b): inverted_rgb == 255-c per channel, alpha kept, involution; case index = r plane, each (r,g,b) counts once",
        )
        .with_floor(1 << 24);
        proto.exhaustive = true;
        let s = run_cases(&cfg, proto, 256, |s, i| {
            let mut c = Cx::new(s, &cfg, i, "inverted_rgb_u8_cube", true);
            inverted_u8_plane(&mut c, i as u8);
        });
        push(&mut rep, s);
    }
    {
        let n = cfg.n(3_000, 200_000);
        let proto = Sub::new(
            "average_rgb",
            "average_rgb on Rgb and Rgba for every component type that has From<u8> (u8 u16 u32 u64 i16 i32 i64 f32 f64) with channels in 0..=MAX/3 (so r+g+b cannot overflow; u16 <= 21845) resp. float channels k/8 with an exact sum: result == (r+g+b)/3 computed in u128 / by one correctly rounded division; Rgba alpha is arbitrary and half of the time the type's full value (it must not enter the mean); non-trivial = r,g,b not all equal; distinct by (type, kind, values)",
        )
        .with_floor(n * 9)
        .require(&["Rgb::average_rgb", "Rgba::average_rgb"]);
        let s = run_cases(&cfg, proto, n, |s, i| {
            let mut c = Cx::new(s, &cfg, i, "average_rgb", false);
            average_case::<u8>(&mut c);
            average_case::<u16>(&mut c);
            average_case::<u32>(&mut c);
            average_case::<u64>(&mut c);
            average_case::<i16>(&mut c);
            average_case::<i32>(&mut c);
            average_case::<i64>(&mut c);
            average_case::<f32>(&mut c);
            average_case::<f64>(&mut c);
        });
        push(&mut rep, s);
    }

    // ---- matrices
    {
        let proto = Sub::new(
            "mat_resize_tag",
            "Mat2->Mat3, Mat2->Mat4, Mat3->Mat4 (grow: identity fill, ONE on the new diagonal, ZERO elsewhere) and Mat4->Mat3, Mat4->Mat2, Mat3->Mat2 (shrink: upper-left block) in both layouts on distinct random Tag ids, read as abstract (i,j) through the raw rows/cols fields; one case per (conversion, layout) per round",
        )
        .with_floor(12)
        .require(&["Mat3::from(Mat2)", "Mat4::from(Mat2)", "Mat4::from(Mat3)", "Mat3::from(Mat4)", "Mat2::from(Mat4)", "Mat2::from(Mat3)"]);
        let s = run_cases(&cfg, proto, rounds, |s, i| {
            let mut c = Cx::new(s, &cfg, i, "mat_resize_tag/ids", false);
            resize_table(&mut c);
        });
        push(&mut rep, s);
    }
    {
        let mut s = Sub::new(
            "commutation_sym",
            "Sym-traced: for the embeddings 3->4 (zero / from_point / from_direction), 2->3 (zero / from_point_2d / from_direction_2d), 2->4 (zero / from_point) in both layouts, embed(M)*embed(v), embed(M*v), embed(v)*embed(M) and embed(v*M) are each compared by polynomial identity testing (6 random points of GF(2^61-1)) with the textbook product followed by the appended constants (0, or 1 for points); distinct = (embedding, layout, side)",
        )
        .with_floor(64)
        .require(&["Mat4::from(Mat3)", "Mat3::from(Mat2)", "Mat4::from(Mat2)", "Vec4::from(Vec3)", "Vec3::from(Vec2)", "Vec4::from(Vec2)", "Vec4::from_point", "Vec4::from_direction", "Vec3::from_point_2d", "Vec3::from_direction_2d"]);
        if cfg.wants("commutation_sym") {
            macro_rules! go {
                ($e:expr) => {
                    commute_sym(&mut s, &cfg, &$e);
                };
            }
            for_all_embeddings!(Sym, go);
        } else {
            s.floor = 0;
            s.required.clear();
        }
        push(&mut rep, s);
    }
    {
        let n = cfg.n(1_000, 40_000);
        let proto = Sub::new(
            "commutation_q",
            "the same embeddings and four product forms on random boundary-biased exact rationals (0, +-1, small integers and fractions), compared exactly with a naive product followed by the appended constants; non-trivial = fewer than half of the entries zero; distinct by (embedding, layout, side, values)",
        )
        .with_floor(n * 32)
        .require(&["Mat4::from(Mat3)", "Mat3::from(Mat2)", "Mat4::from(Mat2)", "Vec4::from(Vec3)", "Vec3::from(Vec2)", "Vec4::from(Vec2)", "Vec4::from_point", "Vec4::from_direction", "Vec3::from_point_2d", "Vec3::from_direction_2d"]);
        let s = run_cases(&cfg, proto, n, |s, i| {
            let mut c = Cx::new(s, &cfg, i, "commutation_q", false);
            macro_rules! go {
                ($e:expr) => {
                    commute_q(&mut c, &$e);
                };
            }
            for_all_embeddings!(Q, go);
        });
        push(&mut rep, s);
    }
    std::process::exit(rep.finish());
}

//! C04 — rotation builders yield proper right-handed rotations, consistent across types.
//!
//! vek's real rotation constructors (`Mat{2,3,4}::rotation_*`, `rotated_*`, `rotate_*`,
//! `Quaternion::rotation_*`/`rotated_*`/`rotate_*`, `Mat{3,4}::from(Quaternion)`,
//! `Vec2::rotated_z`/`rotate_z`) run, in both storage layouts, on four kinds of element:
//!
//!  * `Q`  — exact rationals; angles are registered tokens with an exact rational point (c,s)
//!           on the unit circle (and one for the half angle), axes have rational length, so every
//!           `sqrt`/`sin`/`cos` vek performs is exact and every relation is decided exactly;
//!  * `Fp` — the same relations at random points of GF(2^61-1): the identities of the ring
//!           Q[x,y,z,r,c,s]/(s^2+c^2-1, r^2-x^2-y^2-z^2) at unbounded depth without overflow;
//!  * `f32`, `f64` — arbitrary angles (negative, > 2 pi) and irrational-norm axes with a derived
//!           tolerance 64*eps*(1+|a|+|b|).
//!
//! The outputs are read through the raw public representation (`MatX`, fields) and judged by an
//! oracle written from the mathematical definition (orthogonality, Leibniz determinant, axis
//! fixed, right-hand images of the unit vectors, Rodrigues' formula applied to basis vectors,
//! additivity, textbook quaternion-to-matrix), never through another vek function.

use monitors::fp::{fp_angle_sum, fp_clear, fp_random_angle, fp_register_root, Fp, P};
use monitors::gen::{det, identity, matmul, matvec, rational_length_vec3, small_q, small_q_pos};
use monitors::prng::{Rng, H64};
use monitors::q::{angle_from_quarter_tan, angle_sum, clear_angles};
use monitors::report::{guarded, run_cases, take_poison, Config, Report, Sub};
use monitors::scalar::Mon;
use monitors::Q;
use num_traits::real::Real;
use num_traits::MulAdd;
use props::*;
use std::cmp::Ordering;
use vek::quaternion::repr_c::Quaternion;
use vek::vec::repr_c::{Vec2, Vec3};

const PROP: &str = "C04";

// ------------------------------------------------------------------ reference arithmetic

/// f64 as a reference number (so that the `Mon`-generic helpers of `monitors::gen` apply)
#[derive(Clone, Copy, Debug)]
struct F(f64);
impl Mon for F {
    const NAME: &'static str = "f64ref";
    fn m_int(i: i64) -> F {
        F(i as f64)
    }
    fn m_add(self, o: F) -> F {
        F(self.0 + o.0)
    }
    fn m_sub(self, o: F) -> F {
        F(self.0 - o.0)
    }
    fn m_mul(self, o: F) -> F {
        F(self.0 * o.0)
    }
    fn m_div(self, o: F) -> F {
        F(self.0 / o.0)
    }
    fn m_rem(self, o: F) -> F {
        F(self.0 % o.0)
    }
    fn m_neg(self) -> F {
        F(-self.0)
    }
    fn m_eq(self, o: F) -> bool {
        self.0 == o.0
    }
    fn m_cmp(self, o: F) -> Option<Ordering> {
        self.0.partial_cmp(&o.0)
    }
    fn m_sqrt(self) -> F {
        F(self.0.sqrt())
    }
    fn m_sin(self) -> F {
        F(self.0.sin())
    }
    fn m_cos(self) -> F {
        F(self.0.cos())
    }
    fn m_abs(self) -> F {
        F(self.0.abs())
    }
    fn m_floor(self) -> F {
        F(self.0.floor())
    }
    fn m_round(self) -> F {
        F(self.0.round())
    }
    fn m_unsupported(self, _what: &'static str) -> F {
        F(f64::NAN)
    }
    fn m_epsilon() -> F {
        F(f64::EPSILON)
    }
    fn m_pi() -> F {
        F(std::f64::consts::PI)
    }
    fn m_to_f64(self) -> Option<f64> {
        Some(self.0)
    }
}

/// reference number: exact equality for `Q`/`Fp`, absolute tolerance for floats
trait RefNum: Mon {
    fn close(self, o: Self, tol: f64) -> bool;
    /// magnitude, for scaling an absolute tolerance (1 for the exact tiers, which ignore tolerances)
    fn approx_abs(self) -> f64 {
        1.0
    }
}
impl RefNum for Q {
    fn close(self, o: Q, _tol: f64) -> bool {
        self.m_eq(o)
    }
}
impl RefNum for Fp {
    fn close(self, o: Fp, _tol: f64) -> bool {
        self.m_eq(o)
    }
}
impl RefNum for F {
    fn close(self, o: F, tol: f64) -> bool {
        (self.0 - o.0).abs() <= tol
    }
    fn approx_abs(self) -> f64 {
        self.0.abs()
    }
}

/// element type vek is instantiated with
trait El: Real + MulAdd<Self, Self, Output = Self> + std::fmt::Debug + 'static {
    type R: RefNum;
    const TY: &'static str;
    fn r(self) -> Self::R;
}
impl El for Q {
    type R = Q;
    const TY: &'static str = "Q";
    fn r(self) -> Q {
        self
    }
}
impl El for Fp {
    type R = Fp;
    const TY: &'static str = "Fp";
    fn r(self) -> Fp {
        self
    }
}
impl El for f32 {
    type R = F;
    const TY: &'static str = "f32";
    fn r(self) -> F {
        F(self as f64)
    }
}
impl El for f64 {
    type R = F;
    const TY: &'static str = "f64";
    fn r(self) -> F {
        F(self)
    }
}

fn ri<R: Mon>(i: i64) -> R {
    R::m_int(i)
}
fn arr<const N: usize, T: El, M: MatX<T>>(m: &M) -> [[T::R; N]; N] {
    assert_eq!(M::N, N);
    let mut o = [[ri::<T::R>(0); N]; N];
    for i in 0..N {
        for j in 0..N {
            o[i][j] = m.get(i, j).r();
        }
    }
    o
}
fn transpose<const N: usize, R: Mon>(a: [[R; N]; N]) -> [[R; N]; N] {
    let mut o = a;
    for i in 0..N {
        for j in 0..N {
            o[i][j] = a[j][i];
        }
    }
    o
}
fn block3<R: Mon>(a: [[R; 4]; 4]) -> [[R; 3]; 3] {
    let mut o = [[ri::<R>(0); 3]; 3];
    for i in 0..3 {
        for j in 0..3 {
            o[i][j] = a[i][j];
        }
    }
    o
}
fn mat_close<const N: usize, R: RefNum>(a: [[R; N]; N], b: [[R; N]; N], tol: f64) -> bool {
    for i in 0..N {
        for j in 0..N {
            if !a[i][j].close(b[i][j], tol) {
                return false;
            }
        }
    }
    true
}
fn vec_close<const N: usize, R: RefNum>(a: [R; N], b: [R; N], tol: f64) -> bool {
    (0..N).all(|i| a[i].close(b[i], tol))
}
fn dot3<R: Mon>(a: [R; 3], b: [R; 3]) -> R {
    a[0].m_mul(b[0]).m_add(a[1].m_mul(b[1])).m_add(a[2].m_mul(b[2]))
}
fn cross3<R: Mon>(a: [R; 3], b: [R; 3]) -> [R; 3] {
    [
        a[1].m_mul(b[2]).m_sub(a[2].m_mul(b[1])),
        a[2].m_mul(b[0]).m_sub(a[0].m_mul(b[2])),
        a[0].m_mul(b[1]).m_sub(a[1].m_mul(b[0])),
    ]
}
/// Rodrigues' rotation formula: the image of v under the right-handed rotation by the angle with
/// (cos, sin) = (c, s) about the unit vector n:  c v + s (n x v) + (1-c)(n.v) n
fn rod_apply<R: Mon>(c: R, s: R, n: [R; 3], v: [R; 3]) -> [R; 3] {
    let nxv = cross3(n, v);
    let nv = dot3(n, v);
    let oc = ri::<R>(1).m_sub(c);
    let mut o = [ri::<R>(0); 3];
    for i in 0..3 {
        o[i] = c.m_mul(v[i]).m_add(s.m_mul(nxv[i])).m_add(oc.m_mul(nv).m_mul(n[i]));
    }
    o
}
/// the matrix whose columns are the Rodrigues images of the basis vectors
fn rod_mat<R: Mon>(c: R, s: R, n: [R; 3]) -> [[R; 3]; 3] {
    let mut o = [[ri::<R>(0); 3]; 3];
    for j in 0..3 {
        let mut e = [ri::<R>(0); 3];
        e[j] = ri::<R>(1);
        let col = rod_apply(c, s, n, e);
        for i in 0..3 {
            o[i][j] = col[i];
        }
    }
    o
}
/// Hamilton product of (x,y,z,w) quaternions, from i^2=j^2=k^2=ijk=-1
fn ham<R: Mon>(p: [R; 4], q: [R; 4]) -> [R; 4] {
    let [px, py, pz, pw] = p;
    let [qx, qy, qz, qw] = q;
    [
        pw.m_mul(qx).m_add(px.m_mul(qw)).m_add(py.m_mul(qz)).m_sub(pz.m_mul(qy)),
        pw.m_mul(qy).m_sub(px.m_mul(qz)).m_add(py.m_mul(qw)).m_add(pz.m_mul(qx)),
        pw.m_mul(qz).m_add(px.m_mul(qy)).m_sub(py.m_mul(qx)).m_add(pz.m_mul(qw)),
        pw.m_mul(qw).m_sub(px.m_mul(qx)).m_sub(py.m_mul(qy)).m_sub(pz.m_mul(qz)),
    ]
}
/// textbook rotation matrix of a unit quaternion (x,y,z,w), acting on column vectors
fn quat_mat<R: Mon>(q: [R; 4]) -> [[R; 3]; 3] {
    let [x, y, z, w] = q;
    let two = ri::<R>(2);
    let one = ri::<R>(1);
    let m = |a: R, b: R| a.m_mul(b);
    [
        [one.m_sub(two.m_mul(m(y, y).m_add(m(z, z)))), two.m_mul(m(x, y).m_sub(m(z, w))), two.m_mul(m(x, z).m_add(m(y, w)))],
        [two.m_mul(m(x, y).m_add(m(z, w))), one.m_sub(two.m_mul(m(x, x).m_add(m(z, z)))), two.m_mul(m(y, z).m_sub(m(x, w)))],
        [two.m_mul(m(x, z).m_sub(m(y, w))), two.m_mul(m(y, z).m_add(m(x, w))), one.m_sub(two.m_mul(m(x, x).m_add(m(y, y))))],
    ]
}
fn qraw<T: El>(q: &Quaternion<T>) -> [T::R; 4] {
    [q.x.r(), q.y.r(), q.z.r(), q.w.r()]
}

// ------------------------------------------------------------------ cases

struct Ang<T: El> {
    tok: T,
    c: T::R,
    s: T::R,
    ch: T::R,
    sh: T::R,
}
struct Case<T: El> {
    a: Ang<T>,
    b: Ang<T>,
    ab: Ang<T>,
    /// axis handed to vek, and the unit axis in reference arithmetic
    axis: [T; 3],
    n: [T::R; 3],
    /// k * axis, k > 0, and its unit axis in reference arithmetic
    axis_k: [T; 3],
    n_k: [T::R; 3],
    v: [T; 3],
    v2: [T; 2],
    m0: [[T; 4]; 4],
    q0: [T; 4],
    /// absolute tolerance on O(1) quantities (ignored by exact types)
    tol: f64,
    hash: u64,
    nontrivial: bool,
    nontrivial_axis: bool,
    desc: String,
}

fn quarter_tan(rng: &mut Rng) -> Q {
    match rng.below(16) {
        0 => Q::int(if rng.bool() { 1 } else { -1 }), // +-pi
        1 => Q::int(rng.range_i64(13, 30) * if rng.bool() { 1 } else { -1 }), // close to +-2pi
        2 => Q::frac(if rng.bool() { 1 } else { -1 }, rng.range_i64(8, 40)), // small angles
        _ => Q::frac(rng.range_i64(-12, 12), rng.range_i64(1, 7)),
    }
}

fn gen_q(rng: &mut Rng) -> Case<Q> {
    clear_angles();
    let ua = quarter_tan(rng);
    let ub = quarter_tan(rng);
    let a = angle_from_quarter_tan(ua);
    let b = angle_from_quarter_tan(ub);
    let ab = angle_sum(&a, &b);
    let (axis, len) = rational_length_vec3(rng, 3);
    let n = [axis[0] / len, axis[1] / len, axis[2] / len];
    // "the axis need not be normalized": a quarter of the scale factors are extreme (the squared
    // length of k*axis far below the element type's epsilon squared, or huge)
    let k = match rng.below(8) {
        0 => Q::frac(1, 1i64 << *rng.pick(&[30u32, 40, 53])),
        1 => Q::int(1i64 << *rng.pick(&[20u32, 30])),
        // an axis that is *almost* unit: |k*axis| = 1 +- 2^-m with 2^-m far below sqrt(epsilon).  A
        // shortcut that skips the normalisation of an "already unit" axis by tolerance leaves the
        // rotation non-orthogonal exactly here
        2 => (Q::ONE + Q::frac(if rng.bool() { 1 } else { -1 }, 1i64 << *rng.pick(&[27u32, 30, 40, 50]))) / len,
        _ => small_q_pos(rng, 7, 5),
    };
    let axis_k = [axis[0] * k, axis[1] * k, axis[2] * k];
    let v = [small_q(rng, 6, 3), small_q(rng, 6, 3), small_q(rng, 6, 3)];
    let v2 = [small_q(rng, 6, 3), small_q(rng, 6, 3)];
    let mut m0 = [[Q::ZERO; 4]; 4];
    for row in m0.iter_mut() {
        for e in row.iter_mut() {
            *e = small_q(rng, 5, 3);
        }
    }
    let q0 = [small_q(rng, 5, 3), small_q(rng, 5, 3), small_q(rng, 5, 3), small_q(rng, 5, 3)];
    let mut h = H64::new();
    h.u(ua.hash64()).u(ub.hash64()).u(k.hash64());
    for x in axis {
        h.u(x.hash64());
    }
    let desc = format!(
        "a: token {} ~ {:.6} rad, (cos,sin)=({},{}); b: token {} ~ {:.6} rad, (cos,sin)=({},{}); axis={:?} (length {}), k={}, v={:?}, v2={:?}",
        a.token, a.approx, a.c, a.s, b.token, b.approx, b.c, b.s, axis, len, k, v, v2
    );
    let nz = axis.iter().filter(|x| !x.is_zero()).count();
    Case {
        nontrivial: !a.s.is_zero() && !b.s.is_zero(),
        nontrivial_axis: nz >= 2,
        a: Ang { tok: a.token, c: a.c, s: a.s, ch: a.c_half, sh: a.s_half },
        b: Ang { tok: b.token, c: b.c, s: b.s, ch: b.c_half, sh: b.s_half },
        ab: Ang { tok: ab.token, c: ab.c, s: ab.s, ch: ab.c_half, sh: ab.s_half },
        axis,
        n,
        axis_k,
        n_k: n,
        v,
        v2,
        m0,
        q0,
        tol: 0.0,
        hash: h.get(),
        desc,
    }
}

fn gen_fp(rng: &mut Rng) -> Case<Fp> {
    fp_clear();
    let a = fp_random_angle(rng);
    let b = fp_random_angle(rng);
    let ab = fp_angle_sum(&a, &b);
    // an axis whose squared norm is a square r^2 in GF(p) (p = 3 mod 4: sqrt by one exponentiation);
    // r is declared to be the value sqrt returns, either of the two roots
    let (axis, r) = loop {
        let ax = [Fp::random(rng), Fp::random(rng), Fp::random(rng)];
        let s = ax[0].mul(ax[0]).add(ax[1].mul(ax[1])).add(ax[2].mul(ax[2]));
        if s.0 == 0 {
            continue;
        }
        let r = s.pow((P + 1) / 4);
        if r.mul(r) == s {
            break (ax, if rng.bool() { r } else { r.neg() });
        }
    };
    fp_register_root(r);
    let ri = r.inv().unwrap();
    let n = [axis[0].mul(ri), axis[1].mul(ri), axis[2].mul(ri)];
    // "k > 0" in a field without order: the root of |k axis|^2 is declared to be k r
    let k = Fp::random_nonzero(rng);
    fp_register_root(k.mul(r));
    let axis_k = [axis[0].mul(k), axis[1].mul(k), axis[2].mul(k)];
    let v = [Fp::random(rng), Fp::random(rng), Fp::random(rng)];
    let v2 = [Fp::random(rng), Fp::random(rng)];
    let mut m0 = [[Fp::ZERO; 4]; 4];
    for row in m0.iter_mut() {
        for e in row.iter_mut() {
            *e = Fp::random(rng);
        }
    }
    let q0 = [Fp::random(rng), Fp::random(rng), Fp::random(rng), Fp::random(rng)];
    let mut h = H64::new();
    h.u(a.token.0).u(a.c.0).u(b.token.0).u(b.c.0).u(axis[0].0).u(axis[1].0).u(axis[2].0).u(k.0);
    let desc = format!(
        "GF(2^61-1): a: token {} (cos,sin)=({},{}); b: token {} (cos,sin)=({},{}); axis={:?} with registered root {} of its squared norm, k={}, v={:?}",
        a.token, a.c, a.s, b.token, b.c, b.s, axis, r, k, v
    );
    Case {
        nontrivial: a.s.0 != 0 && b.s.0 != 0,
        nontrivial_axis: axis.iter().filter(|x| x.0 != 0).count() >= 2,
        a: Ang { tok: a.token, c: a.c, s: a.s, ch: a.c_half, sh: a.s_half },
        b: Ang { tok: b.token, c: b.c, s: b.s, ch: b.c_half, sh: b.s_half },
        ab: Ang { tok: ab.token, c: ab.c, s: ab.s, ch: ab.c_half, sh: ab.s_half },
        axis,
        n,
        axis_k,
        n_k: n,
        v,
        v2,
        m0,
        q0,
        tol: 0.0,
        hash: h.get(),
        desc,
    }
}

trait Fl: El<R = F> {
    const EPS: f64;
    fn of(x: f64) -> Self;
    fn to64(self) -> f64;
}
impl Fl for f32 {
    const EPS: f64 = f32::EPSILON as f64;
    fn of(x: f64) -> f32 {
        x as f32
    }
    fn to64(self) -> f64 {
        self as f64
    }
}
impl Fl for f64 {
    const EPS: f64 = f64::EPSILON;
    fn of(x: f64) -> f64 {
        x
    }
    fn to64(self) -> f64 {
        self
    }
}

fn fl_angle<T: Fl>(tok: T) -> Ang<T> {
    let a = tok.to64();
    Ang { tok, c: F(a.cos()), s: F(a.sin()), ch: F((a / 2.0).cos()), sh: F((a / 2.0).sin()) }
}
fn unit64<T: Fl>(v: [T; 3]) -> [F; 3] {
    let x = [v[0].to64(), v[1].to64(), v[2].to64()];
    let l = (x[0] * x[0] + x[1] * x[1] + x[2] * x[2]).sqrt();
    [F(x[0] / l), F(x[1] / l), F(x[2] / l)]
}

fn gen_float<T: Fl + std::ops::Add<Output = T> + std::ops::Mul<Output = T>>(rng: &mut Rng) -> Case<T> {
    use std::f64::consts::PI;
    let angle = |rng: &mut Rng| -> T {
        let x = match rng.below(8) {
            0 => rng.f64_in(-50.0, 50.0),                      // well beyond +-2pi
            1 => rng.f64_in(-1e-3, 1e-3),                      // tiny
            2 => rng.range_i64(-8, 8) as f64 * PI / 2.0,       // (rounded) multiples of pi/2
            3 => rng.f64_in(2.0 * PI, 4.0 * PI) * if rng.bool() { 1.0 } else { -1.0 },
            _ => rng.f64_in(-2.0 * PI, 2.0 * PI),
        };
        T::of(x)
    };
    let a = angle(rng);
    let b = angle(rng);
    let ab = a + b;
    // irrational-norm axis, magnitudes over several decades, some components exactly zero
    let axis: [T; 3] = loop {
        let scale = 10f64.powi(rng.range_i64(-4, 4) as i32);
        let mut c = [0.0f64; 3];
        if rng.chance(1, 5) {
            // small-integer lattice (added after seeded change C04_N): components tie in magnitude
            // ((1,1,0), (-3,3,0), (2,-2,2)), which a "pick the dominant component" step has to get right
            for x in c.iter_mut() {
                *x = rng.range_i64(-3, 3) as f64 * scale;
            }
        } else {
            for x in c.iter_mut() {
                *x = if rng.chance(1, 6) { 0.0 } else { rng.f64_in(-1.0, 1.0) * scale };
            }
        }
        let l = (c[0] * c[0] + c[1] * c[1] + c[2] * c[2]).sqrt();
        if l < 1e-2 * scale {
            continue; // zero (or nearly zero) axis is outside the property's domain
        }
        break [T::of(c[0]), T::of(c[1]), T::of(c[2])];
    };
    // a quarter of the scale factors are extreme: |k*axis| down to ~1e-14 (f32) / 1e-64 (f64), up to
    // the reciprocal; squares stay far from underflow and overflow
    let k = if rng.chance(1, 6) {
        // almost unit: |k*axis| = 1 +- 10^-u, u in 1.5..9 (for f32 sqrt(eps) = 3.5e-4, for f64 1.5e-8)
        let l = {
            let c = [axis[0].to64(), axis[1].to64(), axis[2].to64()];
            (c[0] * c[0] + c[1] * c[1] + c[2] * c[2]).sqrt()
        };
        T::of((1.0 + 10f64.powf(-rng.f64_in(1.5, 9.0)) * if rng.bool() { 1.0 } else { -1.0 }) / l)
    } else if rng.chance(1, 4) {
        let span = if T::EPS > 1e-10 { 10.0 } else { 60.0 };
        T::of(10f64.powf(rng.f64_in(-span, span)))
    } else {
        T::of(rng.f64_in(0.01, 100.0))
    };
    let axis_k = [axis[0] * k, axis[1] * k, axis[2] * k];
    let v = [T::of(rng.f64_in(-3.0, 3.0)), T::of(rng.f64_in(-3.0, 3.0)), T::of(rng.f64_in(-3.0, 3.0))];
    // a quarter of the 2-D vectors are very long or very short (their squared length is no ordinary number)
    let s2 = if rng.chance(1, 4) { 10f64.powf(if T::EPS > 1e-10 { rng.f64_in(-30.0, 30.0) } else { rng.f64_in(-250.0, 250.0) }) } else { 1.0 };
    let v2 = [T::of(rng.f64_in(-3.0, 3.0) * s2), T::of(rng.f64_in(-3.0, 3.0) * s2)];
    let mut m0 = [[T::of(0.0); 4]; 4];
    for row in m0.iter_mut() {
        for e in row.iter_mut() {
            *e = T::of(rng.f64_in(-2.0, 2.0));
        }
    }
    let q0 = [T::of(rng.f64_in(-1.0, 1.0)), T::of(rng.f64_in(-1.0, 1.0)), T::of(rng.f64_in(-1.0, 1.0)), T::of(rng.f64_in(-1.0, 1.0))];
    let mut h = H64::new();
    h.s(T::TY).f(a.to64()).f(b.to64()).f(axis[0].to64()).f(axis[1].to64()).f(axis[2].to64()).f(k.to64());
    let tol = 64.0 * T::EPS * (1.0 + a.to64().abs() + b.to64().abs());
    let desc = format!("a={:?} b={:?} a+b={:?} axis={:?} k={:?} v={:?} v2={:?} tol={:e}", a, b, ab, axis, k, v, v2, tol);
    Case {
        nontrivial: a.to64().sin().abs() > 1e-3 && b.to64().sin().abs() > 1e-3,
        nontrivial_axis: axis.iter().filter(|x| x.to64() != 0.0).count() >= 2,
        a: fl_angle(a),
        b: fl_angle(b),
        ab: fl_angle(ab),
        axis,
        n: unit64(axis),
        axis_k,
        n_k: unit64(axis_k),
        v,
        v2,
        m0,
        q0,
        tol,
        hash: h.get(),
        desc,
    }
}

// ------------------------------------------------------------------ one family of builders

/// the builders for one axis (x, y, z or an arbitrary one) in one layout, as closures over vek
struct Fam<'a, T: El, M4, M3> {
    name: &'static str,
    /// unit axis in reference arithmetic
    n: [T::R; 3],
    /// index of the basis vector whose image the statement pins, and that image as (cos,sin) slots:
    /// R_z e_x = (c,s,0), R_x e_y = (0,c,s), R_y e_z = (s,0,c)
    pinned: Option<(usize, [u8; 3])>,
    m4: &'a dyn Fn(T) -> M4,
    m3: &'a dyn Fn(T) -> M3,
    q: &'a dyn Fn(T) -> Quaternion<T>,
    m4_rotated: &'a dyn Fn(M4, T) -> M4,
    m4_rotate: &'a dyn Fn(&mut M4, T),
    m3_rotated: &'a dyn Fn(M3, T) -> M3,
    m3_rotate: &'a dyn Fn(&mut M3, T),
    q_rotated: &'a dyn Fn(Quaternion<T>, T) -> Quaternion<T>,
    q_rotate: &'a dyn Fn(&mut Quaternion<T>, T),
    /// the same constructors with the axis scaled by k > 0 (arbitrary-axis family only)
    scaled: Option<(&'a dyn Fn(T) -> M4, &'a dyn Fn(T) -> M3, &'a dyn Fn(T) -> Quaternion<T>, [T::R; 3])>,
}

type Fails = Vec<(String, &'static str, String)>;

fn finish(sub: &mut Sub, cfg: &Config, idx: u64, ty: &str, cs_desc: &str, hash: u64, nontrivial: bool, fails: Fails, sample: String) {
    if let Some(p) = take_poison() {
        sub.inconclusive(&format!("poison:{}", p));
        return;
    }
    if fails.is_empty() {
        sub.sample(|| sample);
        sub.held(hash, nontrivial);
        return;
    }
    let mut first = true;
    for (api, what, detail) in fails {
        let v = violation(PROP, sub, &api, ty, "wrong_value", what, format!("{} | inputs: {}", detail, cs_desc), cfg.case_seed(), idx);
        if first {
            sub.violated(v);
            first = false;
        } else {
            sub.add_violation(v);
        }
    }
}

/// run a vek call guarded; a panic is a violation (the property promises a value)
macro_rules! g {
    ($sub:expr, $cfg:expr, $idx:expr, $ty:expr, $cs:expr, $api:expr, $e:expr) => {{
        let api_s: String = $api;
        $sub.saw(&api_s);
        match guarded(|| $e) {
            Ok(v) => v,
            Err(e) => {
                let _ = take_poison();
                let v = violation(PROP, $sub, &api_s, $ty, "panic", "panic_in_rotation_builder", format!("panicked: {} | inputs: {}", e, $cs.desc), $cfg.case_seed(), $idx);
                $sub.violated(v);
                return;
            }
        }
    }};
}

fn check_family<T: El, M4, M3>(sub: &mut Sub, cfg: &Config, idx: u64, lay: &str, fam: &Fam<T, M4, M3>, cs: &Case<T>)
where
    M4: MatX<T> + Copy + From<Quaternion<T>>,
    M3: MatX<T> + Copy + From<Quaternion<T>>,
{
    let ty = format!("{}<{}>", lay, T::TY);
    let ty = ty.as_str();
    let mut fails: Fails = Vec::new();
    let api = |s: &str| format!("{}_{}", s, fam.name);
    let (a, b, ab) = (&cs.a, &cs.b, &cs.ab);
    let tol = cs.tol;
    let one = ri::<T::R>(1);
    let zero = ri::<T::R>(0);
    let n = fam.n;

    let r4 = g!(sub, cfg, idx, ty, cs, api("Mat4::rotation"), (fam.m4)(a.tok));
    let r3 = g!(sub, cfg, idx, ty, cs, api("Mat3::rotation"), (fam.m3)(a.tok));
    let qa = g!(sub, cfg, idx, ty, cs, api("Quaternion::rotation"), (fam.q)(a.tok));
    let a4: [[T::R; 4]; 4] = arr(&r4);
    let a3: [[T::R; 3]; 3] = arr(&r3);
    let a4b = block3(a4);
    let qa_raw = qraw(&qa);

    // the 4x4 matrix is the 3x3 one bordered by the identity
    let mut border_ok = true;
    for i in 0..4 {
        let d = if i == 3 { one } else { zero };
        border_ok &= a4[3][i].close(d, tol) && a4[i][3].close(d, tol);
    }
    if !border_ok {
        fails.push((api("Mat4::rotation"), "last_row_or_column_not_identity", format!("Mat4 = {:?}", a4)));
    }
    if !mat_close(a4b, a3, tol) {
        fails.push((api("Mat4::rotation"), "mat3_is_not_upper_left_block_of_mat4", format!("Mat3 = {:?}, Mat4 = {:?}", a3, a4)));
    }
    // orthogonal, determinant +1, axis fixed, right-handed sense: per matrix kind
    let rref = rod_mat(a.c, a.s, n);
    let rref_cw = rod_mat(a.c, a.s.m_neg(), n);
    for (kind, m) in [("Mat3", a3), ("Mat4", a4b)] {
        let this = api(&format!("{}::rotation", kind));
        if !mat_close(matmul(transpose(m), m), identity::<3, T::R>(), 4.0 * tol) {
            fails.push((this.clone(), "not_orthogonal", format!("R = {:?}, R^T R = {:?}", m, matmul(transpose(m), m))));
        }
        let d = det(m);
        if !d.close(one, 8.0 * tol) {
            fails.push((this.clone(), "determinant_not_plus_one", format!("R = {:?}, det R = {:?} (Leibniz)", m, d)));
        }
        if !vec_close(matvec(m, n), n, 4.0 * tol) {
            fails.push((this.clone(), "axis_not_fixed", format!("R = {:?}, unit axis n = {:?}, R n = {:?}", m, n, matvec(m, n))));
        }
        if let Some((e, slots)) = fam.pinned {
            let mut ev = [zero; 3];
            ev[e] = one;
            let pick = |s: u8| match s {
                1 => a.c,
                2 => a.s,
                _ => zero,
            };
            let exp = [pick(slots[0]), pick(slots[1]), pick(slots[2])];
            let got = matvec(m, ev);
            if !vec_close(got, exp, 2.0 * tol) {
                fails.push((this.clone(), "unit_vector_image_not_right_handed", format!("R e_{} = {:?}, expected {:?} with (cos,sin) = ({:?},{:?})", e, got, exp, a.c, a.s)));
            }
        }
        if !mat_close(m, rref, 4.0 * tol) {
            let what = if mat_close(m, rref_cw, 4.0 * tol) { "clockwise_for_positive_angle" } else { "differs_from_axis_angle_rotation" };
            fails.push((this.clone(), what, format!("R = {:?}, expected (c v + s n x v + (1-c)(n.v) n on the basis) {:?}", m, rref)));
        }
    }
    if kind_4x4_full_orthogonality_fails(a4, tol) {
        fails.push((api("Mat4::rotation"), "not_orthogonal", format!("full 4x4 R^T R != I, R = {:?}", a4)));
    }
    if !det(a4).close(one, 8.0 * tol) {
        fails.push((api("Mat4::rotation"), "determinant_not_plus_one", format!("4x4 det = {:?}, R = {:?}", det(a4), a4)));
    }

    // additivity for a common axis: R(a) R(b) = R(a+b)
    let r4b = g!(sub, cfg, idx, ty, cs, api("Mat4::rotation"), (fam.m4)(b.tok));
    let r4ab = g!(sub, cfg, idx, ty, cs, api("Mat4::rotation"), (fam.m4)(ab.tok));
    let r3b = g!(sub, cfg, idx, ty, cs, api("Mat3::rotation"), (fam.m3)(b.tok));
    let r3ab = g!(sub, cfg, idx, ty, cs, api("Mat3::rotation"), (fam.m3)(ab.tok));
    let (b4, ab4): ([[T::R; 4]; 4], [[T::R; 4]; 4]) = (arr(&r4b), arr(&r4ab));
    let (b3, ab3): ([[T::R; 3]; 3], [[T::R; 3]; 3]) = (arr(&r3b), arr(&r3ab));
    if !mat_close(matmul(a4, b4), ab4, 8.0 * tol) {
        fails.push((api("Mat4::rotation"), "not_additive_in_the_angle", format!("R(a) R(b) = {:?}, R(a+b) = {:?}", matmul(a4, b4), ab4)));
    }
    if !mat_close(matmul(a3, b3), ab3, 8.0 * tol) {
        fails.push((api("Mat3::rotation"), "not_additive_in_the_angle", format!("R(a) R(b) = {:?}, R(a+b) = {:?}", matmul(a3, b3), ab3)));
    }
    let qb = g!(sub, cfg, idx, ty, cs, api("Quaternion::rotation"), (fam.q)(b.tok));
    let qab = g!(sub, cfg, idx, ty, cs, api("Quaternion::rotation"), (fam.q)(ab.tok));
    if !mat_close(matmul(quat_mat(qa_raw), quat_mat(qraw(&qb))), quat_mat(qraw(&qab)), 16.0 * tol) {
        fails.push((api("Quaternion::rotation"), "not_additive_in_the_angle", format!("q(a) = {:?}, q(b) = {:?}, q(a+b) = {:?}: rotation of q(a) times rotation of q(b) is not that of q(a+b)", qa_raw, qraw(&qb), qraw(&qab))));
    }

    // quaternion: (n sin(a/2), cos(a/2)); its matrix equals the direct one
    let q_exp = [n[0].m_mul(a.sh), n[1].m_mul(a.sh), n[2].m_mul(a.sh), a.ch];
    if !vec_close(qa_raw, q_exp, 2.0 * tol) {
        fails.push((api("Quaternion::rotation"), "not_half_angle_axis_form", format!("q = {:?}, expected (n sin(a/2), cos(a/2)) = {:?}", qa_raw, q_exp)));
    }
    let m4q = g!(sub, cfg, idx, ty, cs, "Mat4::from(Quaternion)".to_string(), M4::from(qa));
    let m3q = g!(sub, cfg, idx, ty, cs, "Mat3::from(Quaternion)".to_string(), M3::from(qa));
    let m4q: [[T::R; 4]; 4] = arr(&m4q);
    let m3q: [[T::R; 3]; 3] = arr(&m3q);
    let textbook = quat_mat(qa_raw);
    if !mat_close(block3(m4q), textbook, 8.0 * tol) || !(0..4).all(|i| m4q[3][i].close(if i == 3 { one } else { zero }, tol) && m4q[i][3].close(if i == 3 { one } else { zero }, tol)) {
        fails.push(("Mat4::from(Quaternion)".to_string(), "not_the_textbook_quaternion_matrix", format!("q = {:?}, Mat4::from(q) = {:?}, textbook (column-vector convention) = {:?}", qa_raw, m4q, textbook)));
    }
    if !mat_close(m3q, textbook, 8.0 * tol) {
        fails.push(("Mat3::from(Quaternion)".to_string(), "not_the_textbook_quaternion_matrix", format!("q = {:?}, Mat3::from(q) = {:?}, textbook = {:?}", qa_raw, m3q, textbook)));
    }
    if !mat_close(m4q, a4, 8.0 * tol) {
        fails.push(("Mat4::from(Quaternion)".to_string(), "matrix_from_quaternion_differs_from_direct_matrix", format!("Mat4::from(Quaternion::rotation_{n}(a..)) = {:?}, Mat4::rotation_{n}(a..) = {:?}", m4q, a4, n = fam.name)));
    }
    if !mat_close(m3q, a3, 8.0 * tol) {
        fails.push(("Mat3::from(Quaternion)".to_string(), "matrix_from_quaternion_differs_from_direct_matrix", format!("Mat3::from(Quaternion::rotation_{n}(a..)) = {:?}, Mat3::rotation_{n}(a..) = {:?}", m3q, a3, n = fam.name)));
    }
    // q * v == R * v
    let v = cs.v;
    let qv = g!(sub, cfg, idx, ty, cs, "Mul<Vec3> for Quaternion".to_string(), qa * Vec3 { x: v[0], y: v[1], z: v[2] });
    let qv = [qv.x.r(), qv.y.r(), qv.z.r()];
    let vr = [v[0].r(), v[1].r(), v[2].r()];
    if !vec_close(qv, matvec(a3, vr), 32.0 * tol) {
        fails.push(("Mul<Vec3> for Quaternion".to_string(), "quaternion_rotates_vector_unlike_its_matrix", format!("q = {:?}, q*v = {:?}, Mat3::rotation_{}(a..) v = {:?}", qa_raw, qv, fam.name, matvec(a3, vr))));
    }

    // chained / in-place variants are rotation * self
    let tol_m = 32.0 * tol;
    let m0_4 = M4::from_fn(|i, j| cs.m0[i][j]);
    let m0_3 = M3::from_fn(|i, j| cs.m0[i][j]);
    let q0 = Quaternion { x: cs.q0[0], y: cs.q0[1], z: cs.q0[2], w: cs.q0[3] };
    let m0_4r: [[T::R; 4]; 4] = arr(&m0_4);
    let m0_3r: [[T::R; 3]; 3] = arr(&m0_3);
    let rd4 = g!(sub, cfg, idx, ty, cs, api("Mat4::rotated"), (fam.m4_rotated)(m0_4, a.tok));
    let rd4: [[T::R; 4]; 4] = arr(&rd4);
    if !mat_close(rd4, matmul(a4, m0_4r), tol_m) {
        fails.push((api("Mat4::rotated"), "chained_is_not_rotation_times_self", format!("self = {:?}, result = {:?}, rotation * self = {:?}", m0_4r, rd4, matmul(a4, m0_4r))));
    }
    let ip4 = g!(sub, cfg, idx, ty, cs, api("Mat4::rotate"), {
        let mut m = m0_4;
        (fam.m4_rotate)(&mut m, a.tok);
        m
    });
    if !mat_close(arr::<4, T, M4>(&ip4), rd4, tol_m) {
        fails.push((api("Mat4::rotate"), "in_place_differs_from_returning", format!("in place = {:?}, returning = {:?}", arr::<4, T, M4>(&ip4), rd4)));
    }
    let rd3 = g!(sub, cfg, idx, ty, cs, api("Mat3::rotated"), (fam.m3_rotated)(m0_3, a.tok));
    let rd3: [[T::R; 3]; 3] = arr(&rd3);
    if !mat_close(rd3, matmul(a3, m0_3r), tol_m) {
        fails.push((api("Mat3::rotated"), "chained_is_not_rotation_times_self", format!("self = {:?}, result = {:?}, rotation * self = {:?}", m0_3r, rd3, matmul(a3, m0_3r))));
    }
    let ip3 = g!(sub, cfg, idx, ty, cs, api("Mat3::rotate"), {
        let mut m = m0_3;
        (fam.m3_rotate)(&mut m, a.tok);
        m
    });
    if !mat_close(arr::<3, T, M3>(&ip3), rd3, tol_m) {
        fails.push((api("Mat3::rotate"), "in_place_differs_from_returning", format!("in place = {:?}, returning = {:?}", arr::<3, T, M3>(&ip3), rd3)));
    }
    let rdq = g!(sub, cfg, idx, ty, cs, api("Quaternion::rotated"), (fam.q_rotated)(q0, a.tok));
    let rdq = qraw(&rdq);
    let q0r = qraw(&q0);
    if !vec_close(rdq, ham(qa_raw, q0r), tol_m) {
        fails.push((api("Quaternion::rotated"), "chained_is_not_rotation_times_self", format!("self = {:?}, result = {:?}, Hamilton product rotation * self = {:?}", q0r, rdq, ham(qa_raw, q0r))));
    }
    let ipq = g!(sub, cfg, idx, ty, cs, api("Quaternion::rotate"), {
        let mut q = q0;
        (fam.q_rotate)(&mut q, a.tok);
        q
    });
    if !vec_close(qraw(&ipq), rdq, tol_m) {
        fails.push((api("Quaternion::rotate"), "in_place_differs_from_returning", format!("in place = {:?}, returning = {:?}", qraw(&ipq), rdq)));
    }

    // the axis need not be normalized: k * axis (k > 0) gives the same rotation
    if let Some((m4k, m3k, qk, n_k)) = &fam.scaled {
        let r4k = g!(sub, cfg, idx, ty, cs, api("Mat4::rotation"), m4k(a.tok));
        let r3k = g!(sub, cfg, idx, ty, cs, api("Mat3::rotation"), m3k(a.tok));
        let qk = g!(sub, cfg, idx, ty, cs, api("Quaternion::rotation"), qk(a.tok));
        let r4k: [[T::R; 4]; 4] = arr(&r4k);
        let r3k: [[T::R; 3]; 3] = arr(&r3k);
        let _ = n_k;
        if !mat_close(r4k, a4, 8.0 * tol) {
            fails.push((api("Mat4::rotation"), "result_depends_on_axis_length", format!("with axis: {:?}; with k*axis = {:?}: {:?}", a4, cs.axis_k, r4k)));
        }
        if !mat_close(r3k, a3, 8.0 * tol) {
            fails.push((api("Mat3::rotation"), "result_depends_on_axis_length", format!("with axis: {:?}; with k*axis = {:?}: {:?}", a3, cs.axis_k, r3k)));
        }
        if !vec_close(qraw(&qk), qa_raw, 8.0 * tol) {
            fails.push((api("Quaternion::rotation"), "result_depends_on_axis_length", format!("with axis: {:?}; with k*axis = {:?}: {:?}", qa_raw, cs.axis_k, qraw(&qk))));
        }
    }

    let mut h = H64::new();
    h.u(cs.hash).s(lay).s(fam.name);
    let nontrivial = cs.nontrivial && (fam.pinned.is_some() || cs.nontrivial_axis);
    let sample = format!("{} rotation_{}: Mat3 = {:?}, q = {:?} | {}", ty, fam.name, a3, qa_raw, clip(&cs.desc, 300));
    finish(sub, cfg, idx, ty, &cs.desc, h.get(), nontrivial, fails, sample);
}

fn kind_4x4_full_orthogonality_fails<R: RefNum>(a4: [[R; 4]; 4], tol: f64) -> bool {
    !mat_close(matmul(transpose(a4), a4), identity::<4, R>(), 4.0 * tol)
}

/// Mat2 and Vec2 (rotation about z only)
#[allow(clippy::too_many_arguments)]
fn check_2d<T: El, M2, M3>(
    sub: &mut Sub,
    cfg: &Config,
    idx: u64,
    lay: &str,
    cs: &Case<T>,
    m2: &dyn Fn(T) -> M2,
    m2_rotated: &dyn Fn(M2, T) -> M2,
    m2_rotate: &dyn Fn(&mut M2, T),
    m3z: &dyn Fn(T) -> M3,
) where
    M2: MatX<T> + Copy,
    M3: MatX<T> + Copy,
{
    let ty = format!("{}<{}>", lay, T::TY);
    let ty = ty.as_str();
    let mut fails: Fails = Vec::new();
    let (a, b, ab) = (&cs.a, &cs.b, &cs.ab);
    let tol = cs.tol;
    let one = ri::<T::R>(1);
    let r2 = g!(sub, cfg, idx, ty, cs, "Mat2::rotation_z".to_string(), m2(a.tok));
    let a2: [[T::R; 2]; 2] = arr(&r2);
    let this = "Mat2::rotation_z".to_string();
    if !mat_close(matmul(transpose(a2), a2), identity::<2, T::R>(), 4.0 * tol) {
        fails.push((this.clone(), "not_orthogonal", format!("R = {:?}", a2)));
    }
    if !det(a2).close(one, 8.0 * tol) {
        fails.push((this.clone(), "determinant_not_plus_one", format!("R = {:?}, det = {:?}", a2, det(a2))));
    }
    let ex = matvec(a2, [one, ri::<T::R>(0)]);
    if !vec_close(ex, [a.c, a.s], 2.0 * tol) {
        let what = if vec_close(ex, [a.c, a.s.m_neg()], 2.0 * tol) { "clockwise_for_positive_angle" } else { "unit_vector_image_not_right_handed" };
        fails.push((this.clone(), what, format!("R e_x = {:?}, expected (cos,sin) = ({:?},{:?})", ex, a.c, a.s)));
    }
    let r2b = g!(sub, cfg, idx, ty, cs, "Mat2::rotation_z".to_string(), m2(b.tok));
    let r2ab = g!(sub, cfg, idx, ty, cs, "Mat2::rotation_z".to_string(), m2(ab.tok));
    let (b2, ab2): ([[T::R; 2]; 2], [[T::R; 2]; 2]) = (arr(&r2b), arr(&r2ab));
    if !mat_close(matmul(a2, b2), ab2, 8.0 * tol) {
        fails.push((this.clone(), "not_additive_in_the_angle", format!("R(a) R(b) = {:?}, R(a+b) = {:?}", matmul(a2, b2), ab2)));
    }
    // Mat2 is the upper-left block of Mat3::rotation_z
    let r3 = g!(sub, cfg, idx, ty, cs, "Mat3::rotation_z".to_string(), m3z(a.tok));
    let a3: [[T::R; 3]; 3] = arr(&r3);
    if !mat_close(a2, [[a3[0][0], a3[0][1]], [a3[1][0], a3[1][1]]], tol) {
        fails.push((this.clone(), "mat2_is_not_upper_left_block_of_mat3", format!("Mat2 = {:?}, Mat3 = {:?}", a2, a3)));
    }
    // chained / in place
    let tol_m = 32.0 * tol;
    let m0 = M2::from_fn(|i, j| cs.m0[i][j]);
    let m0r: [[T::R; 2]; 2] = arr(&m0);
    let rd = g!(sub, cfg, idx, ty, cs, "Mat2::rotated_z".to_string(), m2_rotated(m0, a.tok));
    let rd: [[T::R; 2]; 2] = arr(&rd);
    if !mat_close(rd, matmul(a2, m0r), tol_m) {
        fails.push(("Mat2::rotated_z".to_string(), "chained_is_not_rotation_times_self", format!("self = {:?}, result = {:?}, rotation * self = {:?}", m0r, rd, matmul(a2, m0r))));
    }
    let ip = g!(sub, cfg, idx, ty, cs, "Mat2::rotate_z".to_string(), {
        let mut m = m0;
        m2_rotate(&mut m, a.tok);
        m
    });
    if !mat_close(arr::<2, T, M2>(&ip), rd, tol_m) {
        fails.push(("Mat2::rotate_z".to_string(), "in_place_differs_from_returning", format!("in place = {:?}, returning = {:?}", arr::<2, T, M2>(&ip), rd)));
    }
    // Vec2::rotated_z == Mat2 * v
    let v2 = cs.v2;
    let rv = g!(sub, cfg, idx, ty, cs, "Vec2::rotated_z".to_string(), Vec2 { x: v2[0], y: v2[1] }.rotated_z(a.tok));
    let rv = [rv.x.r(), rv.y.r()];
    let v2r = [v2[0].r(), v2[1].r()];
    // a rotation is linear: the error allowed is relative to the size of the vector, whatever that size
    // (the float generator draws lengths over the whole range of the type: seeded change C04_M)
    let tol = {
        let vs = v2r[0].approx_abs().max(v2r[1].approx_abs());
        if vs > 0.0 { tol * vs.max(f64::MIN_POSITIVE) } else { tol }
    };
    if !vec_close(rv, matvec(a2, v2r), 16.0 * tol) {
        fails.push(("Vec2::rotated_z".to_string(), "vector_rotation_differs_from_mat2_times_vector", format!("v = {:?}, v.rotated_z(a) = {:?}, Mat2::rotation_z(a) v = {:?}", v2r, rv, matvec(a2, v2r))));
    }
    if !vec_close(rv, [a.c.m_mul(v2r[0]).m_sub(a.s.m_mul(v2r[1])), a.s.m_mul(v2r[0]).m_add(a.c.m_mul(v2r[1]))], 16.0 * tol) {
        fails.push(("Vec2::rotated_z".to_string(), "not_counter_clockwise_rotation", format!("v = {:?}, v.rotated_z(a) = {:?}, (cos,sin) = ({:?},{:?})", v2r, rv, a.c, a.s)));
    }
    let rvi = g!(sub, cfg, idx, ty, cs, "Vec2::rotate_z".to_string(), {
        let mut v = Vec2 { x: v2[0], y: v2[1] };
        v.rotate_z(a.tok);
        v
    });
    if !vec_close([rvi.x.r(), rvi.y.r()], rv, 16.0 * tol) {
        fails.push(("Vec2::rotate_z".to_string(), "in_place_differs_from_returning", format!("in place = {:?}, returning = {:?}", [rvi.x.r(), rvi.y.r()], rv)));
    }
    let mut h = H64::new();
    h.u(cs.hash).s(lay).s("2d");
    let sample = format!("{} Mat2::rotation_z = {:?}, v2.rotated_z = {:?} | {}", ty, a2, rv, clip(&cs.desc, 300));
    finish(sub, cfg, idx, ty, &cs.desc, h.get(), cs.nontrivial, fails, sample);
}

macro_rules! fam_axis {
    ($lay:ident, $T:ident, $name:expr, $n:expr, $pinned:expr, $rot:ident, $rotated:ident, $rotate:ident) => {
        Fam::<$T, vek::mat::repr_c::$lay::Mat4<$T>, vek::mat::repr_c::$lay::Mat3<$T>> {
            name: $name,
            n: $n,
            pinned: Some($pinned),
            m4: &|a: $T| vek::mat::repr_c::$lay::Mat4::<$T>::$rot(a),
            m3: &|a: $T| vek::mat::repr_c::$lay::Mat3::<$T>::$rot(a),
            q: &|a: $T| Quaternion::<$T>::$rot(a),
            m4_rotated: &|m: vek::mat::repr_c::$lay::Mat4<$T>, a: $T| m.$rotated(a),
            m4_rotate: &|m: &mut vek::mat::repr_c::$lay::Mat4<$T>, a: $T| m.$rotate(a),
            m3_rotated: &|m: vek::mat::repr_c::$lay::Mat3<$T>, a: $T| m.$rotated(a),
            m3_rotate: &|m: &mut vek::mat::repr_c::$lay::Mat3<$T>, a: $T| m.$rotate(a),
            q_rotated: &|q: Quaternion<$T>, a: $T| q.$rotated(a),
            q_rotate: &|q: &mut Quaternion<$T>, a: $T| q.$rotate(a),
            scaled: None,
        }
    };
}

macro_rules! layout_fn {
    ($fname:ident, $lay:ident, $lname:expr) => {
        fn $fname<T: El>(sub: &mut Sub, cfg: &Config, idx: u64, cs: &Case<T>, which: u8) {
            let one = ri::<T::R>(1);
            let zero = ri::<T::R>(0);
            if which & 1 != 0 {
                // statement: R_z e_x = (c,s,0); right-handed analogues R_x e_y = (0,c,s), R_y e_z = (s,0,c)
                let fx = fam_axis!($lay, T, "x", [one, zero, zero], (1, [0, 1, 2]), rotation_x, rotated_x, rotate_x);
                check_family(sub, cfg, idx, $lname, &fx, cs);
                let fy = fam_axis!($lay, T, "y", [zero, one, zero], (2, [2, 0, 1]), rotation_y, rotated_y, rotate_y);
                check_family(sub, cfg, idx, $lname, &fy, cs);
                let fz = fam_axis!($lay, T, "z", [zero, zero, one], (0, [1, 2, 0]), rotation_z, rotated_z, rotate_z);
                check_family(sub, cfg, idx, $lname, &fz, cs);
                check_2d::<T, vek::mat::repr_c::$lay::Mat2<T>, vek::mat::repr_c::$lay::Mat3<T>>(
                    sub,
                    cfg,
                    idx,
                    $lname,
                    cs,
                    &|a: T| vek::mat::repr_c::$lay::Mat2::<T>::rotation_z(a),
                    &|m: vek::mat::repr_c::$lay::Mat2<T>, a: T| m.rotated_z(a),
                    &|m: &mut vek::mat::repr_c::$lay::Mat2<T>, a: T| m.rotate_z(a),
                    &|a: T| vek::mat::repr_c::$lay::Mat3::<T>::rotation_z(a),
                );
            }
            if which & 2 != 0 {
                let ax = cs.axis;
                let axk = cs.axis_k;
                let v = move || Vec3 { x: ax[0], y: ax[1], z: ax[2] };
                let vk = move || Vec3 { x: axk[0], y: axk[1], z: axk[2] };
                let f3 = Fam::<T, vek::mat::repr_c::$lay::Mat4<T>, vek::mat::repr_c::$lay::Mat3<T>> {
                    name: "3d",
                    n: cs.n,
                    pinned: None,
                    m4: &|a: T| vek::mat::repr_c::$lay::Mat4::<T>::rotation_3d(a, v()),
                    m3: &|a: T| vek::mat::repr_c::$lay::Mat3::<T>::rotation_3d(a, v()),
                    q: &|a: T| Quaternion::<T>::rotation_3d(a, v()),
                    m4_rotated: &|m: vek::mat::repr_c::$lay::Mat4<T>, a: T| m.rotated_3d(a, v()),
                    m4_rotate: &|m: &mut vek::mat::repr_c::$lay::Mat4<T>, a: T| m.rotate_3d(a, v()),
                    m3_rotated: &|m: vek::mat::repr_c::$lay::Mat3<T>, a: T| m.rotated_3d(a, v()),
                    m3_rotate: &|m: &mut vek::mat::repr_c::$lay::Mat3<T>, a: T| m.rotate_3d(a, v()),
                    q_rotated: &|q: Quaternion<T>, a: T| q.rotated_3d(a, v()),
                    q_rotate: &|q: &mut Quaternion<T>, a: T| q.rotate_3d(a, v()),
                    scaled: Some((
                        &|a: T| vek::mat::repr_c::$lay::Mat4::<T>::rotation_3d(a, vk()),
                        &|a: T| vek::mat::repr_c::$lay::Mat3::<T>::rotation_3d(a, vk()),
                        &|a: T| Quaternion::<T>::rotation_3d(a, vk()),
                        cs.n_k,
                    )),
                };
                check_family(sub, cfg, idx, $lname, &f3, cs);
            }
        }
    };
}
layout_fn!(run_rows, row_major, "Rows");
layout_fn!(run_cols, column_major, "Cols");

const XYZ_APIS: &[&str] = &[
    "Mat4::rotation_x", "Mat4::rotation_y", "Mat4::rotation_z", "Mat3::rotation_x", "Mat3::rotation_y", "Mat3::rotation_z",
    "Mat4::rotated_x", "Mat4::rotated_y", "Mat4::rotated_z", "Mat3::rotated_x", "Mat3::rotated_y", "Mat3::rotated_z",
    "Mat4::rotate_x", "Mat4::rotate_y", "Mat4::rotate_z", "Mat3::rotate_x", "Mat3::rotate_y", "Mat3::rotate_z",
    "Quaternion::rotation_x", "Quaternion::rotation_y", "Quaternion::rotation_z", "Quaternion::rotated_x", "Quaternion::rotated_y", "Quaternion::rotated_z",
    "Quaternion::rotate_x", "Quaternion::rotate_y", "Quaternion::rotate_z", "Mat2::rotation_z", "Mat2::rotated_z", "Mat2::rotate_z",
    "Vec2::rotated_z", "Vec2::rotate_z", "Mat4::from(Quaternion)", "Mat3::from(Quaternion)", "Mul<Vec3> for Quaternion",
];
const AXIS_APIS: &[&str] = &[
    "Mat4::rotation_3d", "Mat3::rotation_3d", "Quaternion::rotation_3d", "Mat4::rotated_3d", "Mat3::rotated_3d", "Quaternion::rotated_3d",
    "Mat4::rotate_3d", "Mat3::rotate_3d", "Quaternion::rotate_3d", "Mat4::from(Quaternion)", "Mat3::from(Quaternion)", "Mul<Vec3> for Quaternion",
];

const COMMON_RULE: &str = "Per case and layout (Rows/Cols) each builder family is one verdict: R^T R = I, Leibniz det = +1, R n = n, pinned right-hand images (R_z e_x=(c,s,0), R_x e_y=(0,c,s), R_y e_z=(s,0,c)), R equals Rodrigues' formula applied to the basis, R(a)R(b)=R(a+b), Mat3 = upper-left block of Mat4 with identity border, quaternion = (n sin a/2, cos a/2), Mat{3,4}::from(q) = textbook matrix = direct matrix, q*v = R v, rotated_*/rotate_* = rotation*self (in place == returning), Mat2/Vec2::rotated_z likewise; non-trivial = sin a != 0 and sin b != 0 (and for the arbitrary axis at least two non-zero components); distinct by hash of (angles, axis, k, layout, family).";

fn main() {
    let cfg = Config::from_args(PROP);
    let mut rep = Report::new(cfg.clone());
    let n_exact = cfg.n(6000, 400_000);
    let n_fp = cfg.n(6000, 400_000);
    let n_float = cfg.n(6000, 400_000);

    // ---- exact rationals
    {
        let proto = Sub::new("xyz_exact_q", &format!("rotation_x/y/z (Mat2/3/4, Quaternion, Vec2) on exact rationals Q: angles are registered tokens from u = tan(theta/4), u a small rational (theta in (-2pi,2pi), negative and +-pi included), a+b registered by the addition formulas. {}", COMMON_RULE))
            .with_floor(n_exact)
            .require(XYZ_APIS);
        let s = run_cases(&cfg, proto, n_exact, |s, i| {
            let mut rng = Rng::for_case("exact_q/case", cfg.case_seed(), i);
            let _ = take_poison();
            let cs = gen_q(&mut rng);
            if let Some(p) = take_poison() {
                s.inconclusive(&format!("poison_in_generator:{}", p));
                return;
            }
            run_rows::<Q>(s, &cfg, i, &cs, 1);
            run_cols::<Q>(s, &cfg, i, &cs, 1);
        });
        rep.push(s);
    }
    {
        let proto = Sub::new("axis3d_exact_q", &format!("rotation_3d/rotated_3d/rotate_3d (Mat3/4, Quaternion) on exact rationals Q: registered angles as in xyz_exact_q; axis = rational-length vector (a column of a rational rotation times a rational length) so that vek's sqrt is exact, and k*axis with rational k>0 (a quarter of them 2^-30..2^-53 or 2^20..2^30) must give the same result. {}", COMMON_RULE))
            .with_floor(n_exact / 2)
            .require(AXIS_APIS);
        let s = run_cases(&cfg, proto, n_exact, |s, i| {
            let mut rng = Rng::for_case("exact_q/case", cfg.case_seed(), i);
            let _ = take_poison();
            let cs = gen_q(&mut rng);
            if let Some(p) = take_poison() {
                s.inconclusive(&format!("poison_in_generator:{}", p));
                return;
            }
            run_rows::<Q>(s, &cfg, i, &cs, 2);
            run_cols::<Q>(s, &cfg, i, &cs, 2);
        });
        rep.push(s);
    }
    // ---- GF(2^61-1)
    {
        let proto = Sub::new("xyz_fp", &format!("rotation_x/y/z on random points of GF(2^61-1): a random point (c,s) of the unit circle under a random token (half angle registered too), i.e. the identities of Q[c,s]/(c^2+s^2-1) at unbounded depth; only branch-free code (a comparison would poison). {}", COMMON_RULE))
            .with_floor(n_fp)
            .require(XYZ_APIS);
        let s = run_cases(&cfg, proto, n_fp, |s, i| {
            let mut rng = Rng::for_case("fp/case", cfg.case_seed(), i);
            let _ = take_poison();
            let cs = gen_fp(&mut rng);
            if let Some(p) = take_poison() {
                s.inconclusive(&format!("poison_in_generator:{}", p));
                return;
            }
            run_rows::<Fp>(s, &cfg, i, &cs, 1);
            run_cols::<Fp>(s, &cfg, i, &cs, 1);
        });
        rep.push(s);
    }
    {
        let proto = Sub::new("axis3d_fp", &format!("rotation_3d on random points of GF(2^61-1): random axis (x,y,z) whose squared norm is a square, one of its roots r registered as the value of sqrt (k*axis: root k r), i.e. the identities of Q[x,y,z,r,c,s]/(s^2+c^2-1, r^2-x^2-y^2-z^2). {}", COMMON_RULE))
            .with_floor(n_fp / 2)
            .require(AXIS_APIS);
        let s = run_cases(&cfg, proto, n_fp, |s, i| {
            let mut rng = Rng::for_case("fp/case", cfg.case_seed(), i);
            let _ = take_poison();
            let cs = gen_fp(&mut rng);
            if let Some(p) = take_poison() {
                s.inconclusive(&format!("poison_in_generator:{}", p));
                return;
            }
            run_rows::<Fp>(s, &cfg, i, &cs, 2);
            run_cols::<Fp>(s, &cfg, i, &cs, 2);
        });
        rep.push(s);
    }
    // ---- floats
    {
        let proto = Sub::new("xyz_float", &format!("rotation_x/y/z on f32 and f64: angles uniform in (-2pi,2pi), in +-(2pi,4pi), in (-50,50), tiny, and rounded multiples of pi/2; reference cos/sin computed in f64 from the exact value of the angle passed; absolute tolerance 64*eps*(1+|a|+|b|) times a small per-relation constant. {}", COMMON_RULE))
            .with_floor(n_float)
            .require(XYZ_APIS);
        let s = run_cases(&cfg, proto, n_float, |s, i| {
            let mut rng = Rng::for_case("float/case32", cfg.case_seed(), i);
            let cs = gen_float::<f32>(&mut rng);
            run_rows::<f32>(s, &cfg, i, &cs, 1);
            run_cols::<f32>(s, &cfg, i, &cs, 1);
            let mut rng = Rng::for_case("float/case64", cfg.case_seed(), i);
            let cs = gen_float::<f64>(&mut rng);
            run_rows::<f64>(s, &cfg, i, &cs, 1);
            run_cols::<f64>(s, &cfg, i, &cs, 1);
        });
        rep.push(s);
    }
    {
        let proto = Sub::new("axis3d_float", &format!("rotation_3d on f32 and f64: angles as in xyz_float; axes with irrational norm, magnitudes 1e-4..1e4, some components exactly zero, zero axis excluded (outside the property's domain); k*axis with k in (0.01,100) and, for a quarter of the cases, k = 10^u with |u| up to 10 (f32) / 60 (f64); unit axis of the reference computed in f64. {}", COMMON_RULE))
            .with_floor(n_float / 2)
            .require(AXIS_APIS);
        let s = run_cases(&cfg, proto, n_float, |s, i| {
            let mut rng = Rng::for_case("float/case32", cfg.case_seed(), i);
            let cs = gen_float::<f32>(&mut rng);
            run_rows::<f32>(s, &cfg, i, &cs, 2);
            run_cols::<f32>(s, &cfg, i, &cs, 2);
            let mut rng = Rng::for_case("float/case64", cfg.case_seed(), i);
            let cs = gen_float::<f64>(&mut rng);
            run_rows::<f64>(s, &cfg, i, &cs, 2);
            run_cols::<f64>(s, &cfg, i, &cs, 2);
        });
        rep.push(s);
    }
    std::process::exit(rep.finish());
}

//! C20 (behaviour half) — numeric lifts, casts, approximate equality and the optional
//! interop conversions are per-element.
//!
//! Oracle everywhere: the *scalar* operation (std / num-traits / az / approx on the scalars)
//! applied to each element that the harness itself put into the container through the raw
//! public fields (`VecX`, `MatX`), compared with what vek's lifted operation returns, read back
//! through the raw public fields.  Whole-container outcomes: a checked form is `None` exactly
//! when some element's scalar form is `None`; an overflow flag is set exactly when some element
//! overflows; a non-checked form panics exactly when some element's scalar form panics; an
//! approximate equality holds exactly when it holds for every pair of corresponding elements.
//!
//! Built only with `--features interop` (vek's `az`, `mint`, `bytemuck`).
//! Helpers that would belong in `props`/`monitors` but live here: `IntEl`/`FloatEl` element
//! traits, the work-item scheduler of the lane sweep, the mint matrix builders/readers.
#![allow(clippy::all)]
#![allow(unused_macros, unused_imports, dead_code, unused_variables, unused_mut)]

use approx::{AbsDiffEq, RelativeEq, UlpsEq};
use monitors::prng::{Rng, H64};
use monitors::report::{guarded, parallel, run_cases, Config, Report, Sub};
use num_traits::ops::checked::{CheckedAdd, CheckedDiv, CheckedMul, CheckedNeg, CheckedRem, CheckedSub};
use num_traits::ops::euclid::{CheckedEuclid, Euclid};
use num_traits::ops::inv::Inv;
use num_traits::ops::overflowing::{OverflowingAdd, OverflowingMul, OverflowingSub};
use num_traits::ops::saturating::{SaturatingAdd, SaturatingMul, SaturatingSub};
use num_traits::ops::wrapping::{WrappingAdd, WrappingMul, WrappingNeg, WrappingSub};
use num_traits::{NumCast, One, Zero};
use props::*;
use std::fmt::Debug;
use std::sync::atomic::{AtomicUsize, Ordering};
use vek::geom::repr_c::{Aabb, Aabr, LineSegment2, LineSegment3, Rect, Rect3};
use vek::quaternion::repr_c::Quaternion;
use vek::vec::repr_c::*;

const PROP: &str = "C20";

const KINDS: [&str; 13] = ["Vec2", "Vec3", "Vec4", "Vec8", "Vec16", "Vec32", "Vec64", "Extent2", "Extent3", "Rgb", "Rgba", "Uv", "Uvw"];
const MATS: [&str; 6] = ["Rows2", "Rows3", "Rows4", "Cols2", "Cols3", "Cols4"];

/// `require` every `<prefix>::<op>` combination
fn req_all(mut sub: Sub, prefixes: &[&str], ops: &[&str]) -> Sub {
    for p in prefixes {
        for o in ops {
            sub.required.push(format!("{}::{}", p, o));
        }
    }
    sub
}

/// the 13 kinds except the two biggest (used where many element types are instantiated)
macro_rules! for_small_vec_kinds {
    ($m:ident) => {
        $m!{Vec2} $m!{Vec3} $m!{Vec4} $m!{Vec8} $m!{Vec16}
        $m!{Extent2} $m!{Extent3} $m!{Rgb} $m!{Rgba} $m!{Uv} $m!{Uvw}
    };
}

fn fmt_v<T: Copy + Debug, V: VecX<T>>(v: &V) -> String {
    format!("{:?}", v.to_vec())
}

// ====================================================================================
// 1. integer lifts

trait IntEl:
    Copy
    + Eq
    + Debug
    + Send
    + Sync
    + 'static
    + CheckedAdd
    + CheckedSub
    + CheckedMul
    + CheckedDiv
    + CheckedRem
    + CheckedNeg
    + WrappingAdd
    + WrappingSub
    + WrappingMul
    + WrappingNeg
    + SaturatingAdd
    + SaturatingSub
    + SaturatingMul
    + OverflowingAdd
    + OverflowingSub
    + OverflowingMul
    + Euclid
    + CheckedEuclid
    + Zero
    + One
{
    const NAME: &'static str;
    const SIGNED: bool;
    fn lo() -> Self;
    fn hi() -> Self;
    /// `x as Self` (wrapping)
    fn wrap_from(x: i128) -> Self;
    fn wide(self) -> i128;
}
macro_rules! int_el {
    ($($T:ty, $signed:expr);+) => {$(
        impl IntEl for $T {
            const NAME: &'static str = stringify!($T);
            const SIGNED: bool = $signed;
            fn lo() -> Self { <$T>::MIN }
            fn hi() -> Self { <$T>::MAX }
            fn wrap_from(x: i128) -> Self { x as $T }
            fn wide(self) -> i128 { self as i128 }
        }
    )+};
}
int_el!(i8, true; u8, false; i16, true; i32, true; i64, true; u32, false);

trait IntVec<T: IntEl>:
    VecX<T>
    + Copy
    + Debug
    + CheckedAdd
    + CheckedSub
    + CheckedMul
    + CheckedDiv
    + CheckedRem
    + CheckedNeg
    + WrappingAdd
    + WrappingSub
    + WrappingMul
    + WrappingNeg
    + SaturatingAdd
    + SaturatingSub
    + SaturatingMul
    + OverflowingAdd
    + OverflowingSub
    + OverflowingMul
    + Euclid
    + CheckedEuclid
{
}
impl<T: IntEl, V> IntVec<T> for V where
    V: VecX<T>
        + Copy
        + Debug
        + CheckedAdd
        + CheckedSub
        + CheckedMul
        + CheckedDiv
        + CheckedRem
        + CheckedNeg
        + WrappingAdd
        + WrappingSub
        + WrappingMul
        + WrappingNeg
        + SaturatingAdd
        + SaturatingSub
        + SaturatingMul
        + OverflowingAdd
        + OverflowingSub
        + OverflowingMul
        + Euclid
        + CheckedEuclid
{
}

const BIN_OPS: [&str; 14] = [
    "checked_add",
    "checked_sub",
    "checked_mul",
    "checked_div",
    "checked_rem",
    "wrapping_add",
    "wrapping_sub",
    "wrapping_mul",
    "saturating_add",
    "saturating_sub",
    "saturating_mul",
    "overflowing_add",
    "overflowing_sub",
    "overflowing_mul",
];
const CHK_EUCLID_OPS: [&str; 2] = ["checked_div_euclid", "checked_rem_euclid"];
const EUCLID_OPS: [&str; 2] = ["div_euclid", "rem_euclid"];
const UN_OPS: [&str; 2] = ["checked_neg", "wrapping_neg"];

struct Fail {
    op: &'static str,
    class: &'static str,
    what: &'static str,
    detail: String,
}

#[derive(Default, Clone, Copy)]
struct OpCnt {
    bin: u64,
    euclid: u64,
    un: u64,
}
impl OpCnt {
    fn flush(&self, sub: &mut Sub, kind: &str) {
        if self.bin > 0 {
            for o in BIN_OPS.iter().chain(CHK_EUCLID_OPS.iter()) {
                sub.saw_n(&format!("{}::{}", kind, o), self.bin);
            }
        }
        if self.euclid > 0 {
            for o in EUCLID_OPS {
                sub.saw_n(&format!("{}::{}", kind, o), self.euclid);
            }
        }
        if self.un > 0 {
            for o in UN_OPS {
                sub.saw_n(&format!("{}::{}", kind, o), self.un);
            }
        }
    }
}

/// does the scalar Euclidean division/remainder panic for these operands?
fn euclid_pred<T: IntEl>(a: T, b: T) -> bool {
    b.is_zero() || (T::SIGNED && a == T::lo() && b.wide() == -1)
}
/// scalar `div_euclid`/`rem_euclid`; `None` = the scalar call panicked (it is really executed)
fn s_euclid<T: IntEl>(a: T, b: T, rem: bool) -> Option<T> {
    if euclid_pred(a, b) {
        guarded(|| if rem { Euclid::rem_euclid(&a, &b) } else { Euclid::div_euclid(&a, &b) }).ok()
    } else if rem {
        Some(Euclid::rem_euclid(&a, &b))
    } else {
        Some(Euclid::div_euclid(&a, &b))
    }
}

/// All binary integer lifts on one operand pair.  Returns, for every lifted op, its first
/// disagreement with the per-lane scalar results (every op is executed whatever the others do).  `run_euclid_panics`: also execute the non-checked Euclid forms
/// when some lane's scalar form panics (each such execution costs three unwinds).
fn check_bin_ops<T: IntEl, V: IntVec<T>>(va: &V, vb: &V, aa: &[T], bb: &[T], run_euclid_panics: bool, cnt: &mut OpCnt) -> Vec<Fail> {
    let n = V::DIM;
    // `aa`/`bb` are the values the caller put into `va`/`vb` (lane order); results are read
    // back through the raw fields into `gg`
    let aa = &aa[..n];
    let bb = &bb[..n];
    let mut gg = [T::zero(); 64];
    // does some lane's scalar Euclidean division panic?
    let pred_any = (0..n).any(|k| euclid_pred(aa[k], bb[k]));
    macro_rules! read_back {
        ($g:expr) => {
            for k in 0..n {
                gg[k] = $g.get(k);
            }
        };
    }
    // lane k alone, all other lanes hold the neutral pair (1,1)
    let isolate = |k: usize| -> (V, V) {
        (V::from_fn(|i| if i == k { va.get(i) } else { T::one() }), V::from_fn(|i| if i == k { vb.get(i) } else { T::one() }))
    };
    macro_rules! lane_fail {
        ($op:expr, $k:expr, $got:expr, $exp:expr, $call:expr) => {{
            let (xa, xb) = isolate($k);
            let f = $call;
            let alone: Option<T> = guarded(|| f(&xa, &xb)).ok().flatten();
            let what = if alone == Some($exp) { "cross_lane_influence" } else { "lane_value" };
            Fail {
                op: $op,
                class: "wrong_value",
                what,
                detail: format!(
                    "{}: lane {} of the result is {:?}; the scalar op on that lane's operands ({:?}, {:?}) gives {:?} (same lane with all other lanes = (1,1): {:?}); a={} b={}",
                    $op,
                    $k,
                    $got,
                    va.get($k),
                    vb.get($k),
                    $exp,
                    alone,
                    fmt_v(va),
                    fmt_v(vb)
                ),
            }
        }};
    }
    macro_rules! panic_fail {
        ($op:expr, $p:expr) => {
            Fail { op: $op, class: "panic", what: "panic_where_value_promised", detail: format!("{}: panicked ({}) ; a={} b={}", $op, $p, fmt_v(va), fmt_v(vb)) }
        };
    }
    macro_rules! val_op {
        ($name:expr, $Tr:ident, $m:ident) => {
            match guarded(|| <V as $Tr>::$m(va, vb)) {
                Err(p) => return Some(panic_fail!($name, p)),
                Ok(g) => {
                    read_back!(g);
                    for k in 0..n {
                        let e = <T as $Tr>::$m(&aa[k], &bb[k]);
                        if gg[k] != e {
                            return Some(lane_fail!($name, k, gg[k], e, |x: &V, y: &V| Some(<V as $Tr>::$m(x, y).get(k))));
                        }
                    }
                }
            }
        };
    }
    macro_rules! chk_op {
        ($name:expr, $Tr:ident, $m:ident) => {{
            let mut bad_lane = None;
            for k in 0..n {
                if <T as $Tr>::$m(&aa[k], &bb[k]).is_none() {
                    bad_lane = Some(k);
                    break;
                }
            }
            match guarded(|| <V as $Tr>::$m(va, vb)) {
                Err(p) => return Some(panic_fail!($name, p)),
                Ok(None) => {
                    if bad_lane.is_none() {
                        return Some(Fail { op: $name, class: "wrong_value", what: "none_iff_some_lane_fails", detail: format!("{}: returned None but the scalar op is Some on every lane; a={} b={}", $name, fmt_v(va), fmt_v(vb)) });
                    }
                }
                Ok(Some(g)) => {
                    if let Some(k) = bad_lane {
                        return Some(Fail {
                            op: $name,
                            class: "wrong_value",
                            what: "none_iff_some_lane_fails",
                            detail: format!("{}: returned Some({}) but the scalar op on lane {} ({:?}, {:?}) is None; a={} b={}", $name, fmt_v(&g), k, va.get(k), vb.get(k), fmt_v(va), fmt_v(vb)),
                        });
                    }
                    read_back!(g);
                    for k in 0..n {
                        let e = <T as $Tr>::$m(&aa[k], &bb[k]).unwrap();
                        if gg[k] != e {
                            return Some(lane_fail!($name, k, gg[k], e, |x: &V, y: &V| <V as $Tr>::$m(x, y).map(|r| r.get(k))));
                        }
                    }
                }
            }
        }};
    }
    macro_rules! ovf_op {
        ($name:expr, $Tr:ident, $m:ident) => {
            match guarded(|| <V as $Tr>::$m(va, vb)) {
                Err(p) => return Some(panic_fail!($name, p)),
                Ok((g, flag)) => {
                    let mut any = None;
                    read_back!(g);
                    for k in 0..n {
                        let (e, o) = <T as $Tr>::$m(&aa[k], &bb[k]);
                        if o && any.is_none() {
                            any = Some(k);
                        }
                        if gg[k] != e {
                            return Some(lane_fail!($name, k, gg[k], e, |x: &V, y: &V| Some(<V as $Tr>::$m(x, y).0.get(k))));
                        }
                    }
                    if flag != any.is_some() {
                        return Some(Fail {
                            op: $name,
                            class: "wrong_value",
                            what: "overflow_flag",
                            detail: format!("{}: overflow flag is {} but {}; a={} b={}", $name, flag, match any { Some(k) => format!("the scalar op overflows on lane {}", k), None => "no lane overflows".to_string() }, fmt_v(va), fmt_v(vb)),
                        });
                    }
                }
            }
        };
    }
    macro_rules! euclid_op {
        ($name:expr, $m:ident, $rem:expr) => {{
            if !pred_any || run_euclid_panics {
                let mut panic_lane = None;
                if pred_any {
                    for k in 0..n {
                        if s_euclid(aa[k], bb[k], $rem).is_none() {
                            panic_lane = Some(k);
                            break;
                        }
                    }
                }
                match guarded(|| <V as Euclid>::$m(va, vb)) {
                    Err(p) => {
                        if panic_lane.is_none() {
                            return Some(Fail { op: $name, class: "panic", what: "panic_iff_some_lane_panics", detail: format!("{}: panicked ({}) but the scalar op panics on no lane; a={} b={}", $name, p, fmt_v(va), fmt_v(vb)) });
                        }
                    }
                    Ok(g) => {
                        if let Some(k) = panic_lane {
                            return Some(Fail {
                                op: $name,
                                class: "missing_panic",
                                what: "panic_iff_some_lane_panics",
                                detail: format!("{}: returned {} but the scalar op panics on lane {} ({:?}, {:?}); a={} b={}", $name, fmt_v(&g), k, va.get(k), vb.get(k), fmt_v(va), fmt_v(vb)),
                            });
                        }
                        read_back!(g);
                        for k in 0..n {
                            let e = <T as Euclid>::$m(&aa[k], &bb[k]);
                            if gg[k] != e {
                                return Some(lane_fail!($name, k, gg[k], e, |x: &V, y: &V| Some(<V as Euclid>::$m(x, y).get(k))));
                            }
                        }
                    }
                }
            }
        }};
    }
    cnt.bin += 1;
    let mut fails: Vec<Fail> = Vec::new();
    // each op runs in its own closure so that `return Some(..)` in the op macros ends that op only
    macro_rules! run {
        ($body:expr) => {
            if let Some(f) = (|| -> Option<Fail> {
                $body;
                None
            })() {
                fails.push(f);
            }
        };
    }
    run!(chk_op!("checked_add", CheckedAdd, checked_add));
    run!(chk_op!("checked_sub", CheckedSub, checked_sub));
    run!(chk_op!("checked_mul", CheckedMul, checked_mul));
    run!(chk_op!("checked_div", CheckedDiv, checked_div));
    run!(chk_op!("checked_rem", CheckedRem, checked_rem));
    run!(val_op!("wrapping_add", WrappingAdd, wrapping_add));
    run!(val_op!("wrapping_sub", WrappingSub, wrapping_sub));
    run!(val_op!("wrapping_mul", WrappingMul, wrapping_mul));
    run!(val_op!("saturating_add", SaturatingAdd, saturating_add));
    run!(val_op!("saturating_sub", SaturatingSub, saturating_sub));
    run!(val_op!("saturating_mul", SaturatingMul, saturating_mul));
    run!(ovf_op!("overflowing_add", OverflowingAdd, overflowing_add));
    run!(ovf_op!("overflowing_sub", OverflowingSub, overflowing_sub));
    run!(ovf_op!("overflowing_mul", OverflowingMul, overflowing_mul));
    run!(chk_op!("checked_div_euclid", CheckedEuclid, checked_div_euclid));
    run!(chk_op!("checked_rem_euclid", CheckedEuclid, checked_rem_euclid));
    if !pred_any || run_euclid_panics {
        cnt.euclid += 1;
    }
    run!(euclid_op!("div_euclid", div_euclid, false));
    run!(euclid_op!("rem_euclid", rem_euclid, true));
    fails
}

/// The unary integer lifts (`checked_neg`, `wrapping_neg`).
fn check_un_ops<T: IntEl, V: IntVec<T>>(va: &V, cnt: &mut OpCnt) -> Vec<Fail> {
    let n = V::DIM;
    cnt.un += 1;
    let isolate = |k: usize| -> V { V::from_fn(|i| if i == k { va.get(i) } else { T::zero() }) };
    let mut fails: Vec<Fail> = Vec::new();
    // checked_neg
    let first = (|| -> Option<Fail> {
    let mut bad_lane = None;
    for k in 0..n {
        if <T as CheckedNeg>::checked_neg(va.at(k)).is_none() {
            bad_lane = Some(k);
            break;
        }
    }
    match guarded(|| <V as CheckedNeg>::checked_neg(va)) {
        Err(p) => return Some(Fail { op: "checked_neg", class: "panic", what: "panic_where_value_promised", detail: format!("checked_neg panicked ({}); a={}", p, fmt_v(va)) }),
        Ok(None) => {
            if bad_lane.is_none() {
                return Some(Fail { op: "checked_neg", class: "wrong_value", what: "none_iff_some_lane_fails", detail: format!("checked_neg: None but every lane's scalar checked_neg is Some; a={}", fmt_v(va)) });
            }
        }
        Ok(Some(g)) => {
            if let Some(k) = bad_lane {
                return Some(Fail { op: "checked_neg", class: "wrong_value", what: "none_iff_some_lane_fails", detail: format!("checked_neg: Some({}) but lane {} ({:?}) has scalar checked_neg None; a={}", fmt_v(&g), k, va.get(k), fmt_v(va)) });
            }
            for k in 0..n {
                let e = <T as CheckedNeg>::checked_neg(va.at(k)).unwrap();
                if g.get(k) != e {
                    let alone = guarded(|| <V as CheckedNeg>::checked_neg(&isolate(k)).map(|r| r.get(k))).ok().flatten();
                    let what = if alone == Some(e) { "cross_lane_influence" } else { "lane_value" };
                    return Some(Fail { op: "checked_neg", class: "wrong_value", what, detail: format!("checked_neg: lane {} is {:?}, scalar gives {:?}; a={}", k, g.get(k), e, fmt_v(va)) });
                }
            }
        }
    }
    None
    })();
    fails.extend(first);
    let second = (|| -> Option<Fail> {
    match guarded(|| <V as WrappingNeg>::wrapping_neg(va)) {
        Err(p) => return Some(Fail { op: "wrapping_neg", class: "panic", what: "panic_where_value_promised", detail: format!("wrapping_neg panicked ({}); a={}", p, fmt_v(va)) }),
        Ok(g) => {
            for k in 0..n {
                let e = <T as WrappingNeg>::wrapping_neg(va.at(k));
                if g.get(k) != e {
                    let alone = guarded(|| <V as WrappingNeg>::wrapping_neg(&isolate(k)).get(k)).ok();
                    let what = if alone == Some(e) { "cross_lane_influence" } else { "lane_value" };
                    return Some(Fail { op: "wrapping_neg", class: "wrong_value", what, detail: format!("wrapping_neg: lane {} is {:?}, scalar gives {:?}; a={}", k, g.get(k), e, fmt_v(va)) });
                }
            }
        }
    }
    None
    })();
    fails.extend(second);
    fails
}

// ------------------------------------------------------------------------------------
// 1a. exhaustive 8-bit lane sweep

const SWEEP_VARIANTS: usize = 6;
const VARIANT_NAMES: [&str; 6] = ["others_benign", "other_lane_(MAX,MAX)", "other_lane_(MIN,1)", "other_lane_(MAX,0)", "unary_others_zero", "unary_other_lane_fails"];

fn sweep_item_id(kind_idx: usize, lane: usize, ty_idx: usize, variant: usize) -> u64 {
    (((kind_idx * 64 + lane) * 2 + ty_idx) * 8 + variant) as u64
}

/// One work item: lane `lane` of kind `V` runs over all 256x256 operand pairs (variants 0..4)
/// or all 256 operands (variants 4, 5) of the 8-bit type `T`.
fn sweep_item<T: IntEl, V: IntVec<T>>(cfg: &Config, sub: &mut Sub, item: u64, lane: usize, variant: usize, only_pair: Option<u32>) {
    let n = V::DIM;
    let kind = V::NAME;
    let o1 = (lane + 1) % n;
    let o2 = (lane + n - 1) % n;
    let (one, zero, lo, hi) = (T::one(), T::zero(), T::lo(), T::hi());
    // (other lane, its a, its b)
    let other: Option<(usize, T, T)> = match variant {
        1 => Some((o1, hi, hi)),
        2 => Some((o2, lo, one)),
        3 => Some((o1, hi, zero)),
        5 => Some((o1, if T::SIGNED { lo } else { hi }, zero)),
        _ => None,
    };
    let val = |k: u32| T::wrap_from(T::lo().wide() + k as i128);
    let mut cnt = OpCnt::default();
    let (mut eval, mut nontrivial, mut viol) = (0u64, 0u64, 0u32);
    let mut seen_kinds: Vec<(&'static str, &'static str)> = Vec::new();
    let unary = variant >= 4;
    let total: u32 = if unary { 256 } else { 65536 };
    let mut pair = 0u32;
    let mut aa = [one; 64];
    let mut bb = [one; 64];
    while pair < total {
        let this = pair;
        pair += 1;
        if let Some(p) = only_pair {
            if p != this {
                continue;
            }
        }
        let (ai, bi) = if unary { (this, 0) } else { (this >> 8, this & 255) };
        let (a, b) = (val(ai), val(bi));
        let fails = if unary {
            let base = zero;
            let va = V::from_fn(|i| if i == lane { a } else { match other { Some((o, fa, _)) if o == i => fa, _ => base } });
            check_un_ops::<T, V>(&va, &mut cnt)
        } else {
            for i in 0..n {
                aa[i] = if i == lane { a } else { match other { Some((o, fa, _)) if o == i => fa, _ => one } };
                bb[i] = if i == lane { b } else { match other { Some((o, _, fb)) if o == i => fb, _ => one } };
            }
            let va = V::from_fn(|i| aa[i]);
            let vb = V::from_fn(|i| bb[i]);
            // variant 3: every pair has a panicking lane for the non-checked Euclid forms: sample them
            let run_panics = variant != 3 || (ai * 7 + bi) % 16 == 0 || ai == 0 || ai == 255 || bi == 0 || bi == 255 || only_pair.is_some();
            check_bin_ops::<T, V>(&va, &vb, &aa, &bb, run_panics, &mut cnt)
        };
        if fails.is_empty() {
            eval += 1;
            if !(variant == 0 && a == one && b == one) {
                nontrivial += 1;
            }
        } else {
            // one verdict per case; every failing op of the case is recorded under its own signature
            for (fi, f) in fails.into_iter().enumerate() {
                viol += 1;
                let api = format!("{}::{}", kind, f.op);
                // a broken lift fails on most of the space: keep the first witnesses of the item in full
                let fresh = !seen_kinds.contains(&(f.op, f.what));
                if fresh {
                    seen_kinds.push((f.op, f.what));
                }
                let detail = if viol <= 40 || fresh { format!("[swept lane {} of {}<{}>, {}] {}", lane, kind, T::NAME, VARIANT_NAMES[variant], f.detail) } else { format!("[swept lane {} of {}<{}>, {}] a={:?} b={:?} (full detail is kept for the first 40 violations of a work item and the first of each kind)", lane, kind, T::NAME, VARIANT_NAMES[variant], a, b) };
                let v = violation(PROP, sub, &api, T::NAME, f.class, f.what, detail, cfg.case_seed(), item << 16 | this as u64);
                if fi == 0 {
                    sub.violated(v);
                } else {
                    sub.add_violation(v);
                }
            }
        }
    }
    cnt.flush(sub, kind);
    sub.evaluations += eval;
    sub.conclusive += eval;
    sub.nontrivial += nontrivial;
    sub.distinct_enumerated += nontrivial;
}

fn lane_sweep_int8(cfg: &Config, rep: &mut Report) {
    let name = "lane_sweep_int8";
    let mut proto = Sub::new(
        name,
        "for each of the 13 vector kinds, each swept lane position (quick: first, middle, last; thorough: every lane) and T in {i8,u8}: the swept lane runs over ALL 65536 (a,b) operand pairs while the other lanes hold (1,1) [variant 0], and with one other lane holding a failing pair (MAX,MAX) / (MIN,1) / (MAX,0) [variants 1-3]; all 256 operands for the unary lifts with other lanes 0 [4] or one other lane failing [5]; every lifted op (checked_{add,sub,mul,div,rem,neg,div_euclid,rem_euclid}, wrapping_{add,sub,mul,neg}, saturating_{add,sub,mul}, overflowing_{add,sub,mul}, div_euclid, rem_euclid) against the scalar num-traits op per lane: lane values, None iff some lane None, flag iff some lane overflows, panic iff some lane panics; in variant 3 the (always panicking) non-checked Euclid forms are executed on 1/16 of the pairs plus the operand boundaries; non-trivial = not the all-(1,1) pair; distinct by enumeration",
    );
    proto = req_all(proto, &KINDS, &BIN_OPS);
    proto = req_all(proto, &KINDS, &CHK_EUCLID_OPS);
    proto = req_all(proto, &KINDS, &EUCLID_OPS);
    proto = req_all(proto, &KINDS, &UN_OPS);
    if !cfg.wants(name) {
        return;
    }
    // (cost, id, work)
    type Work<'a> = Box<dyn Fn(&mut Sub, Option<u32>) + Send + Sync + 'a>;
    let mut items: Vec<(usize, u64, Work)> = Vec::new();
    let mut kind_idx = 0usize;
    macro_rules! add_kind {
        ($V:ident) => {{
            let dim = <$V<i8> as VecX<i8>>::DIM;
            let mut lanes: Vec<usize> = if cfg.thorough() { (0..dim).collect() } else { vec![0, dim / 2, dim - 1] };
            lanes.dedup();
            for &lane in &lanes {
                for variant in 0..SWEEP_VARIANTS {
                    let cost = dim * if variant >= 4 { 1 } else { 256 };
                    let id = sweep_item_id(kind_idx, lane, 0, variant);
                    items.push((cost, id, Box::new(move |s: &mut Sub, only: Option<u32>| sweep_item::<i8, $V<i8>>(cfg, s, id, lane, variant, only))));
                    let id = sweep_item_id(kind_idx, lane, 1, variant);
                    items.push((cost, id, Box::new(move |s: &mut Sub, only: Option<u32>| sweep_item::<u8, $V<u8>>(cfg, s, id, lane, variant, only))));
                }
            }
            kind_idx += 1;
        }};
    }
    for_all_vec_kinds!(add_kind);
    let mut out = proto.fork();
    out.required = proto.required.clone();
    if let Some(ix) = cfg.only_index {
        // replay one (item, pair)
        let (item, pair) = (ix >> 16, (ix & 0xffff) as u32);
        // the item may belong to the thorough tier's lane set: rebuild it if it is not listed
        let mut s = proto.fork();
        match items.iter().find(|it| it.1 == item) {
            Some(it) => (it.2)(&mut s, Some(pair)),
            None => rep.note(format!("lane_sweep_int8: item {} is not in the {} tier's item list; replay with --tier thorough", item, cfg.tier)),
        }
        out.merge(s);
        rep.push(out);
        return;
    }
    items.sort_by(|a, b| b.0.cmp(&a.0).then(a.1.cmp(&b.1)));
    let next = AtomicUsize::new(0);
    let (sh, shn) = cfg.shard;
    let parts = parallel(cfg.threads, |_t, _tn| {
        let mut s = proto.fork();
        loop {
            let k = next.fetch_add(1, Ordering::Relaxed);
            if k >= items.len() {
                break;
            }
            if k as u64 % shn != sh {
                continue;
            }
            (items[k].2)(&mut s, None);
        }
        s
    });
    out.floor = 5_000_000;
    out.exhaustive = true;
    for p in parts {
        out.merge(p);
    }
    out.sample(|| format!("{} work items (kind x swept lane x {{i8,u8}} x 6 variants), e.g. Vec64<i8> lane 63 over all 65536 pairs with lane 0 = (127,127)", items.len()));
    out.extra.push(("work_items".to_string(), monitors::Json::i(items.len() as i128)));
    rep.push(out);
}

// ------------------------------------------------------------------------------------
// 1b. wider integers, sampled

fn biased_int<T: IntEl>(rng: &mut Rng) -> T {
    let (lo, hi) = (T::lo().wide(), T::hi().wide());
    let v = match rng.below(16) {
        0 => lo,
        1 => lo + 1,
        2 => hi,
        3 => hi - 1,
        4 => -1,
        5 => 0,
        6 => 1,
        7 => 2,
        8 => -2,
        9 => hi / 2,
        10 => hi / 2 + 1,
        11 => lo / 2,
        12 | 13 => rng.range_i64(-300, 300) as i128,
        _ => rng.next_u64() as i64 as i128,
    };
    T::wrap_from(v)
}

fn wide_case<T: IntEl, V: IntVec<T>>(cfg: &Config, sub: &mut Sub, idx: u64, mode: u64) {
    let n = V::DIM;
    let mut rng = Rng::for_case(&format!("lifts_wide/{}/{}", V::NAME, T::NAME), cfg.case_seed(), idx);
    let p = rng.usize_below(n);
    let q = rng.usize_below(n);
    // benign: 1 <= b <= a <= 100: nothing fails for the binary ops
    let mut av: Vec<T> = Vec::with_capacity(n);
    let mut bv: Vec<T> = Vec::with_capacity(n);
    for i in 0..n {
        let a = rng.range_i64(1, 100);
        let b = rng.range_i64(1, a);
        let (mut a, mut b) = (T::wrap_from(a as i128), T::wrap_from(b as i128));
        let hostile = match mode {
            0 => false,
            1 => i == p,
            2 => i == p || i == q,
            _ => true,
        };
        if hostile {
            a = biased_int(&mut rng);
            b = biased_int(&mut rng);
        }
        av.push(a);
        bv.push(b);
    }
    let va = V::from_fn(|i| av[i]);
    let vb = V::from_fn(|i| bv[i]);
    let mut h = H64::new();
    h.s(V::NAME).s(T::NAME);
    for i in 0..n {
        h.i(av[i].wide()).i(bv[i].wide());
    }
    let mut cnt = OpCnt::default();
    let mut fails = check_bin_ops::<T, V>(&va, &vb, &av, &bv, true, &mut cnt);
    fails.extend(check_un_ops::<T, V>(&va, &mut cnt));
    fails.extend(check_un_ops::<T, V>(&vb, &mut cnt));
    cnt.flush(sub, V::NAME);
    if fails.is_empty() {
        sub.sample(|| format!("{}<{}> mode {}: a={} b={}", V::NAME, T::NAME, mode, fmt_v(&va), fmt_v(&vb)));
        sub.held(h.get(), true);
    }
    for (fi, f) in fails.into_iter().enumerate() {
        let api = format!("{}::{}", V::NAME, f.op);
        let v = violation(PROP, sub, &api, T::NAME, f.class, f.what, format!("[{}<{}>, mode {}] {}", V::NAME, T::NAME, mode, f.detail), cfg.case_seed(), idx);
        if fi == 0 {
            sub.violated(v);
        } else {
            sub.add_violation(v);
        }
    }
}

fn lifts_wide(cfg: &Config, rep: &mut Report) {
    let n = cfg.n(12_000, 1_200_000);
    let mut proto = Sub::new(
        "lifts_wide",
        "i16, i32, i64, u32 lanes (case index mod 4) on the 11 small vector kinds, i32 also on Vec32/Vec64: mode 0 = every lane benign (1<=b<=a<=100), 1 = one lane boundary-biased {MIN,MIN+1,MAX,MAX-1,-2..2,MAX/2,MAX/2+1,MIN/2,small,random}, 2 = two such lanes, 3 = all lanes; all binary lifts on (a,b), unary lifts on a and on b, against the scalar num-traits op per lane incl. None/flag/panic equivalence; distinct by hash of all lanes",
    )
    .with_floor(n * 6);
    proto = req_all(proto, &KINDS, &BIN_OPS);
    proto = req_all(proto, &KINDS, &CHK_EUCLID_OPS);
    proto = req_all(proto, &KINDS, &EUCLID_OPS);
    proto = req_all(proto, &KINDS, &UN_OPS);
    let s = run_cases(cfg, proto, n, |s, i| {
        let mode = (i / 4) % 4;
        macro_rules! small {
            ($V:ident) => {
                match i % 4 {
                    0 => wide_case::<i16, $V<i16>>(cfg, s, i, mode),
                    1 => wide_case::<i32, $V<i32>>(cfg, s, i, mode),
                    2 => wide_case::<i64, $V<i64>>(cfg, s, i, mode),
                    _ => wide_case::<u32, $V<u32>>(cfg, s, i, mode),
                }
            };
        }
        for_small_vec_kinds!(small);
        if i % 4 == 1 {
            wide_case::<i32, Vec32<i32>>(cfg, s, i, mode);
            wide_case::<i32, Vec64<i32>>(cfg, s, i, mode);
        }
    });
    rep.push(s);
}

// ====================================================================================
// 2. float elements: Euclid + Inv lifts

trait FloatEl:
    Copy + Debug + PartialEq + PartialOrd + Send + Sync + 'static + num_traits::Float + Euclid + Inv<Output = Self> + AbsDiffEq<Epsilon = Self> + RelativeEq + UlpsEq
{
    const NAME: &'static str;
    fn of(x: f64) -> Self;
    fn to64(self) -> f64;
    fn bits64(self) -> u64;
    /// the value whose bit pattern is `k` above this one's (k ulps further from zero)
    fn ulps_up(self, k: u64) -> Self;
    fn min_sub() -> Self;
    fn rand_bits(rng: &mut Rng) -> Self;
    /// equality for comparing an observed element with the expected one (NaN == NaN)
    fn same(self, o: Self) -> bool {
        (self.is_nan() && o.is_nan()) || self.bits64() == o.bits64()
    }
}
impl FloatEl for f32 {
    const NAME: &'static str = "f32";
    fn of(x: f64) -> f32 {
        x as f32
    }
    fn to64(self) -> f64 {
        self as f64
    }
    fn bits64(self) -> u64 {
        self.to_bits() as u64
    }
    fn ulps_up(self, k: u64) -> f32 {
        f32::from_bits(self.to_bits().wrapping_add(k as u32))
    }
    fn min_sub() -> f32 {
        f32::from_bits(1)
    }
    fn rand_bits(rng: &mut Rng) -> f32 {
        f32::from_bits(rng.next_u32())
    }
}
impl FloatEl for f64 {
    const NAME: &'static str = "f64";
    fn of(x: f64) -> f64 {
        x
    }
    fn to64(self) -> f64 {
        self
    }
    fn bits64(self) -> u64 {
        self.to_bits()
    }
    fn ulps_up(self, k: u64) -> f64 {
        f64::from_bits(self.to_bits().wrapping_add(k))
    }
    fn min_sub() -> f64 {
        f64::from_bits(1)
    }
    fn rand_bits(rng: &mut Rng) -> f64 {
        f64::from_bits(rng.next_u64())
    }
}

/// a float from every class: +-0, subnormal, normal, +-inf, NaN, extremes, small integers/halves
fn gen_float<T: FloatEl>(rng: &mut Rng) -> T {
    match rng.below(20) {
        0 => T::of(0.0),
        1 => T::of(-0.0),
        2 => T::min_sub(),
        3 => -T::min_sub(),
        4 => T::min_sub().ulps_up(rng.below(1000)),
        5 => T::infinity(),
        6 => T::neg_infinity(),
        7 => T::nan(),
        8 => T::max_value(),
        9 => T::min_value(),
        10 => T::min_positive_value(),
        11 => T::of(1.0),
        12 => T::of(-1.0),
        13 | 14 => T::of(rng.range_i64(-20, 20) as f64 * 0.5),
        15 | 16 => T::of(rng.f64_in(-1000.0, 1000.0)),
        17 => T::of(rng.f64_in(-1.0, 1.0) * 1e-30),
        _ => T::rand_bits(rng),
    }
}

fn float_lift_case<T: FloatEl, V>(cfg: &Config, sub: &mut Sub, idx: u64)
where
    V: VecX<T> + Copy + Debug + Euclid + Inv<Output = V>,
{
    let n = V::DIM;
    let mut rng = Rng::for_case(&format!("lifts_float/{}/{}", V::NAME, T::NAME), cfg.case_seed(), idx);
    let av: Vec<T> = (0..n).map(|_| gen_float::<T>(&mut rng)).collect();
    let bv: Vec<T> = (0..n).map(|_| gen_float::<T>(&mut rng)).collect();
    let va = V::from_fn(|i| av[i]);
    let vb = V::from_fn(|i| bv[i]);
    let mut h = H64::new();
    h.s(V::NAME).s(T::NAME);
    for i in 0..n {
        h.u(av[i].bits64()).u(bv[i].bits64());
    }
    let mut bad: Option<(&'static str, &'static str, &'static str, String)> = None;
    macro_rules! lanes {
        ($op:expr, $got:expr, $exp:expr) => {
            sub.saw(&format!("{}::{}", V::NAME, $op));
            match $got {
                Err(p) => {
                    if bad.is_none() {
                        bad = Some(($op, "panic", "panic_where_value_promised", format!("{} panicked ({}); a={:?} b={:?}", $op, p, av, bv)));
                    }
                }
                Ok(g) => {
                    for k in 0..n {
                        let e: T = $exp(k);
                        if !g.get(k).same(e) && bad.is_none() {
                            bad = Some(($op, "wrong_value", "lane_value", format!("{}: lane {} is {:?}, the scalar op on ({:?}, {:?}) gives {:?}; a={:?} b={:?}", $op, k, g.get(k), av[k], bv[k], e, av, bv)));
                        }
                    }
                }
            }
        };
    }
    lanes!("div_euclid", guarded(|| <V as Euclid>::div_euclid(&va, &vb)), |k: usize| <T as Euclid>::div_euclid(&av[k], &bv[k]));
    lanes!("rem_euclid", guarded(|| <V as Euclid>::rem_euclid(&va, &vb)), |k: usize| <T as Euclid>::rem_euclid(&av[k], &bv[k]));
    lanes!("inv", guarded(|| <V as Inv>::inv(va)), |k: usize| <T as Inv>::inv(av[k]));
    match bad {
        None => {
            sub.sample(|| format!("{}<{}>: a={:?} b={:?}", V::NAME, T::NAME, av, bv));
            sub.held(h.get(), true)
        }
        Some((op, class, what, detail)) => {
            let v = violation(PROP, sub, &format!("{}::{}", V::NAME, op), T::NAME, class, what, detail, cfg.case_seed(), idx);
            sub.violated(v)
        }
    }
}

fn lifts_float(cfg: &Config, rep: &mut Report) {
    let n = cfg.n(6_000, 600_000);
    let mut proto = Sub::new(
        "lifts_float",
        "f32 (even index) / f64 (odd) lanes on all 13 vector kinds: every lane drawn from {+-0, +-min subnormal, subnormal, +-inf, NaN, MAX, MIN, MIN_POSITIVE, +-1, halves, uniform, tiny, random bit pattern}; Euclid::div_euclid, Euclid::rem_euclid and Inv::inv equal the scalar num-traits op per lane (bitwise, NaN = NaN) and never panic; distinct by hash of all lanes",
    )
    .with_floor(n * 10);
    proto = req_all(proto, &KINDS, &["div_euclid", "rem_euclid", "inv"]);
    let s = run_cases(cfg, proto, n, |s, i| {
        macro_rules! one {
            ($V:ident) => {
                if i % 2 == 0 {
                    float_lift_case::<f32, $V<f32>>(cfg, s, i)
                } else {
                    float_lift_case::<f64, $V<f64>>(cfg, s, i)
                }
            };
        }
        for_all_vec_kinds!(one);
    });
    rep.push(s);
}

// ====================================================================================
// 3. Zero / One / is_zero / is_one

trait ZoEl: Copy + Debug + PartialEq + Zero + One + Send + Sync + 'static {
    const NAME: &'static str;
    /// values for which the scalar `is_zero()` is false
    fn nonzero() -> Vec<Self>;
    /// values other than `zero()` for which the scalar `is_zero()` is true
    fn other_zeros() -> Vec<Self>;
    fn hb(self) -> u64;
}
macro_rules! zo_int {
    ($($T:ty: [$($v:expr),+]);+) => {$(
        impl ZoEl for $T {
            const NAME: &'static str = stringify!($T);
            fn nonzero() -> Vec<$T> { vec![$($v),+] }
            fn other_zeros() -> Vec<$T> { vec![] }
            fn hb(self) -> u64 { self as u64 }
        }
    )+};
}
zo_int!(i8: [1, -1, 2, i8::MIN, i8::MAX]; u8: [1, 2, 128, 255]; i32: [1, -1, 2, i32::MIN, i32::MAX, 65536]);
macro_rules! zo_float {
    ($($T:ident),+) => {$(
        impl ZoEl for $T {
            const NAME: &'static str = stringify!($T);
            fn nonzero() -> Vec<$T> { vec![1.0, -1.0, $T::from_bits(1), -$T::from_bits(1), $T::NAN, $T::INFINITY, $T::NEG_INFINITY, $T::EPSILON, 2.0] }
            fn other_zeros() -> Vec<$T> { vec![-0.0] }
            fn hb(self) -> u64 { self.to_bits() as u64 }
        }
    )+};
}
zo_float!(f32, f64);

/// generic over "a container of `n` elements built/read through raw fields"
fn zo_container<T: ZoEl, C: Zero + One + PartialEq + Debug>(
    cfg: &Config,
    sub: &mut Sub,
    idx: u64,
    cname: &str,
    n: usize,
    build: &dyn Fn(&[T]) -> C,
    read: &dyn Fn(&C) -> Vec<T>,
    one_expected: &dyn Fn(usize) -> T,
) {
    let mut verdict = |sub: &mut Sub, op: &str, what: &'static str, h: u64, ok: Result<bool, String>, detail: &dyn Fn() -> String| {
        let api = format!("{}::{}", cname, op);
        sub.saw(&api);
        match ok {
            Ok(true) => sub.held(h, true),
            Ok(false) => {
                let v = violation(PROP, sub, &api, T::NAME, "wrong_value", what, detail(), cfg.case_seed(), idx);
                sub.violated(v)
            }
            Err(p) => {
                let v = violation(PROP, sub, &api, T::NAME, "panic", "panic_where_value_promised", format!("{} panicked: {}; {}", api, p, detail()), cfg.case_seed(), idx);
                sub.violated(v)
            }
        }
    };
    let hbase = |tag: &str, e: &[T]| {
        let mut h = H64::new();
        h.s(cname).s(T::NAME).s(tag);
        for x in e {
            h.u(x.hb());
        }
        h.get()
    };
    // zero(): every element is 0
    let z = guarded(|| read(&<C as Zero>::zero()));
    verdict(sub, "zero", "all_elements_zero", hbase("zero", &[]), z.clone().map(|e| e.len() == n && e.iter().all(|x| *x == T::zero())), &|| format!("zero() has elements {:?}, expected {} zeros", z, n));
    // one(): all-ones for vectors, identity for matrices
    let o = guarded(|| read(&<C as One>::one()));
    let oexp: Vec<T> = (0..n).map(|k| one_expected(k)).collect();
    verdict(sub, "one", "elements_of_one", hbase("one", &[]), o.clone().map(|e| e == oexp), &|| format!("one() has elements {:?}, expected {:?}", o, oexp));
    // is_zero: conjunction of the scalar is_zero
    let zero = vec![T::zero(); n];
    let mut inputs: Vec<Vec<T>> = vec![zero.clone()];
    for p in 0..n {
        for v in T::nonzero().into_iter().chain(T::other_zeros()) {
            let mut e = zero.clone();
            e[p] = v;
            inputs.push(e);
        }
    }
    let mut rng = Rng::for_case(&format!("zero_one/{}/{}", cname, T::NAME), cfg.case_seed(), idx);
    let nz = T::nonzero();
    let oz = T::other_zeros();
    for _ in 0..(4 * n) {
        // several non-zero lanes / mixtures of the zero representations
        let e: Vec<T> = (0..n)
            .map(|_| match rng.below(4) {
                0 => *rng.pick(&nz),
                1 if !oz.is_empty() => *rng.pick(&oz),
                _ => T::zero(),
            })
            .collect();
        inputs.push(e);
    }
    inputs.push((0..n).map(|k| nz[k % nz.len()]).collect());
    for e in &inputs {
        let c = build(e);
        let exp = e.iter().all(|x| x.is_zero());
        let got = guarded(|| c.is_zero());
        verdict(sub, "is_zero", "is_zero_iff_all_elements_zero", hbase("is_zero", e), got.clone().map(|g| g == exp), &|| format!("is_zero() of elements {:?} is {:?}, the conjunction of the scalar is_zero() is {}", e, got, exp));
    }
    // is_one (provided by num-traits through PartialEq and one())
    let mut inputs: Vec<Vec<T>> = vec![oexp.clone()];
    for p in 0..n {
        for v in [T::zero(), T::one(), T::nonzero()[T::nonzero().len() - 1]] {
            let mut e = oexp.clone();
            e[p] = v;
            inputs.push(e);
        }
    }
    for e in &inputs {
        let c = build(e);
        let exp = (0..n).all(|k| e[k] == oexp[k]);
        let got = guarded(|| c.is_one());
        verdict(sub, "is_one", "is_one_iff_equal_to_one", hbase("is_one", e), got.clone().map(|g| g == exp), &|| format!("is_one() of elements {:?} is {:?}, expected {}", e, got, exp));
    }
}

fn zo_all<T: ZoEl + num_traits::MulAdd<T, T, Output = T>>(cfg: &Config, s: &mut Sub, i: u64) {
    macro_rules! vecs {
        ($V:ident) => {
            zo_container::<T, $V<T>>(cfg, s, i, <$V<T> as VecX<T>>::NAME, <$V<T> as VecX<T>>::DIM, &|e| <$V<T> as VecX<T>>::from_fn(|k| e[k]), &|c| c.to_vec(), &|_| T::one());
        };
    }
    for_all_vec_kinds!(vecs);
    macro_rules! mats {
        ($($M:ident),+) => {$(
            {
                let n = <$M<T> as MatX<T>>::N;
                zo_container::<T, $M<T>>(cfg, s, i, <$M<T> as MatX<T>>::NAME, n * n, &|e| <$M<T> as MatX<T>>::from_fn(|r, c| e[r * n + c]), &|m| (0..n * n).map(|k| m.get(k / n, k % n)).collect(), &|k| if k / n == k % n { T::one() } else { T::zero() });
            }
        )+};
    }
    mats!(Rows2, Rows3, Rows4, Cols2, Cols3, Cols4);
}

fn zero_one(cfg: &Config, rep: &mut Report) {
    let mut proto = Sub::new(
        "zero_one",
        "Zero::zero / One::one / is_zero / is_one of all 13 vector kinds and the 6 matrix types over i8, u8, i32, f32, f64 (one case index per element type): zero() all elements 0; one() all elements 1 (vectors) / the identity (matrices), read through the raw fields; is_zero() on all-zero, on exactly one element replaced at every position by each of {1,-1,2,MIN,MAX | +-1, +-min subnormal, NaN, +-inf, EPSILON, -0.0}, on random mixtures and on all-non-zero, against the conjunction of the scalar is_zero(); is_one() on one() and on one() with one element replaced at every position; distinct by hash of the elements",
    )
    .with_floor(8_000);
    proto = req_all(proto, &KINDS, &["zero", "one", "is_zero", "is_one"]);
    proto = req_all(proto, &MATS, &["zero", "one", "is_zero", "is_one"]);
    let s = run_cases(cfg, proto, 5, |s, i| match i {
        0 => zo_all::<i8>(cfg, s, i),
        1 => zo_all::<u8>(cfg, s, i),
        2 => zo_all::<i32>(cfg, s, i),
        3 => zo_all::<f32>(cfg, s, i),
        _ => zo_all::<f64>(cfg, s, i),
    });
    rep.push(s);
}

// ====================================================================================
// 4. element casts: as_ / numcast on vectors, matrices, shapes

trait CastEl: Copy + Debug + Send + Sync + PartialOrd + 'static {
    const NAME: &'static str;
    fn pool() -> Vec<Self>;
    fn random(rng: &mut Rng) -> Self;
    fn hb(self) -> u64;
    /// equality of an observed element with the expected one (NaN == NaN, -0.0 != 0.0)
    fn same(self, o: Self) -> bool;
}
const INT_POOL: [i128; 34] = [
    0, 1, -1, 2, 126, 127, 128, 129, 254, 255, 256, 257, -127, -128, -129, 32767, 32768, -32768, -32769, 65535, 65536, 16777217, 2147483647, 2147483648, -2147483648, -2147483649, 4294967295, 4294967296, 9007199254740993, -9007199254740993,
    i64::MAX as i128, i64::MIN as i128, u64::MAX as i128, 1 << 62,
];
macro_rules! cast_int {
    ($($T:ident),+) => {$(
        impl CastEl for $T {
            const NAME: &'static str = stringify!($T);
            fn pool() -> Vec<$T> {
                let mut v: Vec<$T> = INT_POOL.iter().filter(|x| **x >= $T::MIN as i128 && **x <= $T::MAX as i128).map(|x| *x as $T).collect();
                v.extend([$T::MIN, $T::MAX, $T::MIN + 1, $T::MAX - 1]);
                v
            }
            fn random(rng: &mut Rng) -> $T {
                match rng.below(3) {
                    0 => rng.range_i64(-300, 300) as $T,
                    1 => rng.range_i64(-70000, 70000) as $T,
                    _ => rng.next_u64() as $T,
                }
            }
            fn hb(self) -> u64 { self as u64 }
            fn same(self, o: $T) -> bool { self == o }
        }
    )+};
}
cast_int!(i8, u8, i16, i32, u32, i64);
macro_rules! cast_float {
    ($($T:ident),+) => {$(
        impl CastEl for $T {
            const NAME: &'static str = stringify!($T);
            fn pool() -> Vec<$T> {
                vec![
                    $T::NAN, $T::INFINITY, $T::NEG_INFINITY, -0.0, 0.0, 0.99, -0.99, -0.5, 0.5, 1.5, 2.5, -1.0, 1.0, 126.5, 127.0, 127.5, 128.0, -128.0, -128.5, -128.99, -129.0,
                    254.5, 255.0, 255.5, 255.99, 256.0, 32767.0, 32767.5, 32768.0, -32768.0, -32768.5, -32769.0, 65535.5, 65536.0, 16777216.0, 16777217.0,
                    2147483647.0, 2147483648.0, -2147483648.0, -2147483649.0, 4294967295.0, 4294967296.0, 1e10, -1e10, 1e20, -1e20, 3.3e38, -3.3e38,
                    $T::MAX, $T::MIN, $T::MIN_POSITIVE, $T::from_bits(1), $T::EPSILON,
                    (1e39f64) as $T, (-1e39f64) as $T, (1e300f64) as $T,
                ]
            }
            fn random(rng: &mut Rng) -> $T {
                match rng.below(4) {
                    0 => rng.f64_in(-300.0, 300.0) as $T,
                    1 => rng.f64_in(-70000.0, 70000.0) as $T,
                    2 => rng.f64_in(-5e9, 5e9) as $T,
                    _ => $T::from_bits(rng.next_u64() as _),
                }
            }
            fn hb(self) -> u64 { self.to_bits() as u64 }
            fn same(self, o: $T) -> bool { (self.is_nan() && o.is_nan()) || self.to_bits() == o.to_bits() }
        }
    )+};
}
cast_float!(f32, f64);

/// draw an element for which `fails` is `want`
fn draw_el<S: CastEl>(rng: &mut Rng, pool: &[S], fails: &dyn Fn(S) -> bool, want: bool) -> Option<S> {
    for _ in 0..200 {
        let x = if rng.chance(2, 3) { *rng.pick(pool) } else { S::random(rng) };
        if fails(x) == want {
            return Some(x);
        }
    }
    None
}

/// the inputs of one container: none failing; exactly one failing at every position; several
/// failing; unconstrained
fn cast_inputs<S: CastEl>(rng: &mut Rng, n: usize, fails: &dyn Fn(S) -> bool) -> Vec<(&'static str, Vec<S>)> {
    let pool = S::pool();
    let mut out = Vec::new();
    let good = |rng: &mut Rng| -> Option<Vec<S>> { (0..n).map(|_| draw_el(rng, &pool, fails, false)).collect() };
    if let Some(g) = good(rng) {
        out.push(("none_failing", g));
    }
    if draw_el(rng, &pool, fails, true).is_some() {
        for p in 0..n {
            if let (Some(mut g), Some(b)) = (good(rng), draw_el(rng, &pool, fails, true)) {
                g[p] = b;
                out.push(("one_failing", g));
            }
        }
        if n >= 2 {
            if let Some(mut g) = good(rng) {
                let k = 2 + rng.usize_below(n - 1);
                let mut pos: Vec<usize> = (0..n).collect();
                rng.shuffle(&mut pos);
                for &p in &pos[..k] {
                    if let Some(b) = draw_el(rng, &pool, fails, true) {
                        g[p] = b;
                    }
                }
                out.push(("several_failing", g));
            }
        }
    }
    out.push(("unconstrained", (0..n).map(|_| if rng.bool() { *rng.pick(&pool) } else { S::random(rng) }).collect()));
    out
}

struct CastIo<'a, S, D> {
    cname: &'a str,
    n: usize,
    do_as: &'a dyn Fn(&[S]) -> Result<Vec<D>, String>,
    do_num: Option<&'a dyn Fn(&[S]) -> Result<Option<Vec<D>>, String>>,
}

fn cast_container<S: CastEl, D: CastEl>(cfg: &Config, sub: &mut Sub, idx: u64, rng: &mut Rng, io: CastIo<S, D>, s_as: fn(S) -> D, s_num: fn(S) -> Option<D>) {
    let ty = format!("{}->{}", S::NAME, D::NAME);
    let fails = |x: S| s_num(x).is_none();
    for (mode, e) in cast_inputs::<S>(rng, io.n, &fails) {
        let mut h = H64::new();
        h.s(io.cname).s(&ty);
        for x in &e {
            h.u(x.hb());
        }
        let mut bad: Option<(String, &'static str, &'static str, String)> = None;
        let mut bad_num: Option<(String, &'static str, &'static str, String)> = None;
        // as_
        let api = format!("{}::as_", io.cname);
        sub.saw(&api);
        match (io.do_as)(&e) {
            Err(p) => bad = Some((api, "panic", "panic_where_value_promised", format!("as_ panicked ({}) on elements {:?}", p, e))),
            Ok(g) => {
                for k in 0..io.n {
                    let x = s_as(e[k]);
                    if (g.len() != io.n || !g[k].same(x)) && bad.is_none() {
                        bad = Some((api.clone(), "wrong_value", "element_value", format!("as_ [{}]: element {} is {:?}, `{:?} as {}` is {:?}; input {:?}, output {:?}", mode, k, g.get(k), e[k], D::NAME, x, e, g)));
                    }
                }
            }
        }
        // numcast
        if let Some(do_num) = io.do_num {
            let api = format!("{}::numcast", io.cname);
            sub.saw(&api);
            let first_fail = (0..io.n).find(|k| s_num(e[*k]).is_none());
            match do_num(&e) {
                Err(p) => {
                    if bad_num.is_none() {
                        bad_num = Some((api, "panic", "panic_where_value_promised", format!("numcast panicked ({}) on elements {:?}", p, e)));
                    }
                }
                Ok(None) => {
                    if first_fail.is_none() && bad_num.is_none() {
                        bad_num = Some((api, "wrong_value", "none_iff_some_element_fails", format!("numcast [{}] returned None but NumCast::from succeeds on every element of {:?}", mode, e)));
                    }
                }
                Ok(Some(g)) => {
                    if let Some(k) = first_fail {
                        if bad_num.is_none() {
                            bad_num = Some((api, "wrong_value", "none_iff_some_element_fails", format!("numcast [{}] returned Some({:?}) but <{} as NumCast>::from({:?}) (element {}) is None; input {:?}", mode, g, D::NAME, e[k], k, e)));
                        }
                    } else {
                        for k in 0..io.n {
                            let x = s_num(e[k]).unwrap();
                            if (g.len() != io.n || !g[k].same(x)) && bad_num.is_none() {
                                bad_num = Some((api.clone(), "wrong_value", "element_value", format!("numcast [{}]: element {} is {:?}, NumCast::from({:?}) is {:?}; input {:?}, output {:?}", mode, k, g.get(k), e[k], x, e, g)));
                            }
                        }
                    }
                }
            }
        }
        let bads: Vec<_> = bad.into_iter().chain(bad_num).collect();
        if bads.is_empty() {
            sub.sample(|| format!("{} {} [{}]: {:?}", io.cname, ty, mode, e));
            sub.held(h.get(), true);
        }
        for (bi, (api, class, what, detail)) in bads.into_iter().enumerate() {
            let v = violation(PROP, sub, &api, &ty, class, what, detail, cfg.case_seed(), idx);
            if bi == 0 {
                sub.violated(v);
            } else {
                sub.add_violation(v);
            }
        }
    }
}

const CAST_CONTAINERS: usize = 25;
const SHAPES: [&str; 6] = ["Rect", "Rect3", "Aabr", "Aabb", "LineSegment2", "LineSegment3"];

fn cast_index<S, D>(cfg: &Config, sub: &mut Sub, idx: u64, which: usize, s_as: fn(S) -> D, s_num: fn(S) -> Option<D>)
where
    S: CastEl + num_traits::AsPrimitive<D> + NumCast,
    D: CastEl + NumCast,
{
    let mut rng = Rng::for_case(&format!("casts/{}/{}", S::NAME, D::NAME), cfg.case_seed(), idx);
    let mut c = 0usize;
    macro_rules! vk {
        ($V:ident) => {
            if which == c {
                let io = CastIo::<S, D> {
                    cname: <$V<S> as VecX<S>>::NAME,
                    n: <$V<S> as VecX<S>>::DIM,
                    do_as: &|e: &[S]| guarded(|| <$V<S> as VecX<S>>::from_fn(|k| e[k]).as_::<D>()).map(|r| r.to_vec()),
                    do_num: Some(&|e: &[S]| guarded(|| <$V<S> as VecX<S>>::from_fn(|k| e[k]).numcast::<D>()).map(|o| o.map(|r| r.to_vec()))),
                };
                cast_container(cfg, sub, idx, &mut rng, io, s_as, s_num);
            }
            c += 1;
        };
    }
    for_all_vec_kinds!(vk);
    macro_rules! mk {
        ($($M:ident),+) => {$(
            if which == c {
                let n = <$M<S> as MatX<S>>::N;
                let io = CastIo::<S, D> {
                    cname: <$M<S> as MatX<S>>::NAME,
                    n: n * n,
                    do_as: &|e: &[S]| guarded(|| <$M<S> as MatX<S>>::from_fn(|i, j| e[i * n + j]).as_::<D>()).map(|r| r.into_elems()),
                    do_num: Some(&|e: &[S]| guarded(|| <$M<S> as MatX<S>>::from_fn(|i, j| e[i * n + j]).numcast::<D>()).map(|o| o.map(|r| r.into_elems()))),
                };
                cast_container(cfg, sub, idx, &mut rng, io, s_as, s_num);
            }
            c += 1;
        )+};
    }
    mk!(Rows2, Rows3, Rows4, Cols2, Cols3, Cols4);
    // shapes: only as_ exists
    macro_rules! shape {
        ($name:expr, $n:expr, $build:expr, $read:expr) => {
            if which == c {
                let io = CastIo::<S, D> { cname: $name, n: $n, do_as: &|e: &[S]| guarded(|| $build(e)).map($read), do_num: None };
                cast_container(cfg, sub, idx, &mut rng, io, s_as, s_num);
            }
            c += 1;
        };
    }
    shape!("Rect", 4, |e: &[S]| Rect::<S, S> { x: e[0], y: e[1], w: e[2], h: e[3] }.as_::<D, D>(), |r: Rect<D, D>| vec![r.x, r.y, r.w, r.h]);
    shape!("Rect3", 6, |e: &[S]| Rect3::<S, S> { x: e[0], y: e[1], z: e[2], w: e[3], h: e[4], d: e[5] }.as_::<D, D>(), |r: Rect3<D, D>| vec![r.x, r.y, r.z, r.w, r.h, r.d]);
    shape!("Aabr", 4, |e: &[S]| Aabr::<S> { min: Vec2 { x: e[0], y: e[1] }, max: Vec2 { x: e[2], y: e[3] } }.as_::<D>(), |r: Aabr<D>| vec![r.min.x, r.min.y, r.max.x, r.max.y]);
    shape!("Aabb", 6, |e: &[S]| Aabb::<S> { min: Vec3 { x: e[0], y: e[1], z: e[2] }, max: Vec3 { x: e[3], y: e[4], z: e[5] } }.as_::<D>(), |r: Aabb<D>| vec![r.min.x, r.min.y, r.min.z, r.max.x, r.max.y, r.max.z]);
    shape!("LineSegment2", 4, |e: &[S]| LineSegment2::<S> { start: Vec2 { x: e[0], y: e[1] }, end: Vec2 { x: e[2], y: e[3] } }.as_::<D>(), |r: LineSegment2<D>| vec![r.start.x, r.start.y, r.end.x, r.end.y]);
    shape!("LineSegment3", 6, |e: &[S]| LineSegment3::<S> { start: Vec3 { x: e[0], y: e[1], z: e[2] }, end: Vec3 { x: e[3], y: e[4], z: e[5] } }.as_::<D>(), |r: LineSegment3<D>| vec![r.start.x, r.start.y, r.start.z, r.end.x, r.end.y, r.end.z]);
    debug_assert_eq!(c, CAST_CONTAINERS);
}

/// Rect/Rect3 with different position and extent types: each half converted by its own rule
fn rect_mixed(cfg: &Config, sub: &mut Sub, idx: u64) {
    let mut rng = Rng::for_case("casts/rect_mixed", cfg.case_seed(), idx);
    let fp = f64::pool();
    let ip = i64::pool();
    let p: Vec<f64> = (0..3).map(|_| if rng.bool() { *rng.pick(&fp) } else { f64::random(&mut rng) }).collect();
    let e: Vec<i64> = (0..3).map(|_| if rng.bool() { *rng.pick(&ip) } else { i64::random(&mut rng) }).collect();
    let mut h = H64::new();
    h.s("rect_mixed");
    for x in &p {
        h.f(*x);
    }
    for x in &e {
        h.i(*x as i128);
    }
    sub.saw("Rect::as_");
    sub.saw("Rect3::as_");
    let r2 = guarded(|| Rect::<f64, i64> { x: p[0], y: p[1], w: e[0], h: e[1] }.as_::<i32, u8>());
    let r3 = guarded(|| Rect3::<f64, i64> { x: p[0], y: p[1], z: p[2], w: e[0], h: e[1], d: e[2] }.as_::<i32, u8>());
    let ok2 = matches!(&r2, Ok(r) if r.x == p[0] as i32 && r.y == p[1] as i32 && r.w == e[0] as u8 && r.h == e[1] as u8);
    let ok3 = matches!(&r3, Ok(r) if r.x == p[0] as i32 && r.y == p[1] as i32 && r.z == p[2] as i32 && r.w == e[0] as u8 && r.h == e[1] as u8 && r.d == e[2] as u8);
    if ok2 && ok3 {
        sub.held(h.get(), true);
    } else {
        let (api, d) = if !ok2 { ("Rect::as_", format!("{:?}", r2)) } else { ("Rect3::as_", format!("{:?}", r3)) };
        let v = violation(PROP, sub, api, "f64,i64->i32,u8", "wrong_value", "element_value", format!("position {:?} extent {:?}: as_::<i32,u8>() gave {}, expected position `as i32` = {:?}, extent `as u8` = {:?}", p, e, d, p.iter().map(|x| *x as i32).collect::<Vec<_>>(), e.iter().map(|x| *x as u8).collect::<Vec<_>>()), cfg.case_seed(), idx);
        sub.violated(v);
    }
}

const CAST_PAIRS: usize = 8;

fn casts(cfg: &Config, rep: &mut Report) {
    let per = (CAST_CONTAINERS + 1) as u64;
    let n = cfg.n(per * CAST_PAIRS as u64 * 40, per * CAST_PAIRS as u64 * 2000);
    let mut proto = Sub::new(
        "casts",
        "as_::<D>() and numcast::<D>() of the 13 vector kinds and 6 matrix types, as_ of Rect, Rect3, Aabr, Aabb, LineSegment2, LineSegment3 (container = index mod 26, the 26th = Rect/Rect3 with distinct position/extent types), type pair = (index / 26) mod 8 over f64->u8, f64->i32, i64->u8, i32->i8, u8->f32, f32->i16, f64->f32, u32->i32; elements from a boundary pool (NaN, +-inf, -0.0, x.5 and x.99 around the 8/16/32-bit limits, 2^24+1, 2^53+1, MIN/MAX, 1e39...) and random; inputs per index: no failing element, exactly one failing element at EVERY position, several failing, unconstrained (failing = scalar NumCast::from is None); each output element equals `x as D` / NumCast::from(x) of the element placed there (read through raw fields; NaN = NaN, sign of zero significant), numcast None iff some element fails; distinct by hash of the elements",
    )
    .with_floor(n * 2);
    proto = req_all(proto, &KINDS, &["as_", "numcast"]);
    proto = req_all(proto, &MATS, &["as_", "numcast"]);
    proto = req_all(proto, &SHAPES, &["as_"]);
    let s = run_cases(cfg, proto, n, |s, i| {
        let which = (i % per) as usize;
        if which == CAST_CONTAINERS {
            rect_mixed(cfg, s, i);
            return;
        }
        macro_rules! pair {
            ($S:ty, $D:ty) => {
                cast_index::<$S, $D>(cfg, s, i, which, |x| x as $D, |x| <$D as NumCast>::from(x))
            };
        }
        match (i / per) % CAST_PAIRS as u64 {
            0 => pair!(f64, u8),
            1 => pair!(f64, i32),
            2 => pair!(i64, u8),
            3 => pair!(i32, i8),
            4 => pair!(u8, f32),
            5 => pair!(f32, i16),
            6 => pair!(f64, f32),
            _ => pair!(u32, i32),
        }
    });
    rep.push(s);
}

// ====================================================================================
// 5. az casts on vectors

trait AzAll<D>: az::Cast<D> + az::CheckedCast<D> + az::SaturatingCast<D> + az::WrappingCast<D> + az::OverflowingCast<D> + az::UnwrappedCast<D> {}
impl<S, D> AzAll<D> for S where S: az::Cast<D> + az::CheckedCast<D> + az::SaturatingCast<D> + az::WrappingCast<D> + az::OverflowingCast<D> + az::UnwrappedCast<D> {}

struct AzOut<D> {
    cast: Result<Vec<D>, String>,
    checked: Result<Option<Vec<D>>, String>,
    saturating: Result<Vec<D>, String>,
    wrapping: Result<Vec<D>, String>,
    overflowing: Result<(Vec<D>, bool), String>,
    unwrapped: Result<Vec<D>, String>,
}

fn az_via_traits<S: Copy, D: Copy, VS, VD>(e: &[S]) -> AzOut<D>
where
    VS: VecX<S> + Copy + AzAll<VD>,
    VD: VecX<D>,
{
    let v = VS::from_fn(|k| e[k]);
    AzOut {
        cast: guarded(|| az::Cast::<VD>::cast(v)).map(|r| r.to_vec()),
        checked: guarded(|| az::CheckedCast::<VD>::checked_cast(v)).map(|o| o.map(|r| r.to_vec())),
        saturating: guarded(|| az::SaturatingCast::<VD>::saturating_cast(v)).map(|r| r.to_vec()),
        wrapping: guarded(|| az::WrappingCast::<VD>::wrapping_cast(v)).map(|r| r.to_vec()),
        overflowing: guarded(|| az::OverflowingCast::<VD>::overflowing_cast(v)).map(|(r, f)| (r.to_vec(), f)),
        unwrapped: guarded(|| az::UnwrappedCast::<VD>::unwrapped_cast(v)).map(|r| r.to_vec()),
    }
}

/// names: the six api names in the order cast, checked, saturating, wrapping, overflowing, unwrapped
fn judge_az<S: CastEl + AzAll<D>, D: CastEl>(cname: &str, names: &[&str; 6], mode: &str, e: &[S], out: AzOut<D>) -> Vec<(String, &'static str, &'static str, String)> {
    let n = e.len();
    let mut bads: Vec<(String, &'static str, &'static str, String)> = Vec::new();
    // value-returning forms: panic iff some element's scalar form panics, else element-wise
    let value_form = |name: &str, got: &Result<Vec<D>, String>, scalar: &dyn Fn(S) -> D| -> Option<(String, &'static str, &'static str, String)> {
        let api = format!("{}::{}", cname, name);
        let lanes: Vec<Result<D, String>> = e.iter().map(|x| guarded(|| scalar(*x))).collect();
        let panic_lane = lanes.iter().position(|l| l.is_err());
        match (got, panic_lane) {
            (Err(_), Some(_)) => None,
            (Err(p), None) => Some((api, "panic", "panic_iff_some_element_panics", format!("{} [{}] panicked ({}) but the scalar cast panics on no element of {:?}", name, mode, p, e))),
            (Ok(g), Some(k)) => Some((api, "missing_panic", "panic_iff_some_element_panics", format!("{} [{}] returned {:?} but the scalar cast of element {} ({:?}) panics; input {:?}", name, mode, g, k, e[k], e))),
            (Ok(g), None) => {
                for k in 0..n {
                    let x = *lanes[k].as_ref().unwrap();
                    if g.len() != n || !g[k].same(x) {
                        return Some((api, "wrong_value", "element_value", format!("{} [{}]: element {} is {:?}, the scalar cast of {:?} is {:?}; input {:?}, output {:?}", name, mode, k, g.get(k), e[k], x, e, g)));
                    }
                }
                None
            }
        }
    };
    bads.extend(value_form(names[0], &out.cast, &|x| az::Cast::<D>::cast(x)));
    bads.extend(value_form(names[2], &out.saturating, &|x| az::SaturatingCast::<D>::saturating_cast(x)));
    bads.extend(value_form(names[3], &out.wrapping, &|x| az::WrappingCast::<D>::wrapping_cast(x)));
    bads.extend(value_form(names[5], &out.unwrapped, &|x| az::UnwrappedCast::<D>::unwrapped_cast(x)));
    // checked
    bads.extend((|| -> Option<(String, &'static str, &'static str, String)> {
        let api = format!("{}::{}", cname, names[1]);
        let lanes: Vec<Result<Option<D>, String>> = e.iter().map(|x| guarded(|| az::CheckedCast::<D>::checked_cast(*x))).collect();
        let panic_lane = lanes.iter().position(|l| l.is_err());
        let none_lane = lanes.iter().position(|l| matches!(l, Ok(None)));
        match (&out.checked, panic_lane) {
            (Err(_), Some(_)) => {}
            (Err(p), None) => return Some((api, "panic", "panic_where_value_promised", format!("{} [{}] panicked ({}); input {:?}", names[1], mode, p, e))),
            (Ok(g), Some(k)) => {
                // a scalar checked cast that panics would have to come before any None lane to matter; report plainly
                if none_lane.map_or(true, |m| k < m) {
                    return Some((api, "missing_panic", "panic_iff_some_element_panics", format!("{} [{}] returned {:?} but the scalar form panics on element {}; input {:?}", names[1], mode, g, k, e)));
                }
            }
            (Ok(None), None) => {
                if none_lane.is_none() {
                    return Some((api, "wrong_value", "none_iff_some_element_fails", format!("{} [{}] returned None but the scalar checked_cast is Some for every element of {:?}", names[1], mode, e)));
                }
            }
            (Ok(Some(g)), None) => {
                if let Some(k) = none_lane {
                    return Some((api, "wrong_value", "none_iff_some_element_fails", format!("{} [{}] returned Some({:?}) but the scalar checked_cast of element {} ({:?}) is None; input {:?}", names[1], mode, g, k, e[k], e)));
                }
                for k in 0..n {
                    let x = lanes[k].as_ref().unwrap().unwrap();
                    if g.len() != n || !g[k].same(x) {
                        return Some((api, "wrong_value", "element_value", format!("{} [{}]: element {} is {:?}, scalar checked_cast of {:?} is {:?}; input {:?}", names[1], mode, k, g.get(k), e[k], x, e)));
                    }
                }
            }
        }
        None
    })());
    // overflowing
    bads.extend((|| -> Option<(String, &'static str, &'static str, String)> {
        let api = format!("{}::{}", cname, names[4]);
        let lanes: Vec<Result<(D, bool), String>> = e.iter().map(|x| guarded(|| az::OverflowingCast::<D>::overflowing_cast(*x))).collect();
        let panic_lane = lanes.iter().position(|l| l.is_err());
        match (&out.overflowing, panic_lane) {
            (Err(_), Some(_)) => {}
            (Err(p), None) => return Some((api, "panic", "panic_iff_some_element_panics", format!("{} [{}] panicked ({}) but the scalar cast panics on no element of {:?}", names[4], mode, p, e))),
            (Ok(g), Some(k)) => return Some((api, "missing_panic", "panic_iff_some_element_panics", format!("{} [{}] returned {:?} but the scalar form panics on element {} ({:?}); input {:?}", names[4], mode, g, k, e[k], e))),
            (Ok((g, flag)), None) => {
                let mut any = None;
                for k in 0..n {
                    let (x, o) = *lanes[k].as_ref().unwrap();
                    if o && any.is_none() {
                        any = Some(k);
                    }
                    if g.len() != n || !g[k].same(x) {
                        return Some((api, "wrong_value", "element_value", format!("{} [{}]: element {} is {:?}, scalar overflowing_cast of {:?} is {:?}; input {:?}", names[4], mode, k, g.get(k), e[k], x, e)));
                    }
                }
                if *flag != any.is_some() {
                    return Some((api, "wrong_value", "overflow_flag", format!("{} [{}]: flag is {} but {}; input {:?}", names[4], mode, flag, match any { Some(k) => format!("element {} ({:?}) overflows", k, e[k]), None => "no element overflows".to_string() }, e)));
                }
            }
        }
        None
    })());
    bads
}

const AZ_TRAIT_NAMES: [&str; 6] = ["cast", "checked_cast", "saturating_cast", "wrapping_cast", "overflowing_cast", "unwrapped_cast"];
const AZ_INHERENT_NAMES: [&str; 6] = ["az", "checked_as", "saturating_as", "wrapping_as", "overflowing_as", "unwrapped_as"];

fn az_index<S, D>(cfg: &Config, sub: &mut Sub, idx: u64, which: usize)
where
    S: CastEl + AzAll<D>,
    D: CastEl,
{
    let mut rng = Rng::for_case(&format!("az_casts/{}/{}", S::NAME, D::NAME), cfg.case_seed(), idx);
    let ty = format!("{}->{}", S::NAME, D::NAME);
    let fails = |x: S| guarded(|| az::CheckedCast::<D>::checked_cast(x)).ok().flatten().is_none();
    let mut c = 0usize;
    macro_rules! vk {
        ($V:ident) => {
            if which == c {
                let cname = <$V<S> as VecX<S>>::NAME;
                let n = <$V<S> as VecX<S>>::DIM;
                for (mode, e) in cast_inputs::<S>(&mut rng, n, &fails) {
                    let mut h = H64::new();
                    h.s(cname).s(&ty);
                    for x in &e {
                        h.u(x.hb());
                    }
                    for nm in AZ_TRAIT_NAMES.iter().chain(AZ_INHERENT_NAMES.iter()) {
                        sub.saw(&format!("{}::{}", cname, nm));
                    }
                    let t = az_via_traits::<S, D, $V<S>, $V<D>>(&e);
                    let v = <$V<S> as VecX<S>>::from_fn(|k| e[k]);
                    let inh = AzOut::<D> {
                        cast: guarded(|| v.az::<D>()).map(|r| r.to_vec()),
                        checked: guarded(|| v.checked_as::<D>()).map(|o| o.map(|r| r.to_vec())),
                        saturating: guarded(|| v.saturating_as::<D>()).map(|r| r.to_vec()),
                        wrapping: guarded(|| v.wrapping_as::<D>()).map(|r| r.to_vec()),
                        overflowing: guarded(|| v.overflowing_as::<D>()).map(|(r, f)| (r.to_vec(), f)),
                        unwrapped: guarded(|| v.unwrapped_as::<D>()).map(|r| r.to_vec()),
                    };
                    let mut bads = judge_az::<S, D>(cname, &AZ_TRAIT_NAMES, mode, &e, t);
                    bads.extend(judge_az::<S, D>(cname, &AZ_INHERENT_NAMES, mode, &e, inh));
                    if bads.is_empty() {
                        sub.sample(|| format!("{} {} [{}]: {:?}", cname, ty, mode, e));
                        sub.held(h.get(), true);
                    }
                    for (bi, (api, class, what, detail)) in bads.into_iter().enumerate() {
                        let v = violation(PROP, sub, &api, &ty, class, what, detail, cfg.case_seed(), idx);
                        if bi == 0 {
                            sub.violated(v);
                        } else {
                            sub.add_violation(v);
                        }
                    }
                }
            }
            c += 1;
        };
    }
    for_all_vec_kinds!(vk);
}

fn az_casts(cfg: &Config, rep: &mut Report) {
    let n = cfg.n(13 * CAST_PAIRS as u64 * 30, 13 * CAST_PAIRS as u64 * 1500);
    let mut proto = Sub::new(
        "az_casts",
        "the six az casts of the 13 vector kinds, through the trait impls (az::Cast/CheckedCast/SaturatingCast/WrappingCast/OverflowingCast/UnwrappedCast for VecN<T> -> VecN<U>) and through the inherent methods (az, checked_as, saturating_as, wrapping_as, overflowing_as, unwrapped_as); kind = index mod 13, type pair = (index / 13) mod 8 over f64->u8, f64->i32, i64->u8, i32->i8, i8->u32, f32->i16, f32->i64, u32->i32 (az implements all six forms only for integer targets; element pools as in `casts`); inputs per index: no failing element, exactly one failing at EVERY position, several failing, unconstrained (failing = scalar checked_cast is None); each element equals the scalar az cast of the element placed there; checked form None iff some element is None; overflow flag iff some element overflows; a form panics iff the scalar form panics on some element (NaN/inf for wrapping/overflowing/saturating, any overflow for unwrapped, overflow for cast when debug assertions are on); distinct by hash of the elements",
    )
    .with_floor(n * 2);
    proto = req_all(proto, &KINDS, &AZ_TRAIT_NAMES);
    proto = req_all(proto, &KINDS, &AZ_INHERENT_NAMES);
    let s = run_cases(cfg, proto, n, |s, i| {
        let which = (i % 13) as usize;
        match (i / 13) % CAST_PAIRS as u64 {
            0 => az_index::<f64, u8>(cfg, s, i, which),
            1 => az_index::<f64, i32>(cfg, s, i, which),
            2 => az_index::<i64, u8>(cfg, s, i, which),
            3 => az_index::<i32, i8>(cfg, s, i, which),
            4 => az_index::<i8, u32>(cfg, s, i, which),
            5 => az_index::<f32, i16>(cfg, s, i, which),
            6 => az_index::<f32, i64>(cfg, s, i, which),
            _ => az_index::<u32, i32>(cfg, s, i, which),
        }
    });
    rep.push(s);
}

// ====================================================================================
// 6. approx lifts

/// a pair of floats from every class the scalar relations distinguish
fn gen_pair<T: FloatEl>(rng: &mut Rng) -> (T, T) {
    let x: T = match rng.below(6) {
        0 => T::of(rng.f64_in(-1000.0, 1000.0)),
        1 => T::of(rng.f64_in(-1.0, 1.0)),
        2 => T::of(rng.f64_in(-1.0, 1.0) * 1e-6),
        3 => T::of(rng.range_i64(-10, 10) as f64),
        4 => T::of(rng.f64_in(1.0, 9.0) * 1e30),
        _ => T::of(rng.f64_in(1.0, 2.0)),
    };
    let finite_up = |x: T, k: u64| {
        let y = x.ulps_up(k);
        if y.is_finite() {
            y
        } else {
            x
        }
    };
    let (a, b) = match rng.below(20) {
        0 => (x, x),
        1 => (T::of(0.0), T::of(-0.0)),
        2 => (T::min_sub().ulps_up(rng.below(50)), T::min_sub().ulps_up(rng.below(50))),
        3 => (T::min_sub(), -T::min_sub()),
        4 => (x, finite_up(x, 1)),
        5 => (x, finite_up(x, 4)),
        6 => (x, finite_up(x, 5)),
        7 => (x, finite_up(x, rng.below(2000))),
        8 => (x, x * T::of(1.0 + 1e-6)),
        9 => (x, x * T::of(1.0 + 1e-3)),
        10 => (x, x + T::of(1e-3)),
        11 => (T::infinity(), T::infinity()),
        12 => (T::infinity(), T::neg_infinity()),
        13 => (T::nan(), T::nan()),
        14 => (T::nan(), x),
        15 => (x, T::infinity()),
        16 => (T::max_value(), T::max_value().ulps_up(u64::MAX)), // MAX and its predecessor
        17 => (x, -x),
        18 => (T::of(0.0), T::min_positive_value()),
        _ => (x, T::of(rng.f64_in(-1000.0, 1000.0))),
    };
    if rng.bool() {
        (a, b)
    } else {
        (b, a)
    }
}

fn gen_eps<T: FloatEl>(rng: &mut Rng) -> T {
    match rng.below(12) {
        0 => T::of(0.0),
        1 | 2 => T::epsilon(),
        3 => T::of(1e-6),
        4 => T::of(1e-3),
        5 => T::of(0.5),
        6 => T::of(1e10),
        7 => T::infinity(),
        8 => T::min_sub().ulps_up(rng.below(100)),
        9 => T::of(-1.0),
        10 => T::nan(),
        _ => T::of(rng.f64_in(0.0, 1e-2)),
    }
}

#[derive(Clone, Copy)]
struct ApxParams<T> {
    eps: T,
    max_rel: T,
    max_ulps: u32,
}

fn scalar_rel<T: FloatEl>(rel: usize, a: T, b: T, p: &ApxParams<T>) -> bool {
    match rel {
        0 => <T as AbsDiffEq>::abs_diff_eq(&a, &b, p.eps),
        1 => <T as RelativeEq>::relative_eq(&a, &b, p.eps, p.max_rel),
        _ => <T as UlpsEq>::ulps_eq(&a, &b, p.eps, p.max_ulps),
    }
}
const REL_NAMES: [&str; 3] = ["abs_diff_eq", "relative_eq", "ulps_eq"];

fn draw_pair<T: FloatEl>(rng: &mut Rng, rel: usize, p: &ApxParams<T>, want: bool) -> Option<(T, T)> {
    for _ in 0..200 {
        let (a, b) = gen_pair::<T>(rng);
        if scalar_rel(rel, a, b, p) == want {
            return Some((a, b));
        }
    }
    None
}

/// `n` element pairs through one container type
fn approx_container<T: FloatEl, C>(cfg: &Config, sub: &mut Sub, idx: u64, rng: &mut Rng, cname: &str, n: usize, build: &dyn Fn(&[T]) -> C)
where
    C: AbsDiffEq<Epsilon = T> + RelativeEq + UlpsEq + Debug,
{
    // defaults are the scalar's
    {
        for (op, ok, d) in [
            ("default_epsilon", C::default_epsilon().same(T::default_epsilon()), format!("{:?} vs scalar {:?}", C::default_epsilon(), T::default_epsilon())),
            ("default_max_relative", C::default_max_relative().same(T::default_max_relative()), format!("{:?} vs scalar {:?}", C::default_max_relative(), T::default_max_relative())),
            ("default_max_ulps", C::default_max_ulps() == T::default_max_ulps(), format!("{:?} vs scalar {:?}", C::default_max_ulps(), T::default_max_ulps())),
        ] {
            let api = format!("{}::{}", cname, op);
            sub.saw(&api);
            if !ok {
                let v = violation(PROP, sub, &api, T::NAME, "wrong_value", "default_differs_from_scalar", d, cfg.case_seed(), idx);
                sub.add_violation(v);
            }
        }
    }
    for focus in 0..3 {
        let p = ApxParams::<T> {
            eps: gen_eps::<T>(rng),
            max_rel: if rng.chance(1, 3) { T::default_max_relative() } else { gen_eps::<T>(rng) },
            max_ulps: *rng.pick(&[0u32, 1, 2, 3, 4, 5, 16, 1000, 1 << 20, u32::MAX]),
        };
        // inputs: (mode, pairs)
        let mut inputs: Vec<(&'static str, Vec<(T, T)>)> = Vec::new();
        let good = |rng: &mut Rng| -> Option<Vec<(T, T)>> { (0..n).map(|_| draw_pair(rng, focus, &p, true)).collect() };
        if let Some(g) = good(rng) {
            inputs.push(("none_failing", g));
        }
        for pos in 0..n {
            if let (Some(mut g), Some(b)) = (good(rng), draw_pair(rng, focus, &p, false)) {
                g[pos] = b;
                inputs.push(("one_failing", g));
            }
        }
        if n >= 2 {
            if let Some(mut g) = good(rng) {
                let k = 2 + rng.usize_below(n - 1);
                let mut posv: Vec<usize> = (0..n).collect();
                rng.shuffle(&mut posv);
                for &q in &posv[..k] {
                    if let Some(b) = draw_pair(rng, focus, &p, false) {
                        g[q] = b;
                    }
                }
                inputs.push(("several_failing", g));
            }
        }
        inputs.push(("unconstrained", (0..n).map(|_| gen_pair::<T>(rng)).collect()));
        // (added after seeded changes C20_P / C20_Q) the SAME OBJECT on both sides: `m.relative_eq(&m, ..)`, a slice
        // compared pairwise including i == j, a cache compared with itself.  An element is not approximately equal
        // to itself when it is a NaN (all three relations), an infinity (abs_diff_eq: inf - inf is NaN) or when the
        // epsilon is negative / NaN, and the container must say so; a bit-equal *copy* is the other member of the
        // class.  One lane is forced to NaN / +inf / -inf in three cases out of four.
        for same in ["same_object", "bit_equal_copy"] {
            let mut v: Vec<(T, T)> = (0..n).map(|_| { let q = gen_pair::<T>(rng); (q.0, q.0) }).collect();
            let special = [T::nan(), T::infinity(), T::neg_infinity()];
            let k = rng.usize_below(4);
            if k < 3 {
                let pos = rng.usize_below(n);
                v[pos] = (special[k], special[k]);
            }
            inputs.push((same, v));
        }
        for (mode, pairs) in inputs {
            let xs: Vec<T> = pairs.iter().map(|q| q.0).collect();
            let ys: Vec<T> = pairs.iter().map(|q| q.1).collect();
            let (c1, c2) = (build(&xs), build(&ys));
            let c2: &C = if mode == "same_object" { &c1 } else { &c2 };
            let mut h = H64::new();
            h.s(cname).s(T::NAME).s(mode).u(focus as u64).u(p.eps.bits64()).u(p.max_rel.bits64()).u(p.max_ulps as u64);
            for q in &pairs {
                h.u(q.0.bits64()).u(q.1.bits64());
            }
            let mut bads: Vec<(String, &'static str, &'static str, String)> = Vec::new();
            let mut failing_focus = 0usize;
            for rel in 0..3 {
                let api = format!("{}::{}", cname, REL_NAMES[rel]);
                sub.saw(&api);
                let lanes: Vec<bool> = (0..n).map(|k| scalar_rel(rel, xs[k], ys[k], &p)).collect();
                let exp = lanes.iter().all(|b| *b);
                if rel == focus {
                    failing_focus = lanes.iter().filter(|b| !**b).count();
                }
                let got = guarded(|| match rel {
                    0 => C::abs_diff_eq(&c1, c2, p.eps),
                    1 => C::relative_eq(&c1, c2, p.eps, p.max_rel),
                    _ => C::ulps_eq(&c1, c2, p.eps, p.max_ulps),
                });
                let params = format!("epsilon={:?} max_relative={:?} max_ulps={}", p.eps, p.max_rel, p.max_ulps);
                // the negated forms (provided by the approx traits, possibly overridden): "not equal"
                // exactly when some pair of corresponding elements is not equal
                let got_ne = guarded(|| match rel {
                    0 => C::abs_diff_ne(&c1, c2, p.eps),
                    1 => C::relative_ne(&c1, c2, p.eps, p.max_rel),
                    _ => C::ulps_ne(&c1, c2, p.eps, p.max_ulps),
                });
                match got_ne {
                    Ok(g) if g == !exp => {}
                    Ok(g) => bads.push((format!("{}::{}", cname, ["abs_diff_ne", "relative_ne", "ulps_ne"][rel]), "wrong_value", "negation_of_conjunction_of_elements", format!("{} [{} for {}] is {} but the per-element scalar verdicts of the positive form are {:?} (so 'not equal' must be {}); {}; lhs {:?} rhs {:?}", ["abs_diff_ne", "relative_ne", "ulps_ne"][rel], mode, REL_NAMES[focus], g, lanes, !exp, params, xs, ys))),
                    Err(pn) => bads.push((format!("{}::{}", cname, ["abs_diff_ne", "relative_ne", "ulps_ne"][rel]), "panic", "panic_where_value_promised", format!("negated form panicked ({}); {}", pn, params))),
                }
                match got {
                    Ok(g) if g == exp => {}
                    Ok(g) => {
                        {
                            bads.push((api, "wrong_value", "conjunction_of_elements", format!("{} [{} for {}] is {} but the per-element scalar verdicts are {:?} (conjunction {}); {}; lhs {:?} rhs {:?}", REL_NAMES[rel], mode, REL_NAMES[focus], g, lanes, exp, params, xs, ys)));
                        }
                    }
                    Err(pn) => {
                        {
                            bads.push((api, "panic", "panic_where_value_promised", format!("{} panicked ({}); {}; lhs {:?} rhs {:?}", REL_NAMES[rel], pn, params, xs, ys)));
                        }
                    }
                }
            }
            if bads.is_empty() {
                sub.sample(|| format!("{}<{}> [{} for {}]: lhs {:?} rhs {:?} eps {:?} max_rel {:?} ulps {}", cname, T::NAME, mode, REL_NAMES[focus], xs, ys, p.eps, p.max_rel, p.max_ulps));
                sub.held(h.get(), failing_focus <= 1);
            }
            for (bi, (api, class, what, detail)) in bads.into_iter().enumerate() {
                let v = violation(PROP, sub, &api, T::NAME, class, what, detail, cfg.case_seed(), idx);
                if bi == 0 {
                    sub.violated(v);
                } else {
                    sub.add_violation(v);
                }
            }
        }
    }
}

const APPROX_CONTAINERS: u64 = 20;

fn approx_index<T: FloatEl>(cfg: &Config, sub: &mut Sub, idx: u64) {
    let which = (idx % APPROX_CONTAINERS) as usize;
    let mut rng = Rng::for_case(&format!("approx/{}", T::NAME), cfg.case_seed(), idx);
    let mut c = 0usize;
    macro_rules! vk {
        ($V:ident) => {
            if which == c {
                approx_container::<T, $V<T>>(cfg, sub, idx, &mut rng, <$V<T> as VecX<T>>::NAME, <$V<T> as VecX<T>>::DIM, &|e| <$V<T> as VecX<T>>::from_fn(|k| e[k]));
            }
            c += 1;
        };
    }
    for_all_vec_kinds!(vk);
    macro_rules! mk {
        ($($M:ident),+) => {$(
            if which == c {
                let n = <$M<T> as MatX<T>>::N;
                approx_container::<T, $M<T>>(cfg, sub, idx, &mut rng, <$M<T> as MatX<T>>::NAME, n * n, &|e| <$M<T> as MatX<T>>::from_fn(|i, j| e[i * n + j]));
            }
            c += 1;
        )+};
    }
    mk!(Rows2, Rows3, Rows4, Cols2, Cols3, Cols4);
    if which == c {
        approx_container::<T, Quaternion<T>>(cfg, sub, idx, &mut rng, "Quaternion", 4, &|e| Quaternion { x: e[0], y: e[1], z: e[2], w: e[3] });
    }
}

fn approx_sub(cfg: &Config, rep: &mut Report) {
    let n = cfg.n(APPROX_CONTAINERS * 2 * 40, APPROX_CONTAINERS * 2 * 4000);
    let ops = ["abs_diff_eq", "relative_eq", "ulps_eq", "default_epsilon", "default_max_relative", "default_max_ulps"];
    let mut proto = Sub::new(
        "approx",
        "AbsDiffEq / RelativeEq / UlpsEq of the 13 vector kinds, the 6 matrix types and Quaternion (container = index mod 20; f32 for even index/20, f64 for odd): per index and per focus relation random epsilon {0, EPSILON, 1e-6, 1e-3, 0.5, 1e10, inf, subnormal, -1, NaN, uniform}, max_relative, max_ulps {0..5,16,1000,2^20,MAX}; element pairs from {equal, +0/-0, subnormals, 1/4/5/k ulps apart, relative 1e-6 / 1e-3 apart, absolute 1e-3 apart, same/opposite infinities, NaN, MAX and its predecessor, x/-x, 0/MIN_POSITIVE, unrelated}; inputs: no failing element, exactly one failing element at EVERY position (others passing, w.r.t. the focus relation's scalar verdict), several failing, unconstrained; all three relations of the container must equal the conjunction of the scalar approx verdicts of the element pairs placed there, for the same parameters; defaults equal the scalar's; non-trivial = at most one failing element for the focus relation; distinct by hash of parameters and elements",
    )
    .with_floor(n * 8);
    proto = req_all(proto, &KINDS, &ops);
    proto = req_all(proto, &MATS, &ops);
    proto = req_all(proto, &["Quaternion"], &ops);
    let s = run_cases(cfg, proto, n, |s, i| {
        if (i / APPROX_CONTAINERS) % 2 == 0 {
            approx_index::<f32>(cfg, s, i)
        } else {
            approx_index::<f64>(cfg, s, i)
        }
    });
    rep.push(s);
}

// ====================================================================================
// 7. mint conversions (pure data movement: distinct integers)

fn distinct(rng: &mut Rng, n: usize) -> Vec<i64> {
    let base = rng.range_i64(-1_000_000, 1_000_000) * 100;
    let mut v: Vec<i64> = (0..n as i64).map(|k| base + k).collect();
    rng.shuffle(&mut v);
    v
}

fn mv2(f: impl Fn(usize) -> i64) -> mint::Vector2<i64> {
    mint::Vector2 { x: f(0), y: f(1) }
}
fn mv3(f: impl Fn(usize) -> i64) -> mint::Vector3<i64> {
    mint::Vector3 { x: f(0), y: f(1), z: f(2) }
}
fn mv4(f: impl Fn(usize) -> i64) -> mint::Vector4<i64> {
    mint::Vector4 { x: f(0), y: f(1), z: f(2), w: f(3) }
}
fn rv2(v: &mint::Vector2<i64>) -> Vec<i64> {
    vec![v.x, v.y]
}
fn rv3(v: &mint::Vector3<i64>) -> Vec<i64> {
    vec![v.x, v.y, v.z]
}
fn rv4(v: &mint::Vector4<i64>) -> Vec<i64> {
    vec![v.x, v.y, v.z, v.w]
}
// mint documents: RowMatrixN { x, y, .. } are the ROWS, ColumnMatrixN { x, y, .. } are the COLUMNS.
// builders take the abstract element function f(row, column); readers return rows of the abstract matrix.
fn row2(f: impl Fn(usize, usize) -> i64) -> mint::RowMatrix2<i64> {
    mint::RowMatrix2 { x: mv2(|j| f(0, j)), y: mv2(|j| f(1, j)) }
}
fn row3(f: impl Fn(usize, usize) -> i64) -> mint::RowMatrix3<i64> {
    mint::RowMatrix3 { x: mv3(|j| f(0, j)), y: mv3(|j| f(1, j)), z: mv3(|j| f(2, j)) }
}
fn row4(f: impl Fn(usize, usize) -> i64) -> mint::RowMatrix4<i64> {
    mint::RowMatrix4 { x: mv4(|j| f(0, j)), y: mv4(|j| f(1, j)), z: mv4(|j| f(2, j)), w: mv4(|j| f(3, j)) }
}
fn col2(f: impl Fn(usize, usize) -> i64) -> mint::ColumnMatrix2<i64> {
    mint::ColumnMatrix2 { x: mv2(|i| f(i, 0)), y: mv2(|i| f(i, 1)) }
}
fn col3(f: impl Fn(usize, usize) -> i64) -> mint::ColumnMatrix3<i64> {
    mint::ColumnMatrix3 { x: mv3(|i| f(i, 0)), y: mv3(|i| f(i, 1)), z: mv3(|i| f(i, 2)) }
}
fn col4(f: impl Fn(usize, usize) -> i64) -> mint::ColumnMatrix4<i64> {
    mint::ColumnMatrix4 { x: mv4(|i| f(i, 0)), y: mv4(|i| f(i, 1)), z: mv4(|i| f(i, 2)), w: mv4(|i| f(i, 3)) }
}
fn transpose(rows: Vec<Vec<i64>>) -> Vec<Vec<i64>> {
    let n = rows.len();
    (0..n).map(|i| (0..n).map(|j| rows[j][i]).collect()).collect()
}
fn rrow2(m: &mint::RowMatrix2<i64>) -> Vec<Vec<i64>> {
    vec![rv2(&m.x), rv2(&m.y)]
}
fn rrow3(m: &mint::RowMatrix3<i64>) -> Vec<Vec<i64>> {
    vec![rv3(&m.x), rv3(&m.y), rv3(&m.z)]
}
fn rrow4(m: &mint::RowMatrix4<i64>) -> Vec<Vec<i64>> {
    vec![rv4(&m.x), rv4(&m.y), rv4(&m.z), rv4(&m.w)]
}
fn rcol2(m: &mint::ColumnMatrix2<i64>) -> Vec<Vec<i64>> {
    transpose(vec![rv2(&m.x), rv2(&m.y)])
}
fn rcol3(m: &mint::ColumnMatrix3<i64>) -> Vec<Vec<i64>> {
    transpose(vec![rv3(&m.x), rv3(&m.y), rv3(&m.z)])
}
fn rcol4(m: &mint::ColumnMatrix4<i64>) -> Vec<Vec<i64>> {
    transpose(vec![rv4(&m.x), rv4(&m.y), rv4(&m.z), rv4(&m.w)])
}

fn mint_verdict(cfg: &Config, sub: &mut Sub, idx: u64, api: &str, what: &'static str, h: u64, got: Result<bool, String>, detail: &dyn Fn() -> String) {
    sub.saw(api);
    match got {
        Ok(true) => sub.held(h, true),
        Ok(false) => {
            let v = violation(PROP, sub, api, "i64", "wrong_value", what, detail(), cfg.case_seed(), idx);
            sub.violated(v)
        }
        Err(p) => {
            let v = violation(PROP, sub, api, "i64", "panic", "panic_where_value_promised", format!("panicked: {}; {}", p, detail()), cfg.case_seed(), idx);
            sub.violated(v)
        }
    }
}

fn mint_index(cfg: &Config, sub: &mut Sub, idx: u64) {
    let mut rng = Rng::for_case("mint", cfg.case_seed(), idx);
    // vectors and points
    macro_rules! mvec {
        ($V:ident, $M:ident, $n:expr, $mk:ident, $rd:expr) => {{
            let e = distinct(&mut rng, $n);
            let mut h = H64::new();
            h.s(stringify!($V)).s(stringify!($M));
            for x in &e {
                h.i(*x as i128);
            }
            let h = h.get();
            let api_from = concat!(stringify!($V), "::from(mint::", stringify!($M), ")");
            let api_into = concat!(stringify!($V), "::into(mint::", stringify!($M), ")");
            let m0 = $mk(|k| e[k]);
            let m: mint::$M<i64> = mint::$M::from(<[i64; $n]>::from(m0));
            let got = guarded(|| <$V<i64> as From<mint::$M<i64>>>::from(m));
            mint_verdict(cfg, sub, idx, api_from, "element_position", h, got.clone().map(|v| v.to_vec() == e), &|| format!("mint::{} with elements {:?} converted to {:?}", stringify!($M), e, got));
            let v = <$V<i64> as VecX<i64>>::from_fn(|k| e[k]);
            let got = guarded(|| {
                let m: mint::$M<i64> = v.into();
                let arr: [i64; $n] = m.into();
                arr.to_vec()
            });
            mint_verdict(cfg, sub, idx, api_into, "element_position", h ^ 1, got.clone().map(|a| a == e), &|| format!("{} with elements {:?} converted to mint::{} with elements {:?}", stringify!($V), e, stringify!($M), got));
            let got = guarded(|| {
                let m: mint::$M<i64> = v.into();
                <$V<i64> as From<mint::$M<i64>>>::from(m).to_vec()
            });
            mint_verdict(cfg, sub, idx, api_into, "round_trip", h ^ 2, got.clone().map(|a| a == e), &|| format!("{:?} -> mint::{} -> back gave {:?}", e, stringify!($M), got));
        }};
    }
    mvec!(Vec2, Vector2, 2, mv2, rv2);
    mvec!(Vec2, Point2, 2, mv2, rv2);
    mvec!(Vec3, Vector3, 3, mv3, rv3);
    mvec!(Vec3, Point3, 3, mv3, rv3);
    mvec!(Vec4, Vector4, 4, mv4, rv4);
    // quaternion: mint { v: (x,y,z), s } <-> vek { x, y, z, w }
    {
        let e = distinct(&mut rng, 4);
        let mut h = H64::new();
        h.s("Quaternion");
        for x in &e {
            h.i(*x as i128);
        }
        let h = h.get();
        let m = mint::Quaternion::<i64> { v: mv3(|k| e[k]), s: e[3] };
        let got = guarded(|| {
            let q = Quaternion::<i64>::from(m);
            vec![q.x, q.y, q.z, q.w]
        });
        mint_verdict(cfg, sub, idx, "Quaternion::from(mint::Quaternion)", "element_position", h, got.clone().map(|a| a == e), &|| format!("mint::Quaternion v={:?} s={} converted to (x,y,z,w) = {:?}", &e[..3], e[3], got));
        let q = Quaternion::<i64> { x: e[0], y: e[1], z: e[2], w: e[3] };
        let got = guarded(|| {
            let m: mint::Quaternion<i64> = q.into();
            vec![m.v.x, m.v.y, m.v.z, m.s]
        });
        mint_verdict(cfg, sub, idx, "Quaternion::into(mint::Quaternion)", "element_position", h ^ 1, got.clone().map(|a| a == e), &|| format!("Quaternion (x,y,z,w)={:?} converted to mint (v.x,v.y,v.z,s) = {:?}", e, got));
    }
    // matrices: abstract element (i,j) must be preserved for both mint layouts and both vek layouts
    macro_rules! mmat {
        ($M:ident, $Mint:ident, $n:expr, $mk:ident, $rd:ident) => {{
            let e = distinct(&mut rng, $n * $n);
            let rows: Vec<Vec<i64>> = (0..$n).map(|i| (0..$n).map(|j| e[i * $n + j]).collect()).collect();
            let mut h = H64::new();
            h.s(<$M<i64> as MatX<i64>>::NAME).s(stringify!($Mint));
            for x in &e {
                h.i(*x as i128);
            }
            let h = h.get();
            let api_from = format!("{}::from(mint::{})", <$M<i64> as MatX<i64>>::NAME, stringify!($Mint));
            let api_into = format!("{}::into(mint::{})", <$M<i64> as MatX<i64>>::NAME, stringify!($Mint));
            let m = $mk(|i, j| e[i * $n + j]);
            let got = guarded(|| <$M<i64> as From<mint::$Mint<i64>>>::from(m).to_rows());
            mint_verdict(cfg, sub, idx, &api_from, "element_position", h, got.clone().map(|r| r == rows), &|| format!("mint::{} whose (row,column) elements are {:?} converted to a matrix with rows {:?}", stringify!($Mint), rows, got));
            let v = <$M<i64> as MatX<i64>>::from_fn(|i, j| e[i * $n + j]);
            let got = guarded(|| {
                let m: mint::$Mint<i64> = v.into();
                $rd(&m)
            });
            mint_verdict(cfg, sub, idx, &api_into, "element_position", h ^ 1, got.clone().map(|r| r == rows), &|| format!("matrix with rows {:?} converted to mint::{} whose (row,column) elements are {:?}", rows, stringify!($Mint), got));
            let got = guarded(|| {
                let m: mint::$Mint<i64> = v.into();
                <$M<i64> as From<mint::$Mint<i64>>>::from(m).to_rows()
            });
            mint_verdict(cfg, sub, idx, &api_into, "round_trip", h ^ 2, got.clone().map(|r| r == rows), &|| format!("rows {:?} -> mint::{} -> back gave {:?}", rows, stringify!($Mint), got));
        }};
    }
    mmat!(Rows2, RowMatrix2, 2, row2, rrow2);
    mmat!(Rows2, ColumnMatrix2, 2, col2, rcol2);
    mmat!(Cols2, RowMatrix2, 2, row2, rrow2);
    mmat!(Cols2, ColumnMatrix2, 2, col2, rcol2);
    mmat!(Rows3, RowMatrix3, 3, row3, rrow3);
    mmat!(Rows3, ColumnMatrix3, 3, col3, rcol3);
    mmat!(Cols3, RowMatrix3, 3, row3, rrow3);
    mmat!(Cols3, ColumnMatrix3, 3, col3, rcol3);
    mmat!(Rows4, RowMatrix4, 4, row4, rrow4);
    mmat!(Rows4, ColumnMatrix4, 4, col4, rcol4);
    mmat!(Cols4, RowMatrix4, 4, row4, rrow4);
    mmat!(Cols4, ColumnMatrix4, 4, col4, rcol4);
}

fn mint_sub(cfg: &Config, rep: &mut Report) {
    let n = cfg.n(200, 20_000);
    let mut proto = Sub::new(
        "mint",
        "every From/Into between vek and mint that exists (Vec2<->Vector2,Point2; Vec3<->Vector3,Point3; Vec4<->Vector4; Quaternion<->mint::Quaternion; row- and column-major Mat2/3/4 <-> RowMatrix2/3/4 and ColumnMatrix2/3/4) on distinct shuffled i64 elements: element k / (row,column) element (i,j) lands at the corresponding position (vek side read through raw fields via VecX/MatX, mint side through its public fields: RowMatrix.x/y/z/w are rows, ColumnMatrix.x/y/z/w are columns, Quaternion {v,s} = ((x,y,z),w)); into-then-from is the identity; distinct by hash of the elements",
    )
    .with_floor(n * 40);
    let mut req: Vec<String> = Vec::new();
    for (v, ms) in [("Vec2", vec!["Vector2", "Point2"]), ("Vec3", vec!["Vector3", "Point3"]), ("Vec4", vec!["Vector4"]), ("Quaternion", vec!["Quaternion"])] {
        for m in ms {
            req.push(format!("{}::from(mint::{})", v, m));
            req.push(format!("{}::into(mint::{})", v, m));
        }
    }
    for m in MATS {
        let d = &m[4..];
        for l in ["RowMatrix", "ColumnMatrix"] {
            req.push(format!("{}::from(mint::{}{})", m, l, d));
            req.push(format!("{}::into(mint::{}{})", m, l, d));
        }
    }
    proto.required = req;
    let s = run_cases(cfg, proto, n, |s, i| mint_index(cfg, s, i));
    rep.push(s);
}

// ====================================================================================
// 8. bytemuck

trait PodEl: bytemuck::Pod + Debug + PartialEq + Send + Sync + 'static {
    const NAME: &'static str;
    fn rand(rng: &mut Rng) -> Self;
    fn ne_bytes(self) -> Vec<u8>;
    fn is_zero_bits(self) -> bool {
        self.ne_bytes().iter().all(|b| *b == 0)
    }
}
macro_rules! pod_el {
    ($($T:ident: $mk:expr);+) => {$(
        impl PodEl for $T {
            const NAME: &'static str = stringify!($T);
            fn rand(rng: &mut Rng) -> $T { let f: fn(&mut Rng) -> $T = $mk; f(rng) }
            fn ne_bytes(self) -> Vec<u8> { self.to_ne_bytes().to_vec() }
        }
    )+};
}
pod_el!(u8: |r| r.next_u64() as u8; i16: |r| r.next_u64() as i16; f32: |r| r.f64_in(-1e6, 1e6) as f32; u64: |r| r.next_u64());

fn pod_container<T: PodEl, C: bytemuck::Pod + Debug>(cfg: &Config, sub: &mut Sub, idx: u64, rng: &mut Rng, cname: &str, n: usize, build: &dyn Fn(&[T]) -> C, read: &dyn Fn(&C) -> Vec<T>) {
    let e: Vec<T> = (0..n).map(|_| T::rand(rng)).collect();
    let mut h = H64::new();
    h.s(cname).s(T::NAME);
    let bytes: Vec<u8> = e.iter().flat_map(|x| x.ne_bytes()).collect();
    for b in &bytes {
        h.u(*b as u64);
    }
    let c = build(&e);
    let mut bad: Option<(String, &'static str, &'static str, String)> = None;
    // bytes_of
    let api = format!("{}::bytes_of", cname);
    sub.saw(&api);
    match guarded(|| bytemuck::bytes_of(&c).to_vec()) {
        Ok(b) if b == bytes => {}
        Ok(b) => bad = Some((api, "wrong_value", "element_order", format!("bytes_of of elements {:?} is {:?}, the elements' native-endian bytes in declaration order are {:?}", e, b, bytes))),
        Err(p) => bad = Some((api, "panic", "panic_where_value_promised", format!("bytes_of panicked: {}", p))),
    }
    // container -> element slice
    let api = format!("{}::cast_slice", cname);
    sub.saw(&api);
    match guarded(|| bytemuck::cast_slice::<C, T>(std::slice::from_ref(&c)).to_vec()) {
        Ok(s) if s == e => {}
        Ok(s) => {
            if bad.is_none() {
                bad = Some((api.clone(), "wrong_value", "element_order", format!("cast_slice::<{}, {}> of elements {:?} lists {:?}", cname, T::NAME, e, s)))
            }
        }
        Err(p) => {
            if bad.is_none() {
                bad = Some((api.clone(), "panic", "panic_where_value_promised", format!("cast_slice to elements panicked: {}", p)))
            }
        }
    }
    // element slice -> container (pod_read_unaligned: no alignment precondition)
    match guarded(|| read(&bytemuck::pod_read_unaligned::<C>(&bytes))) {
        Ok(s) if s == e => {}
        Ok(s) => {
            if bad.is_none() {
                bad = Some((api, "wrong_value", "element_order", format!("reading a {} from the bytes of {:?} gives elements {:?}", cname, e, s)))
            }
        }
        Err(p) => {
            if bad.is_none() {
                bad = Some((api, "panic", "panic_where_value_promised", format!("pod_read_unaligned panicked: {}", p)))
            }
        }
    }
    // zeroed
    let api = format!("{}::zeroed", cname);
    sub.saw(&api);
    match guarded(|| read(&<C as bytemuck::Zeroable>::zeroed())) {
        Ok(s) if s.len() == n && s.iter().all(|x| x.is_zero_bits()) => {}
        Ok(s) => {
            if bad.is_none() {
                bad = Some((api, "wrong_value", "all_elements_zero", format!("zeroed() has elements {:?}", s)))
            }
        }
        Err(p) => {
            if bad.is_none() {
                bad = Some((api, "panic", "panic_where_value_promised", format!("zeroed panicked: {}", p)))
            }
        }
    }
    match bad {
        None => {
            sub.sample(|| format!("{}<{}>: {:?}", cname, T::NAME, e));
            sub.held(h.get(), true)
        }
        Some((api, class, what, detail)) => {
            let v = violation(PROP, sub, &api, T::NAME, class, what, detail, cfg.case_seed(), idx);
            sub.violated(v)
        }
    }
}

fn pod_index<T: PodEl>(cfg: &Config, sub: &mut Sub, idx: u64) {
    let mut rng = Rng::for_case(&format!("bytemuck/{}", T::NAME), cfg.case_seed(), idx);
    macro_rules! vk {
        ($V:ident) => {
            pod_container::<T, $V<T>>(cfg, sub, idx, &mut rng, <$V<T> as VecX<T>>::NAME, <$V<T> as VecX<T>>::DIM, &|e| <$V<T> as VecX<T>>::from_fn(|k| e[k]), &|c| c.to_vec());
        };
    }
    for_all_vec_kinds!(vk);
    // matrices: memory order = lines in declaration order: rows for row-major, columns for column-major
    macro_rules! mk {
        ($($M:ident),+) => {$(
            {
                let n = <$M<T> as MatX<T>>::N;
                let rm = <$M<T> as MatX<T>>::ROW_MAJOR;
                pod_container::<T, $M<T>>(
                    cfg, sub, idx, &mut rng, <$M<T> as MatX<T>>::NAME, n * n,
                    &|e| <$M<T> as MatX<T>>::from_fn(|i, j| if rm { e[i * n + j] } else { e[j * n + i] }),
                    &|m| (0..n * n).map(|k| if rm { m.get(k / n, k % n) } else { m.get(k % n, k / n) }).collect(),
                );
            }
        )+};
    }
    mk!(Rows2, Rows3, Rows4, Cols2, Cols3, Cols4);
    pod_container::<T, Quaternion<T>>(cfg, sub, idx, &mut rng, "Quaternion", 4, &|e| Quaternion { x: e[0], y: e[1], z: e[2], w: e[3] }, &|q| vec![q.x, q.y, q.z, q.w]);
}

fn bytemuck_sized(cfg: &Config, sub: &mut Sub, idx: u64) {
    // by-value `cast` between a container and the array of its elements
    let mut rng = Rng::for_case("bytemuck/cast", cfg.case_seed(), idx);
    let e: Vec<u32> = (0..16).map(|_| rng.next_u32()).collect();
    let mut h = H64::new();
    h.s("cast");
    for x in &e {
        h.u(*x as u64);
    }
    let mut bad: Option<(&'static str, String)> = None;
    macro_rules! chk {
        ($api:expr, $got:expr, $exp:expr) => {
            sub.saw($api);
            match guarded(|| $got) {
                Ok(g) if g == $exp => {}
                r => {
                    if bad.is_none() {
                        bad = Some(($api, format!("{}: got {:?}, expected {:?}", $api, r, $exp)));
                    }
                }
            }
        };
    }
    let a3: [u32; 3] = [e[0], e[1], e[2]];
    let a4: [u32; 4] = [e[0], e[1], e[2], e[3]];
    let a16: [u32; 16] = std::array::from_fn(|k| e[k]);
    chk!("Vec3::cast", bytemuck::cast::<Vec3<u32>, [u32; 3]>(Vec3 { x: e[0], y: e[1], z: e[2] }).to_vec(), a3.to_vec());
    chk!("Vec3::cast", bytemuck::cast::<[u32; 3], Vec3<u32>>(a3).to_vec(), a3.to_vec());
    chk!("Rgba::cast", bytemuck::cast::<Rgba<u32>, [u32; 4]>(Rgba { r: e[0], g: e[1], b: e[2], a: e[3] }).to_vec(), a4.to_vec());
    chk!("Rgba::cast", bytemuck::cast::<[u32; 4], Rgba<u32>>(a4).to_vec(), a4.to_vec());
    chk!("Quaternion::cast", bytemuck::cast::<Quaternion<u32>, [u32; 4]>(Quaternion { x: e[0], y: e[1], z: e[2], w: e[3] }).to_vec(), a4.to_vec());
    chk!("Rows4::cast", bytemuck::cast::<Rows4<u32>, [u32; 16]>(<Rows4<u32> as MatX<u32>>::from_fn(|i, j| e[i * 4 + j])).to_vec(), a16.to_vec());
    chk!("Cols4::cast", bytemuck::cast::<Cols4<u32>, [u32; 16]>(<Cols4<u32> as MatX<u32>>::from_fn(|i, j| e[j * 4 + i])).to_vec(), a16.to_vec());
    chk!("Rows4::cast", bytemuck::cast::<[u32; 16], Rows4<u32>>(a16).to_rows().concat(), a16.to_vec());
    chk!("Cols4::cast", <Cols4<u32> as MatX<u32>>::to_rows(&bytemuck::cast::<[u32; 16], Cols4<u32>>(a16)).concat(), (0..16).map(|k| e[(k % 4) * 4 + k / 4]).collect::<Vec<u32>>());
    match bad {
        None => sub.held(h.get(), true),
        Some((api, detail)) => {
            let v = violation(PROP, sub, api, "u32", "wrong_value", "element_order", detail, cfg.case_seed(), idx);
            sub.violated(v)
        }
    }
}

fn bytemuck_sub(cfg: &Config, rep: &mut Report) {
    let n = cfg.n(400, 40_000);
    let ops = ["bytes_of", "cast_slice", "zeroed"];
    let mut proto = Sub::new(
        "bytemuck",
        "Pod/Zeroable of the 13 vector kinds, the 6 matrix types and Quaternion over u8, i16, f32, u64 (index mod 5; the fifth = by-value bytemuck::cast between Vec3/Rgba/Quaternion/Mat4 and arrays of u32): bytes_of equals the native-endian bytes of the elements in declaration order (matrices: rows in order for row-major, columns in order for column-major, placed/read through raw fields), cast_slice to the element type lists the elements in that order, pod_read_unaligned of those bytes rebuilds the container, Zeroable::zeroed() has all-zero elements; random elements; distinct by hash of the bytes",
    )
    .with_floor(n * 8);
    proto = req_all(proto, &KINDS, &ops);
    proto = req_all(proto, &MATS, &ops);
    proto = req_all(proto, &["Quaternion"], &ops);
    proto = proto.require(&["Vec3::cast", "Rgba::cast", "Quaternion::cast", "Rows4::cast", "Cols4::cast"]);
    let s = run_cases(cfg, proto, n, |s, i| match i % 5 {
        0 => pod_index::<u8>(cfg, s, i),
        1 => pod_index::<i16>(cfg, s, i),
        2 => pod_index::<f32>(cfg, s, i),
        3 => pod_index::<u64>(cfg, s, i),
        _ => bytemuck_sized(cfg, s, i),
    });
    rep.push(s);
}

fn main() {
    let cfg = Config::from_args(PROP);
    let mut rep = Report::new(cfg.clone());
    lane_sweep_int8(&cfg, &mut rep);
    lifts_wide(&cfg, &mut rep);
    lifts_float(&cfg, &mut rep);
    zero_one(&cfg, &mut rep);
    casts(&cfg, &mut rep);
    az_casts(&cfg, &mut rep);
    approx_sub(&cfg, &mut rep);
    mint_sub(&cfg, &mut rep);
    bytemuck_sub(&cfg, &mut rep);
    std::process::exit(rep.finish());
}

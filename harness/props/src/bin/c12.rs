//! C12 — lerp is affine with exact endpoints; nlerp and slerp stay on the unit sphere;
//! Transform and Transition interpolate through the same functions.
//!
//! * integer `Lerp` impls: exhaustive over all 65 536 (from,to) pairs of i8 and of u8 x a grid of
//!   25 dyadic factors in [-1,2] x {fast, precise} x {f32, f64} x {value, reference}, against the
//!   exact rational result rounded half away from zero; wider integers stratified.
//! * generic lerp (vectors, quaternion components): `Sym` traces decided by polynomial identity
//!   tests; clamped/range forms on exact rationals.
//! * float impls, nlerp, slerp, Transform: f32/f64 sampling with derived tolerances.
//! * Transition: every accessor equals the matching `Lerp` call at the mapped progress.

use monitors::fp::Fp;
use monitors::gen::small_q;
use monitors::prng::{Rng, H64};
use monitors::report::{guarded, parallel, run_cases, take_poison, Config, Report, Sub};
use monitors::sym::{sym_reset, Sym};
use monitors::Q;
use props::*;
use vek::ops::{Clamp, Lerp, Slerp};
use vek::quaternion::repr_c::Quaternion;
use vek::transform::repr_c::Transform;
use vek::transition::{IdentityProgressMapper, LinearTransition, ProgressMapperFn, Transition};
use vek::vec::repr_c::*;

const PROP: &str = "C12";

// ------------------------------------------------------------------------------------
// integer impls, exhaustive over 8-bit endpoints

/// exact value of from + (k/8)(to-from), rounded half away from zero
fn int_model(from: i128, to: i128, k: i128) -> i128 {
    let n = 8 * from + k * (to - from); // exact result is n/8
    let a = n.abs();
    let r = (2 * a + 8) / 16;
    if n < 0 {
        -r
    } else {
        r
    }
}

macro_rules! int8_exhaustive {
    ($rep:expr, $cfg:expr, $T:ty, $name:expr) => {{
        let subname = concat!("int_lerp_exhaustive_", $name);
        let proto = Sub::new(
            subname,
            "all 65 536 (from,to) pairs of the 8-bit type x 25 dyadic factors k/8, k=-8..16 (exact in f32 and f64) x {lerp_unclamped, lerp_unclamped_precise} x factor type {f32,f64} x {by value, by reference}, plus the clamped forms; expected = exact rational from + t(to-from) rounded half away from zero, judged when it lies in the type's range (otherwise outside the property); non-trivial = from != to and 0 < t < 1 or t outside [0,1]; distinct by enumeration",
        )
        .require(&["Lerp::lerp_unclamped", "Lerp::lerp_unclamped_precise", "Lerp::lerp", "Lerp::lerp_precise"]);
        if $cfg.wants(subname) {
            let (min, max) = (<$T>::MIN as i128, <$T>::MAX as i128);
            let span = (max - min + 1) as usize;
            let parts = parallel($cfg.threads, |t, tn| {
                let mut sub = proto.fork();
                let (mut eval, mut nontriv, mut outside) = (0u64, 0u64, 0u64);
                let mut fi = t;
                while fi < span {
                    let from = min + fi as i128;
                    for to in min..=max {
                        for k in -8i128..=16 {
                            let e = int_model(from, to, k);
                            let (a, b) = (from as $T, to as $T);
                            let f32f = k as f32 / 8.0;
                            let f64f = k as f64 / 8.0;
                            let calls: [(&str, &str, Result<$T, String>); 8] = [
                                ("Lerp::lerp_unclamped", "f32/value", guarded(|| <$T as Lerp<f32>>::lerp_unclamped(a, b, f32f))),
                                ("Lerp::lerp_unclamped", "f64/value", guarded(|| <$T as Lerp<f64>>::lerp_unclamped(a, b, f64f))),
                                ("Lerp::lerp_unclamped_precise", "f32/value", guarded(|| <$T as Lerp<f32>>::lerp_unclamped_precise(a, b, f32f))),
                                ("Lerp::lerp_unclamped_precise", "f64/value", guarded(|| <$T as Lerp<f64>>::lerp_unclamped_precise(a, b, f64f))),
                                ("Lerp::lerp_unclamped", "f32/ref", guarded(|| <&$T as Lerp<f32>>::lerp_unclamped(&a, &b, f32f))),
                                ("Lerp::lerp_unclamped", "f64/ref", guarded(|| <&$T as Lerp<f64>>::lerp_unclamped(&a, &b, f64f))),
                                ("Lerp::lerp_unclamped_precise", "f32/ref", guarded(|| <&$T as Lerp<f32>>::lerp_unclamped_precise(&a, &b, f32f))),
                                ("Lerp::lerp_unclamped_precise", "f64/ref", guarded(|| <&$T as Lerp<f64>>::lerp_unclamped_precise(&a, &b, f64f))),
                            ];
                            if e < min || e > max {
                                outside += calls.len() as u64;
                            } else {
                                for (api, form, got) in calls.iter() {
                                    eval += 1;
                                    let ok = matches!(got, Ok(g) if *g as i128 == e);
                                    if ok {
                                        if from != to && k != 0 && k != 8 {
                                            nontriv += 1;
                                        }
                                    } else {
                                        let diff_ovf = (to - from) < min || (to - from) > max;
                                        let what = if diff_ovf && *api == "Lerp::lerp_unclamped" { "difference_overflows_type" } else { "other" };
                                        let class = if got.is_err() { "panic" } else { "wrong_value" };
                                        let d = format!("<{} as Lerp>::{}({}, {}, {}/8) [{}] -> {:?}, exact result rounds to {}", $name, api, from, to, k, form, got, e);
                                        sub.add_violation(violation(PROP, &sub, api, $name, class, what, d, $cfg.seed, ((fi as u64) << 16) | ((to - min) as u64)));
                                    }
                                }
                            }
                            // clamped forms: equal the unclamped form at the clamped factor
                            if (to + k) % 3 == 0 {
                                let kc = k.clamp(0, 8);
                                let ec = int_model(from, to, kc);
                                let c: [(&str, Result<$T, String>); 4] = [
                                    ("Lerp::lerp", guarded(|| <$T as Lerp<f32>>::lerp(a, b, f32f))),
                                    ("Lerp::lerp_precise", guarded(|| <$T as Lerp<f64>>::lerp_precise(a, b, f64f))),
                                    ("Lerp::lerp_inclusive_range", guarded(|| <$T as Lerp<f32>>::lerp_inclusive_range(a..=b, f32f))),
                                    ("Lerp::lerp_precise_inclusive_range", guarded(|| <&$T as Lerp<f64>>::lerp_precise_inclusive_range(&a..=&b, f64f))),
                                ];
                                for (api, got) in c.iter() {
                                    eval += 1;
                                    let ok = matches!(got, Ok(g) if *g as i128 == ec);
                                    if !ok {
                                        let diff_ovf = (to - from) < min || (to - from) > max;
                                        let fast = *api == "Lerp::lerp" || *api == "Lerp::lerp_inclusive_range";
                                        let what = if diff_ovf && fast { "difference_overflows_type" } else { "other" };
                                        let class = if got.is_err() { "panic" } else { "wrong_value" };
                                        let d = format!("<{} as Lerp>::{}({}, {}, {}/8) -> {:?}, expected {} (factor clamped to {}/8)", $name, api, from, to, k, got, ec, kc);
                                        sub.add_violation(violation(PROP, &sub, api, $name, class, what, d, $cfg.seed, ((fi as u64) << 16) | ((to - min) as u64)));
                                    } else if k < 0 || k > 8 {
                                        nontriv += 1;
                                    }
                                }
                            }
                        }
                    }
                    fi += tn;
                }
                for api in ["Lerp::lerp_unclamped", "Lerp::lerp_unclamped_precise", "Lerp::lerp", "Lerp::lerp_precise", "Lerp::lerp_inclusive_range", "Lerp::lerp_precise_inclusive_range"] {
                    sub.saw_n(api, eval / 6);
                }
                sub.evaluations += eval + outside;
                sub.conclusive += eval;
                sub.nontrivial += nontriv;
                sub.distinct_enumerated += nontriv;
                if outside > 0 {
                    *sub.inconclusive.entry("outside_domain:result_not_representable".into()).or_insert(0) += outside;
                }
                sub
            });
            let mut out = proto.fork();
            out.required = proto.required.clone();
            out.floor = 1_000_000;
            out.exhaustive = true;
            for p in parts {
                out.merge(p);
            }
            out.sample(|| format!("{}: e.g. lerp_unclamped(200, 100, 4/8) must be 150; lerp_unclamped(-128, 127, 12/8) is outside the type; all {}^2 pairs x 25 factors", $name, span));
            $rep.push(out);
        } else {
            let mut p = proto;
            p.required.clear();
            $rep.push(p);
        }
    }};
}

// ------------------------------------------------------------------------------------
// wider integers: stratified endpoints, exactness-guarded oracle

fn float_exact(v: i128, mant: u32) -> bool {
    if v == 0 {
        return true;
    }
    let a = v.unsigned_abs();
    let bits = 128 - a.leading_zeros() - a.trailing_zeros();
    bits <= mant
}

macro_rules! wide_case {
    ($sub:expr, $cfg:expr, $idx:expr, $T:ty, $name:expr, $F:ty, $fname:expr, $mant:expr) => {{
        let mut rng = Rng::for_case(concat!("wide_lerp/", $name, "/", $fname), $cfg.case_seed(), $idx);
        let (min, max) = (<$T>::MIN as i128, <$T>::MAX as i128);
        let mut ep = |rng: &mut Rng| -> i128 {
            let v = match rng.below(10) {
                0 => min,
                1 => max,
                2 => 0,
                3 => min / 2,
                4 => max / 2 + 1,
                5 => rng.range_i64(-20, 20) as i128,
                // as wide as the factor type's mantissa and odd: every bit of the float is in use, so a
                // rounding step that adds a half (instead of calling round) is off by one here
                6 => {
                    let m = (1i128 << ($mant - 1)) | ((rng.next_u64() as i128) & ((1i128 << ($mant - 1)) - 1)) | 1;
                    if min < 0 && rng.bool() {
                        -m
                    } else {
                        m
                    }
                }
                _ => {
                    let bits = rng.below(<$T>::BITS as u64) as u32;
                    let m = (rng.next_u64() as i128) & ((1i128 << bits) - 1);
                    if min < 0 && rng.bool() {
                        -m
                    } else {
                        m
                    }
                }
            };
            v.clamp(min, max)
        };
        let (from, mut to) = (ep(&mut rng), ep(&mut rng));
        match rng.below(8) {
            0 => to = from,
            1 => to = (from + rng.range_i64(-20, 20) as i128).clamp(min, max),
            _ => {}
        }
        let k = rng.range_i64(-8, 16) as i128;
        let mut h = H64::new();
        h.s($name).s($fname).i(from).i(to).i(k);
        // the property covers endpoints the factor's float type represents exactly; in addition the
        // oracle only judges cases whose intermediate real values are exactly representable, so
        // that float rounding (incl. double rounding before `round`) cannot matter
        // (as built after seeded change C12_N: the two formulas are judged separately, each on the cases
        // where *its* intermediates are exact - equal endpoints, for instance, make every intermediate of the
        // fast formula exact whatever the factor, while from*(1-t) of the precise one is not)
        let n8 = 8 * from + k * (to - from);
        let ends_ok = float_exact(from, $mant) && float_exact(to, $mant) && float_exact(n8, $mant);
        let exact_fast = ends_ok && float_exact(to - from, $mant) && float_exact(k * (to - from), $mant);
        let exact_precise = ends_ok && float_exact(from * (8 - k), $mant) && float_exact(to * k, $mant);
        let exact_ok = exact_fast || exact_precise;
        let e = int_model(from, to, k);
        if !exact_ok {
            $sub.inconclusive("outside_domain:endpoint_or_intermediate_not_exact_in_factor_type");
        } else if e < min || e > max {
            $sub.inconclusive("outside_domain:result_not_representable");
        } else {
            let (a, b) = (from as $T, to as $T);
            let f = k as $F / 8.0;
            $sub.saw("Lerp::lerp_unclamped");
            $sub.saw("Lerp::lerp_unclamped_precise");
            let g1 = guarded(|| <$T as Lerp<$F>>::lerp_unclamped(a, b, f));
            let g2 = guarded(|| <$T as Lerp<$F>>::lerp_unclamped_precise(a, b, f));
            let g3 = guarded(|| <&$T as Lerp<$F>>::lerp_unclamped(&a, &b, f));
            let g4 = guarded(|| <&$T as Lerp<$F>>::lerp_unclamped_precise(&a, &b, f));
            // the clamped forms at a factor inside [0,1] are the same function
            let inside = k >= 0 && k <= 8;
            let g5 = if inside { guarded(|| <$T as Lerp<$F>>::lerp(a, b, f)) } else { g1.clone() };
            let g6 = if inside { guarded(|| <&$T as Lerp<$F>>::lerp_precise(&a, &b, f)) } else { g4.clone() };
            let mut bad = None;
            for (api, g, judged) in [("Lerp::lerp_unclamped", &g1, exact_fast), ("Lerp::lerp_unclamped_precise", &g2, exact_precise), ("Lerp::lerp_unclamped", &g3, exact_fast), ("Lerp::lerp_unclamped_precise", &g4, exact_precise), ("Lerp::lerp", &g5, exact_fast), ("Lerp::lerp_precise", &g6, exact_precise)] {
                if judged && !matches!(g, Ok(v) if *v as i128 == e) && bad.is_none() {
                    bad = Some((api, g.clone()));
                }
            }
            match bad {
                None => {
                    $sub.sample(|| format!("<{} as Lerp<{}>>::lerp_unclamped({}, {}, {}/8) = {}", $name, $fname, from, to, k, e));
                    $sub.held(h.get(), from != to && k != 0 && k != 8)
                }
                Some((api, g)) => {
                    let diff_ovf = (to - from) < min || (to - from) > max;
                    let what = if diff_ovf && api == "Lerp::lerp_unclamped" { "difference_overflows_type" } else { "other" };
                    let class = if g.is_err() { "panic" } else { "wrong_value" };
                    let d = format!("<{} as Lerp<{}>>::{}({}, {}, {}/8) -> {:?}, exact result rounds to {}", $name, $fname, api, from, to, k, g, e);
                    let v = violation(PROP, $sub, api, $name, class, what, d, $cfg.case_seed(), $idx);
                    $sub.violated(v)
                }
            }
        }
    }};
}

// ------------------------------------------------------------------------------------
// generic lerp on vectors / quaternion components: Sym traces

macro_rules! vec_lerp_trace {
    ($sub:expr, $cfg:expr, $V:ident) => {{
        type V = $V<Sym>;
        let n = <V as VecX<Sym>>::DIM;
        let nn = n as u32;
        let reference = move |f: &dyn Fn(u32) -> Fp, per_lane: bool| -> Vec<Fp> {
            (0..n)
                .map(|i| {
                    let (a, b) = (f(i as u32), f(nn + i as u32));
                    let t = if per_lane { f(2 * nn + i as u32) } else { f(2 * nn) };
                    a.add(t.mul(b.sub(a)))
                })
                .collect()
        };
        let mk = || -> (V, V, V, Sym) {
            sym_reset();
            (
                V::from_fn(|i| Sym::var(i as u32)),
                V::from_fn(|i| Sym::var(nn + i as u32)),
                V::from_fn(|i| Sym::var(2 * nn + i as u32)),
                Sym::var(2 * nn),
            )
        };
        let o = |v: &V| -> Vec<Sym> { (0..n).map(|i| v.get(i)).collect() };
        let nm = stringify!($V);
        // inherent, scalar factor
        let (a, b, _, t) = mk();
        decide_pit(PROP, $sub, &format!("{}::lerp_unclamped", nm), "Sym", "scalar factor", &o(&V::lerp_unclamped(a, b, t)), 3 * n, $cfg.seed, 0, &|f| reference(f, false));
        let (a, b, _, t) = mk();
        decide_pit(PROP, $sub, &format!("{}::lerp_unclamped_precise", nm), "Sym", "scalar factor", &o(&V::lerp_unclamped_precise(a, b, t)), 3 * n, $cfg.seed, 0, &|f| reference(f, false));
        // inherent, per-element factor
        let (a, b, tv, _) = mk();
        decide_pit(PROP, $sub, &format!("{}::lerp_unclamped", nm), "Sym", "per-element factor", &o(&V::lerp_unclamped(a, b, tv)), 3 * n, $cfg.seed, 0, &|f| reference(f, true));
        let (a, b, tv, _) = mk();
        decide_pit(PROP, $sub, &format!("{}::lerp_unclamped_precise", nm), "Sym", "per-element factor", &o(&V::lerp_unclamped_precise(a, b, tv)), 3 * n, $cfg.seed, 0, &|f| reference(f, true));
        // Lerp trait by value and by reference (element type's own Lerp impl, Factor = Sym)
        let (a, b, _, t) = mk();
        decide_pit(PROP, $sub, &format!("Lerp for {}", nm), "Sym", "trait/value/fast", &o(&<V as Lerp<Sym>>::lerp_unclamped(a, b, t)), 3 * n, $cfg.seed, 0, &|f| reference(f, false));
        let (a, b, _, t) = mk();
        decide_pit(PROP, $sub, &format!("Lerp for {}", nm), "Sym", "trait/value/precise", &o(&<V as Lerp<Sym>>::lerp_unclamped_precise(a, b, t)), 3 * n, $cfg.seed, 0, &|f| reference(f, false));
        let (a, b, _, t) = mk();
        decide_pit(PROP, $sub, &format!("Lerp for &{}", nm), "Sym", "trait/ref/fast", &o(&<&V as Lerp<Sym>>::lerp_unclamped(&a, &b, t)), 3 * n, $cfg.seed, 0, &|f| reference(f, false));
        let (a, b, _, t) = mk();
        decide_pit(PROP, $sub, &format!("Lerp for &{}", nm), "Sym", "trait/ref/precise", &o(&<&V as Lerp<Sym>>::lerp_unclamped_precise(&a, &b, t)), 3 * n, $cfg.seed, 0, &|f| reference(f, false));
        // endpoints: factor 0 -> from, factor 1 -> to, as identities
        let (a, b, _, _) = mk();
        decide_pit(PROP, $sub, &format!("{}::lerp_unclamped", nm), "Sym", "factor 0", &o(&V::lerp_unclamped(a, b, Sym::konst(0))), 3 * n, $cfg.seed, 0, &|f| (0..n).map(|i| f(i as u32)).collect());
        let (a, b, _, _) = mk();
        decide_pit(PROP, $sub, &format!("{}::lerp_unclamped_precise", nm), "Sym", "factor 1", &o(&V::lerp_unclamped_precise(a, b, Sym::konst(1))), 3 * n, $cfg.seed, 0, &|f| (0..n).map(|i| f(nn + i as u32)).collect());
    }};
}

fn quat_lerp_trace(sub: &mut Sub, cfg: &Config) {
    let mk = || {
        sym_reset();
        (
            Quaternion { x: Sym::var(0), y: Sym::var(1), z: Sym::var(2), w: Sym::var(3) },
            Quaternion { x: Sym::var(4), y: Sym::var(5), z: Sym::var(6), w: Sym::var(7) },
            Sym::var(8),
        )
    };
    let o = |q: Quaternion<Sym>| vec![q.x, q.y, q.z, q.w];
    let reference = |f: &dyn Fn(u32) -> Fp| -> Vec<Fp> { (0..4).map(|i| f(i).add(f(8).mul(f(4 + i).sub(f(i))))).collect() };
    let (a, b, t) = mk();
    decide_pit(PROP, sub, "Quaternion::lerp_unclamped_unnormalized", "Sym", "components", &o(Quaternion::lerp_unclamped_unnormalized(a, b, t)), 9, cfg.seed, 0, &reference);
    let (a, b, t) = mk();
    decide_pit(PROP, sub, "Quaternion::lerp_unclamped_precise_unnormalized", "Sym", "components", &o(Quaternion::lerp_unclamped_precise_unnormalized(a, b, t)), 9, cfg.seed, 0, &reference);
}

// ------------------------------------------------------------------------------------
// clamped / range forms on exact rationals

fn q_forms(sub: &mut Sub, cfg: &Config, idx: u64) {
    let mut rng = Rng::for_case("q_forms", cfg.case_seed(), idx);
    let a = small_q(&mut rng, 20, 6);
    let b = small_q(&mut rng, 20, 6);
    let t = match rng.below(6) {
        0 => Q::ZERO,
        1 => Q::ONE,
        2 => small_q(&mut rng, 30, 8),
        _ => Q::frac(rng.range_i64(-8, 16), 8),
    };
    let tc = if t < Q::ZERO { Q::ZERO } else if t > Q::ONE { Q::ONE } else { t };
    let exp = |t: Q| a + t * (b - a);
    let mut h = H64::new();
    h.u(a.hash64()).u(b.hash64()).u(t.hash64());
    let va = Vec3::new(a, b, a - b);
    let vb = Vec3::new(b, a + b, a);
    let checks: Vec<(&str, Q, Q)> = vec![
        ("Lerp::lerp_unclamped", <Q as Lerp<Q>>::lerp_unclamped(a, b, t), exp(t)),
        ("Lerp::lerp_unclamped_precise", <Q as Lerp<Q>>::lerp_unclamped_precise(a, b, t), exp(t)),
        ("Lerp::lerp", <Q as Lerp<Q>>::lerp(a, b, t), exp(tc)),
        ("Lerp::lerp_precise", <Q as Lerp<Q>>::lerp_precise(a, b, t), exp(tc)),
        ("Lerp::lerp_unclamped_inclusive_range", <Q as Lerp<Q>>::lerp_unclamped_inclusive_range(a..=b, t), exp(t)),
        ("Lerp::lerp_unclamped_precise_inclusive_range", <Q as Lerp<Q>>::lerp_unclamped_precise_inclusive_range(a..=b, t), exp(t)),
        ("Lerp::lerp_inclusive_range", <Q as Lerp<Q>>::lerp_inclusive_range(a..=b, t), exp(tc)),
        ("Lerp::lerp_precise_inclusive_range", <Q as Lerp<Q>>::lerp_precise_inclusive_range(a..=b, t), exp(tc)),
        ("Lerp::lerp (ref)", <&Q as Lerp<Q>>::lerp(&a, &b, t), exp(tc)),
        ("Vec3::lerp", Vec3::lerp(va, vb, t).z, (a - b) + tc * (a - (a - b))),
        ("Vec3::lerp_precise", Vec3::lerp_precise(va, vb, t).y, b + tc * ((a + b) - b)),
        ("Lerp::lerp for Vec3", <Vec3<Q> as Lerp<Q>>::lerp(va, vb, t).x, exp(tc)),
        ("Lerp::lerp_precise for &Vec3", <&Vec3<Q> as Lerp<Q>>::lerp_precise(&va, &vb, t).x, exp(tc)),
        ("Quaternion::lerp_unnormalized", Quaternion::lerp_unnormalized(Quaternion::from_xyzw(a, b, a, b), Quaternion::from_xyzw(b, a, b, a), t).x, exp(tc)),
        ("Quaternion::lerp_precise_unnormalized", Quaternion::lerp_precise_unnormalized(Quaternion::from_xyzw(a, b, a, b), Quaternion::from_xyzw(b, a, b, a), t).x, exp(tc)),
    ];
    if let Some(p) = take_poison() {
        sub.inconclusive(&format!("poison:{}", p));
        return;
    }
    for (api, got, e) in checks {
        sub.saw(api);
        if got != e {
            let v = violation(PROP, sub, api, "Q", "wrong_value", "clamped_or_range_form", format!("{}(from={}, to={}, factor={}) = {}, expected {}", api, a, b, t, got, e), cfg.case_seed(), idx);
            sub.violated(v);
            return;
        }
    }
    sub.sample(|| format!("lerp(from={}, to={}, factor={}) = {} (factor clamps to {})", a, b, t, exp(tc), tc));
    sub.held(h.get(), a != b && (t < Q::ZERO || t > Q::ONE || (t != Q::ZERO && t != Q::ONE)));
}

// ------------------------------------------------------------------------------------
// float impls

macro_rules! float_lerp_case {
    ($sub:expr, $cfg:expr, $idx:expr, $F:ty, $name:expr) => {{
        let mut rng = Rng::for_case(concat!("float_lerp/", $name), $cfg.case_seed(), $idx);
        let mut v = |rng: &mut Rng| -> $F {
            match rng.below(6) {
                0 => rng.range_i64(-100, 100) as $F,
                1 => (rng.f64_in(-1.0, 1.0) * 10f64.powf(rng.f64_in(-6.0, 6.0))) as $F,
                _ => rng.f64_in(-1000.0, 1000.0) as $F,
            }
        };
        let (a, b) = (v(&mut rng), v(&mut rng));
        let t: $F = match rng.below(5) {
            0 => rng.f64_in(-1.0, 2.0) as $F,
            1 => rng.range_i64(-8, 16) as $F / 8.0,
            _ => rng.unit_f64() as $F,
        };
        let mut h = H64::new();
        h.s($name).f(a as f64).f(b as f64).f(t as f64);
        let eps = <$F>::EPSILON as f64;
        let mut bad: Option<(&str, String)> = None;
        $sub.saw("Lerp::lerp_unclamped");
        $sub.saw("Lerp::lerp_unclamped_precise");
        let f0 = <$F as Lerp<$F>>::lerp_unclamped(a, b, 0.0);
        let p0 = <$F as Lerp<$F>>::lerp_unclamped_precise(a, b, 0.0);
        let f1 = <$F as Lerp<$F>>::lerp_unclamped(a, b, 1.0);
        let p1 = <$F as Lerp<$F>>::lerp_unclamped_precise(a, b, 1.0);
        if f0 != a || p0 != a {
            bad = Some(("Lerp::lerp_unclamped", format!("factor 0: lerp({:e},{:e},0) = {:e} / precise {:e}, expected from exactly", a, b, f0, p0)));
        }
        if p1 != b {
            bad = Some(("Lerp::lerp_unclamped_precise", format!("factor 1: precise lerp({:e},{:e},1) = {:e}, expected to exactly", a, b, p1)));
        }
        let tol1 = 2.0 * eps * ((b as f64 - a as f64).abs() + (b as f64).abs());
        if ((f1 as f64) - (b as f64)).abs() > tol1 {
            bad = Some(("Lerp::lerp_unclamped", format!("factor 1: lerp({:e},{:e},1) = {:e}, expected to within {:e}", a, b, f1, tol1)));
        }
        // affinity: compare with the exact value (in f64 / exact rationals for f64 subjects)
        let exact = match (Q::from_f64_exact(a as f64), Q::from_f64_exact(b as f64), Q::from_f64_exact(t as f64)) {
            (Some(qa), Some(qb), Some(qt)) => {
                let r = qa + qt * (qb - qa);
                if take_poison().is_some() {
                    (a as f64) + (t as f64) * ((b as f64) - (a as f64))
                } else {
                    r.to_f64()
                }
            }
            _ => (a as f64) + (t as f64) * ((b as f64) - (a as f64)),
        };
        let scale = (a as f64).abs() + (b as f64).abs() + (t as f64).abs() * ((a as f64).abs() + (b as f64).abs());
        let tol = 8.0 * eps * scale;
        let fast = <$F as Lerp<$F>>::lerp_unclamped(a, b, t) as f64;
        let prec = <$F as Lerp<$F>>::lerp_unclamped_precise(a, b, t) as f64;
        let fr = <&$F as Lerp<$F>>::lerp_unclamped(&a, &b, t) as f64;
        let pr = <&$F as Lerp<$F>>::lerp_unclamped_precise(&a, &b, t) as f64;
        if (fast - exact).abs() > tol || (prec - exact).abs() > tol || fr != fast || pr != prec {
            bad = Some(("Lerp::lerp_unclamped", format!("lerp({:e},{:e},{:e}): fast {:e} precise {:e} (ref forms {:e} {:e}), exact {:e}, tol {:e}", a, b, t, fast, prec, fr, pr, exact, tol)));
        }
        // clamped forms
        $sub.saw("Lerp::lerp");
        $sub.saw("Lerp::lerp_precise");
        let tc = if t < 0.0 { 0.0 } else if t > 1.0 { 1.0 } else { t };
        if <$F as Lerp<$F>>::lerp(a, b, t) != <$F as Lerp<$F>>::lerp_unclamped(a, b, tc) || <$F as Lerp<$F>>::lerp_precise(a, b, t) != <$F as Lerp<$F>>::lerp_unclamped_precise(a, b, tc) {
            bad = Some(("Lerp::lerp", format!("clamped form differs from unclamped at clamped factor: ({:e},{:e},{:e})", a, b, t)));
        }
        // vectors: by value, by reference, scalar and per-element factor agree with the scalar impl
        $sub.saw("Lerp for Vec4");
        let va = Vec4::new(a, b, -a, a + b);
        let vb = Vec4::new(b, a, b, -b);
        let r = <Vec4<$F> as Lerp<$F>>::lerp_unclamped(va, vb, t);
        let rr = <&Vec4<$F> as Lerp<$F>>::lerp_unclamped_precise(&va, &vb, t);
        let inh = Vec4::lerp_unclamped(va, vb, Vec4::new(t, 0.0, 1.0, t));
        for i in 0..4 {
            let e = <$F as Lerp<$F>>::lerp_unclamped(va[i], vb[i], t);
            let ep = <$F as Lerp<$F>>::lerp_unclamped_precise(va[i], vb[i], t);
            if r[i] != e || rr[i] != ep {
                bad = Some(("Lerp for Vec4", format!("lane {} of vector lerp differs from the scalar impl: {:?} vs {:e}", i, r, e)));
            }
        }
        if ((inh.y as f64) - (va.y as f64)).abs() > tol || ((inh.z as f64) - (vb.z as f64)).abs() > tol1.max(tol) {
            bad = Some(("Vec4::lerp_unclamped", format!("per-element factor (t,0,1,t): got {:?} from {:?} to {:?}", inh, va, vb)));
        }
        match bad {
            None => $sub.held(h.get(), a != b),
            Some((api, d)) => {
                let vio = violation(PROP, $sub, api, $name, "wrong_value", "float_lerp", d, $cfg.case_seed(), $idx);
                $sub.violated(vio)
            }
        }
    }};
}

// ------------------------------------------------------------------------------------
// quaternion nlerp / slerp, Transform (floats)

macro_rules! quat_case {
    ($sub:expr, $cfg:expr, $idx:expr, $F:ty, $name:expr) => {{
        type F = $F;
        let mut rng = Rng::for_case(concat!("quat/", $name), $cfg.case_seed(), $idx);
        let mut unit = |rng: &mut Rng| -> Quaternion<F> {
            loop {
                let q = [rng.f64_in(-1.0, 1.0), rng.f64_in(-1.0, 1.0), rng.f64_in(-1.0, 1.0), rng.f64_in(-1.0, 1.0)];
                let n = (q[0] * q[0] + q[1] * q[1] + q[2] * q[2] + q[3] * q[3]).sqrt();
                if n > 0.1 {
                    return Quaternion::from_xyzw((q[0] / n) as F, (q[1] / n) as F, (q[2] / n) as F, (q[3] / n) as F);
                }
            }
        };
        let a = unit(&mut rng);
        let mode = rng.below(8);
        let b = match mode {
            0 => a,                                        // identical
            1 => -a,                                       // same rotation, opposite sign
            2 => {
                // nearly parallel: exercises the lerp fallback and its boundary
                let d = unit(&mut rng);
                let e = 10f64.powf(rng.f64_in(-9.0, -2.0)) as F;
                Quaternion::from_xyzw(a.x + e * d.x, a.y + e * d.y, a.z + e * d.z, a.w + e * d.w).normalized()
            }
            _ => unit(&mut rng),
        };
        let t: F = match rng.below(4) {
            0 => 0.0,
            1 => 1.0,
            _ => rng.unit_f64() as F,
        };
        let mut h = H64::new();
        h.s($name).f(a.x as f64).f(a.y as f64).f(a.z as f64).f(b.x as f64).f(b.w as f64).f(t as f64);
        let eps = F::EPSILON as f64;
        let tol = 64.0 * eps;
        let dot = |p: Quaternion<F>, q: Quaternion<F>| (p.x as f64) * (q.x as f64) + (p.y as f64) * (q.y as f64) + (p.z as f64) * (q.z as f64) + (p.w as f64) * (q.w as f64);
        let mag = |p: Quaternion<F>| dot(p, p).sqrt();
        let mut bad: Option<(&str, &str, String)> = None;
        let cosab = dot(a, b);
        // --- nlerp (Lerp for Quaternion): unit result, direction of the componentwise lerp
        $sub.saw("Lerp for Quaternion");
        if cosab > -0.95 {
            let n = <Quaternion<F> as Lerp<F>>::lerp_unclamped(a, b, t);
            let np = <Quaternion<F> as Lerp<F>>::lerp_unclamped_precise(a, b, t);
            let nr = <&Quaternion<F> as Lerp<F>>::lerp_unclamped(&a, &b, t);
            let raw = Quaternion::lerp_unclamped_unnormalized(a, b, t);
            let rm = mag(raw);
            if (mag(n) - 1.0).abs() > tol || (mag(np) - 1.0).abs() > tol {
                bad = Some(("Lerp for Quaternion", "nlerp_not_unit", format!("nlerp({:?},{:?},{}) has magnitude {} / precise {}", a, b, t, mag(n), mag(np))));
            } else if (dot(n, raw) / rm - 1.0).abs() > 8.0 * tol || n != nr {
                bad = Some(("Lerp for Quaternion", "nlerp_direction", format!("nlerp({:?},{:?},{}) = {:?} is not the normalised componentwise lerp {:?} (ref form {:?})", a, b, t, n, raw, nr)));
            }
        }
        // --- nlerp of endpoints that are NOT unit (drifted by rounding, or plainly unnormalised; the two
        // may be the very same quaternion): the property promises a unit result whatever the endpoints' lengths
        if bad.is_none() && cosab > -0.95 {
            let (la, lb) = match rng.below(4) {
                0 => (1.0 + rng.f64_in(-1.0, 1.0) * 1e-3, 1.0 + rng.f64_in(-1.0, 1.0) * 1e-3),
                1 => { let l = rng.f64_in(0.2, 5.0); (l, l) }
                _ => (rng.f64_in(0.2, 5.0), rng.f64_in(0.2, 5.0)),
            };
            let (la, lb) = if mode == 0 { (la, la) } else { (la, lb) };
            let sa = Quaternion::from_xyzw(a.x * la as F, a.y * la as F, a.z * la as F, a.w * la as F);
            let sb = if mode == 0 { sa } else { Quaternion::from_xyzw(b.x * lb as F, b.y * lb as F, b.z * lb as F, b.w * lb as F) };
            let raw = Quaternion::lerp_unclamped_unnormalized(sa, sb, t);
            let rm = mag(raw);
            if rm > 0.05 {
                for (form, n) in [
                    ("lerp_unclamped", <Quaternion<F> as Lerp<F>>::lerp_unclamped(sa, sb, t)),
                    ("lerp_unclamped_precise", <Quaternion<F> as Lerp<F>>::lerp_unclamped_precise(sa, sb, t)),
                    ("lerp", <Quaternion<F> as Lerp<F>>::lerp(sa, sb, t)),
                    ("&lerp_unclamped", <&Quaternion<F> as Lerp<F>>::lerp_unclamped(&sa, &sb, t)),
                ] {
                    if !((mag(n) - 1.0).abs() <= tol) {
                        bad = Some(("Lerp for Quaternion", "nlerp_of_non_unit_endpoints_not_unit", format!("{}({:?}, {:?}, {}) = {:?} has magnitude {} (endpoint lengths {} and {})", form, sa, sb, t, n, mag(n), mag(sa), mag(sb))));
                        break;
                    }
                    if !((dot(n, raw) / rm - 1.0).abs() <= 8.0 * tol) {
                        bad = Some(("Lerp for Quaternion", "nlerp_direction", format!("{}({:?}, {:?}, {}) = {:?} is not parallel to the componentwise lerp {:?}", form, sa, sb, t, n, raw)));
                        break;
                    }
                }
            }
        }
        // --- slerp
        $sub.saw("Quaternion::slerp_unclamped");
        let s = Quaternion::slerp_unclamped(a, b, t);
        let st = <Quaternion<F> as Slerp<F>>::slerp_unclamped(a, b, t);
        let sr = <&Quaternion<F> as Slerp<F>>::slerp_unclamped(&a, &b, t);
        let sc = Quaternion::slerp(a, b, t * 3.0 - 1.0);
        let tcl = (t * 3.0 - 1.0).max(0.0).min(1.0);
        let sce = Quaternion::slerp_unclamped(a, b, tcl);
        $sub.saw("Slerp for Quaternion");
        $sub.saw("Quaternion::slerp");
        // robust angle on the unit sphere via the chord |p-q|
        let ang = |p: Quaternion<F>, q: Quaternion<F>| {
            let d = [(p.x - q.x) as f64, (p.y - q.y) as f64, (p.z - q.z) as f64, (p.w - q.w) as f64];
            let c = (d[0] * d[0] + d[1] * d[1] + d[2] * d[2] + d[3] * d[3]).sqrt();
            2.0 * (c / 2.0).min(1.0).asin()
        };
        let bn = if cosab < 0.0 { -b } else { b };
        let theta = ang(a, bn); // angle between `from` and the nearer of +-to
        if bad.is_none() {
            if s != st || s != sr {
                bad = Some(("Slerp for Quaternion", "trait_forms_differ", format!("inherent {:?} trait {:?} ref {:?}", s, st, sr)));
            } else if sc != sce {
                bad = Some(("Quaternion::slerp", "clamped_form", format!("slerp(a,b,{}) = {:?} but slerp_unclamped at the clamped factor {} = {:?}", t * 3.0 - 1.0, sc, tcl, sce)));
            } else if (mag(s) - 1.0).abs() > 16.0 * tol {
                bad = Some(("Quaternion::slerp_unclamped", "slerp_not_unit", format!("slerp({:?},{:?},{}) has magnitude {}", a, b, t, mag(s))));
            } else {
                // constant angular speed along the shorter arc: angle(a, s) = t*theta, angle(s, +-b) = (1-t)*theta
                let ta = ang(a, s);
                let tb = ang(s, bn);
                let slack = 1024.0 * eps * (1.0 + theta);
                let what_t = t as f64;
                if (ta - what_t * theta).abs() > slack || (tb - (1.0 - what_t) * theta).abs() > slack {
                    bad = Some(("Quaternion::slerp_unclamped", "not_constant_speed_on_shorter_arc", format!("slerp({:?},{:?},{}) = {:?}: angle from `from` {} expected {}, angle to nearer end {} expected {} (theta {})", a, b, t, s, ta, what_t * theta, tb, (1.0 - what_t) * theta, theta)));
                }
            }
        }
        // --- Transform
        $sub.saw("Lerp for Transform");
        if bad.is_none() {
            let ta = Transform { position: Vec3::new(a.x, a.y, a.z) * (7.0 as F), orientation: a, scale: Vec3::new(1.0 as F, 2.0 as F, 0.5 as F) };
            let tb = Transform { position: Vec3::new(b.w, b.x, b.y) * (3.0 as F), orientation: b, scale: Vec3::new(2.0 as F, 2.0 as F, 3.0 as F) };
            let r = <Transform<F, F, F> as Lerp<F>>::lerp_unclamped(ta, tb, t);
            let rp = <Transform<F, F, F> as Lerp<F>>::lerp_unclamped_precise(ta, tb, t);
            let rr = <&Transform<F, F, F> as Lerp<F>>::lerp_unclamped(&ta, &tb, t);
            let rrp = <&Transform<F, F, F> as Lerp<F>>::lerp_unclamped_precise(&ta, &tb, t);
            let ep = <Vec3<F> as Lerp<F>>::lerp_unclamped(ta.position, tb.position, t);
            let epp = <Vec3<F> as Lerp<F>>::lerp_unclamped_precise(ta.position, tb.position, t);
            let es = <Vec3<F> as Lerp<F>>::lerp_unclamped(ta.scale, tb.scale, t);
            let esp = <Vec3<F> as Lerp<F>>::lerp_unclamped_precise(ta.scale, tb.scale, t);
            if r.position != ep || r.scale != es || r.orientation != s || rp.position != epp || rp.scale != esp || rp.orientation != s || rr != r || rrp != rp {
                bad = Some(("Lerp for Transform", "transform_components", format!("Transform lerp at {} = {:?}; expected position {:?} scale {:?} orientation {:?}", t, r, ep, es, s)));
            }
        }
        match bad {
            None => {
                $sub.sample(|| format!("{}: slerp({:?}, {:?}, {}) = {:?}", $name, a, b, t, s));
                $sub.held(h.get(), mode > 1 && t != 0.0 && t != 1.0)
            }
            Some((api, what, d)) => {
                let vio = violation(PROP, $sub, api, $name, "wrong_value", what, d, $cfg.case_seed(), $idx);
                $sub.violated(vio)
            }
        }
    }};
}

// ------------------------------------------------------------------------------------
// Transition

fn sq_f32(x: f32) -> f32 {
    x * x
}
fn sq_q(x: Q) -> Q {
    x * x
}

fn transition_case(sub: &mut Sub, cfg: &Config, idx: u64) {
    let mut rng = Rng::for_case("transition", cfg.case_seed(), idx);
    let mut h = H64::new();
    let mut bad: Option<(&str, String)> = None;
    macro_rules! acc {
        ($tr:expr, $T:ty, $P:ty, $a:expr, $b:expr, $m:expr) => {{
            let tr = $tr;
            let m: $P = $m;
            let pairs: Vec<(&str, $T, $T)> = vec![
                ("Transition::into_current", tr.clone().into_current(), <$T as Lerp<$P>>::lerp($a, $b, m)),
                ("Transition::into_current_unclamped", tr.clone().into_current_unclamped(), <$T as Lerp<$P>>::lerp_unclamped($a, $b, m)),
                ("Transition::into_current_precise", tr.clone().into_current_precise(), <$T as Lerp<$P>>::lerp_precise($a, $b, m)),
                ("Transition::into_current_unclamped_precise", tr.clone().into_current_unclamped_precise(), <$T as Lerp<$P>>::lerp_unclamped_precise($a, $b, m)),
                ("Transition::current", tr.current(), <&$T as Lerp<$P>>::lerp(&$a, &$b, m)),
                ("Transition::current_unclamped", tr.current_unclamped(), <&$T as Lerp<$P>>::lerp_unclamped(&$a, &$b, m)),
                ("Transition::current_precise", tr.current_precise(), <&$T as Lerp<$P>>::lerp_precise(&$a, &$b, m)),
                ("Transition::current_unclamped_precise", tr.current_unclamped_precise(), <&$T as Lerp<$P>>::lerp_unclamped_precise(&$a, &$b, m)),
            ];
            for (api, got, e) in pairs {
                sub.saw(api);
                if got != e && bad.is_none() {
                    bad = Some((api, format!("{} on {:?}: got {:?}, the matching Lerp call at mapped progress {:?} gives {:?}", api, tr, got, m, e)));
                }
            }
        }};
    }
    // i32 endpoints, f32 progress
    let (a, b) = (rng.range_i64(-1000, 1000) as i32, rng.range_i64(-1000, 1000) as i32);
    let p = rng.range_i64(-8, 16) as f32 / 8.0;
    h.i(a as i128).i(b as i128).f(p as f64);
    acc!(LinearTransition::<i32, f32>::with_progress(a, b, p), i32, f32, a, b, p);
    acc!(Transition::<i32, IdentityProgressMapper, f32>::with_mapper_and_progress(a, b, IdentityProgressMapper, p), i32, f32, a, b, p);
    acc!(Transition::<i32, ProgressMapperFn<f32>, f32>::with_mapper_and_progress(a, b, ProgressMapperFn(sq_f32), p), i32, f32, a, b, p * p);
    acc!(Transition::<i32, ProgressMapperFn<f32>, f32>::with_mapper_and_progress(a, b, ProgressMapperFn::default(), p), i32, f32, a, b, p);
    // f64
    let (fa, fb, fp) = (rng.f64_in(-10.0, 10.0), rng.f64_in(-10.0, 10.0), rng.f64_in(-1.0, 2.0));
    acc!(LinearTransition::<f64, f64>::with_progress(fa, fb, fp), f64, f64, fa, fb, fp);
    // vectors of f32
    let (va, vb) = (Vec3::new(fa as f32, fb as f32, 1.0), Vec3::new(fb as f32, 2.0, fa as f32));
    acc!(LinearTransition::<Vec3<f32>, f32>::with_progress(va, vb, p), Vec3<f32>, f32, va, vb, p);
    // exact rationals with a mapper
    let (qa, qb, qp) = (small_q(&mut rng, 20, 5), small_q(&mut rng, 20, 5), Q::frac(rng.range_i64(-8, 16), 8));
    acc!(Transition::<Q, ProgressMapperFn<Q>, Q>::with_mapper_and_progress(qa, qb, ProgressMapperFn(sq_q), qp), Q, Q, qa, qb, qp * qp);
    // constructors / range conversions
    sub.saw("Transition::with_mapper");
    sub.saw("Transition::into_range");
    let t0 = Transition::<i32, IdentityProgressMapper, f32>::with_mapper(a, b, IdentityProgressMapper);
    let t1: Transition<i32, IdentityProgressMapper, f32> = Transition::from(a..b);
    let t2 = LinearTransition::<i32, f32>::new(a, b);
    if t0.progress != 0.0 || t0.start != a || t0.end != b || t1 != t0 || t2.progress != 0.0 || t2.start != a || t2.end != b || t0.into_range() != (a..b) {
        bad = Some(("Transition::with_mapper", format!("constructors/range conversion for ({}, {})", a, b)));
    }
    let _ = take_poison();
    match bad {
        None => {
            sub.sample(|| format!("Transition {{ start: {}, end: {}, progress: {} }} with x^2 mapper -> into_current_unclamped = {}", a, b, p, <i32 as Lerp<f32>>::lerp_unclamped(a, b, p * p)));
            sub.held(h.get(), a != b)
        }
        Some((api, d)) => {
            let v = violation(PROP, sub, api, "i32/f64/Vec3<f32>/Q", "wrong_value", "accessor_differs_from_lerp", d, cfg.case_seed(), idx);
            sub.violated(v)
        }
    }
}

fn main() {
    let cfg = Config::from_args(PROP);
    let mut rep = Report::new(cfg.clone());

    int8_exhaustive!(rep, cfg, i8, "i8");
    int8_exhaustive!(rep, cfg, u8, "u8");

    let nw = cfg.n(40_000, 8_000_000);
    {
        let proto = Sub::new("int_lerp_wide", "i16 u16 i32 u32 i64 u64 isize usize, factor types f32 and f64: endpoints from {MIN, MAX, 0, MIN/2, MAX/2+1, small, random magnitude}, factors k/8; each formula judged when its own intermediates (fast: difference, product, sum; precise: both products, sum) and the result are exactly representable in the factor type (so float rounding cannot matter) and the result is in range; expected = exact rational rounded half away from zero; non-trivial = from != to and factor not 0 or 1").with_floor(nw / 20);
        let s = run_cases(&cfg, proto, nw, |s, i| match i % 16 {
            0 => wide_case!(s, &cfg, i, i16, "i16", f32, "f32", 24),
            1 => wide_case!(s, &cfg, i, u16, "u16", f32, "f32", 24),
            2 => wide_case!(s, &cfg, i, i32, "i32", f32, "f32", 24),
            3 => wide_case!(s, &cfg, i, u32, "u32", f32, "f32", 24),
            4 => wide_case!(s, &cfg, i, i64, "i64", f32, "f32", 24),
            5 => wide_case!(s, &cfg, i, u64, "u64", f32, "f32", 24),
            6 => wide_case!(s, &cfg, i, isize, "isize", f32, "f32", 24),
            7 => wide_case!(s, &cfg, i, usize, "usize", f32, "f32", 24),
            8 => wide_case!(s, &cfg, i, i16, "i16", f64, "f64", 53),
            9 => wide_case!(s, &cfg, i, u16, "u16", f64, "f64", 53),
            10 => wide_case!(s, &cfg, i, i32, "i32", f64, "f64", 53),
            11 => wide_case!(s, &cfg, i, u32, "u32", f64, "f64", 53),
            12 => wide_case!(s, &cfg, i, i64, "i64", f64, "f64", 53),
            13 => wide_case!(s, &cfg, i, u64, "u64", f64, "f64", 53),
            14 => wide_case!(s, &cfg, i, isize, "isize", f64, "f64", 53),
            _ => wide_case!(s, &cfg, i, usize, "usize", f64, "f64", 53),
        });
        rep.push(s);
    }
    {
        let mut s = Sub::new("generic_lerp_trace", "Sym-traced inherent lerp_unclamped / lerp_unclamped_precise (scalar and per-element factor), Lerp trait by value and by reference, factor 0 and 1, for all 13 vector kinds, and the unnormalised quaternion lerps: each logged output lane must equal from_i + t(to_i - from_i) as a polynomial (PIT): fast and precise formula are the same polynomial").with_floor(120);
        if cfg.wants("generic_lerp_trace") {
            macro_rules! one {
                ($V:ident) => {
                    vec_lerp_trace!(&mut s, &cfg, $V);
                };
            }
            for_all_vec_kinds!(one);
            quat_lerp_trace(&mut s, &cfg);
        }
        rep.push(s);
    }
    let nq = cfg.n(5_000, 1_000_000);
    {
        let proto = Sub::new("clamped_and_range_forms_q", "exact rationals: every clamped / inclusive-range form of the Lerp trait (value and reference), vector inherent and trait forms, quaternion unnormalised clamped forms equal from + clamp01(t)(to-from) exactly for factors inside and outside [0,1]; non-trivial = from != to and factor not an endpoint").with_floor((nq / 8).min(100_000));
        rep.push(run_cases(&cfg, proto, nq, |s, i| q_forms(s, &cfg, i)));
    }
    let nf = cfg.n(20_000, 4_000_000);
    {
        let proto = Sub::new("float_lerp", "f32 and f64: factor 0 returns from exactly (both formulas), factor 1 returns to (exact for precise, within 2 eps(|to-from|+|to|) for the fused form), value within 8 eps * scale of the exact rational result, value/reference forms identical, clamped == unclamped at clamped factor, Vec4 lanes equal the scalar impl, per-element factors").with_floor(nf / 3);
        rep.push(run_cases(&cfg, proto, nf, |s, i| {
            if i % 2 == 0 {
                float_lerp_case!(s, &cfg, i, f64, "f64")
            } else {
                float_lerp_case!(s, &cfg, i, f32, "f32")
            }
        }));
    }
    {
        let proto = Sub::new("nlerp_slerp_transform", "f32 and f64 random unit quaternion pairs (incl. identical, negated, nearly parallel down to 1e-9): nlerp unit and parallel to the componentwise lerp; slerp unit, inherent/trait/reference forms identical, clamped form, constant angular speed along the shorter arc (angle(from,out) = t*theta, angle(out, nearer end) = (1-t)*theta, so both ends are reached up to sign); Transform lerp = (lerp position, slerp orientation, lerp scale) in value and reference forms; non-trivial = generic pair and 0<t<1").with_floor(nf / 6);
        rep.push(run_cases(&cfg, proto, nf, |s, i| {
            if i % 2 == 0 {
                quat_case!(s, &cfg, i, f64, "f64")
            } else {
                quat_case!(s, &cfg, i, f32, "f32")
            }
        }));
    }
    let nt = cfg.n(3_000, 500_000);
    {
        let proto = Sub::new("transition_accessors", "Transition with IdentityProgressMapper, ProgressMapperFn(x^2) and the default fn mapper over i32 (f32 progress), f64, Vec3<f32> and exact rationals: each of the 8 current*/into_current* accessors equals the matching Lerp call (clamped/unclamped, fast/precise, value/reference) at map_progress(progress); constructors and range conversions").with_floor(nt / 2).require(&["Transition::into_current", "Transition::current_unclamped_precise"]);
        rep.push(run_cases(&cfg, proto, nt, |s, i| transition_case(s, &cfg, i)));
    }
    let _ = Clamp::clamped01(0.5f32);
    std::process::exit(rep.finish());
}

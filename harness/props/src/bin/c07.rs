//! C07 — affine builders and Transform act on points as defined and chain in call order.
//!
//! * `ctor_trace` (Sym): translation / scaling / shear constructors applied by the harness's own
//!   naive product to a symbolic point or direction give p+v / p / s.p / p + k*other;
//!   `mul_point`, `mul_direction`, `mul_point_2d`, `mul_direction_2d` on a matrix of free symbols
//!   equal the naive product with w = 1 / w = 0.
//! * `ed_trace` (Sym): every `*_ed` and in-place form with `self` = free symbols equals
//!   (definition matrix of the constructor) * self.
//! * `ed_rotations` (Q, Fp): `rotated_x/y/z/3d`, `rotate_*` equal R * self for the right-handed
//!   rotation by the registered angle (Rodrigues for the axis form).
//! * `chains_enum` / `chains_long`: an independent step-list model; after every step of a chain
//!   the vek matrix applied to test vectors must equal the steps applied one after another in
//!   call order.  All chain shapes up to length 3 per size and layout, sampled longer ones.
//! * `transform`: `Mat4::from(Transform)` must be p -> position + orientation*(scale . p);
//!   `Transform::default()` the identity map.

use monitors::fp::{fp_clear, fp_random_angle, fp_register_root, Fp};
use monitors::gen::{rational_length_vec3, small_q};
use monitors::prng::{Rng, H64};
use monitors::q::{angle_from_quarter_tan, clear_angles};
use monitors::report::{guarded, run_cases, take_poison, Config, Report, Sub};
use monitors::scalar::Mon;
use monitors::sym::{sym_reset, Op, Sym};
use monitors::Q;
use num_traits::real::Real;
use num_traits::MulAdd;
use props::*;
use vek::quaternion::repr_c::Quaternion;
use vek::transform::repr_c::Transform;
use vek::vec::repr_c::{Vec2, Vec3, Vec4};

const PROP: &str = "C07";

// ------------------------------------------------------------------ harness linear algebra

type Grid<T> = Vec<Vec<T>>;

fn is0<T: Mon>(x: T) -> bool {
    x.m_eq(T::m_int(0))
}
fn g_mul<T: Mon>(a: &Grid<T>, b: &Grid<T>) -> Grid<T> {
    let n = a.len();
    let mut out = vec![vec![T::m_int(0); n]; n];
    for i in 0..n {
        for j in 0..n {
            let mut s = T::m_int(0);
            for k in 0..n {
                s = s.m_add(a[i][k].m_mul(b[k][j]));
            }
            out[i][j] = s;
        }
    }
    out
}
fn g_apply<T: Mon>(a: &Grid<T>, v: &[T]) -> Vec<T> {
    a.iter()
        .map(|row| {
            let mut s = T::m_int(0);
            for (x, y) in row.iter().zip(v.iter()) {
                s = s.m_add(x.m_mul(*y));
            }
            s
        })
        .collect()
}
fn g_diff<T: Mon>(a: &Grid<T>, b: &Grid<T>) -> Option<(usize, usize)> {
    for i in 0..a.len() {
        for j in 0..a.len() {
            if !a[i][j].m_eq(b[i][j]) {
                return Some((i, j));
            }
        }
    }
    None
}
fn v_eq<T: Mon>(a: &[T], b: &[T]) -> bool {
    a.len() == b.len() && a.iter().zip(b.iter()).all(|(x, y)| x.m_eq(*y))
}
/// naive matrix * vector on Sym handles (reference constructors: not events of the code under test)
fn sym_apply(m: &Grid<Sym>, v: &[Sym]) -> Vec<Sym> {
    m.iter()
        .map(|row| {
            let mut acc = Sym::bin(Op::Mul, row[0], v[0]);
            for j in 1..v.len() {
                acc = Sym::bin(Op::Add, acc, Sym::bin(Op::Mul, row[j], v[j]));
            }
            acc
        })
        .collect()
}
fn v2<T>(a: [T; 2]) -> Vec2<T> {
    let [x, y] = a;
    Vec2 { x, y }
}
fn v3<T>(a: [T; 3]) -> Vec3<T> {
    let [x, y, z] = a;
    Vec3 { x, y, z }
}

// ------------------------------------------------------------------ the definitions (independent of vek)

#[derive(Clone, Copy, Debug, PartialEq, Eq, Hash)]
enum Kind {
    Translate3,
    Translate2,
    Scale3,
    Scale2,
    RotX,
    RotY,
    RotZ,
    Rot3,
    ShearX,
    ShearY,
}
impl Kind {
    /// (returning, in-place, constructor) method names
    fn names(self) -> (&'static str, &'static str, &'static str) {
        match self {
            Kind::Translate3 => ("translated_3d", "translate_3d", "translation_3d"),
            Kind::Translate2 => ("translated_2d", "translate_2d", "translation_2d"),
            Kind::Scale3 => ("scaled_3d", "scale_3d", "scaling_3d"),
            Kind::Scale2 => ("scaled_2d", "scale_2d", "scaling_2d"),
            Kind::RotX => ("rotated_x", "rotate_x", "rotation_x"),
            Kind::RotY => ("rotated_y", "rotate_y", "rotation_y"),
            Kind::RotZ => ("rotated_z", "rotate_z", "rotation_z"),
            Kind::Rot3 => ("rotated_3d", "rotate_3d", "rotation_3d"),
            Kind::ShearX => ("sheared_x", "shear_x", "shearing_x"),
            Kind::ShearY => ("sheared_y", "shear_y", "shearing_y"),
        }
    }
}
#[derive(Clone, Copy, Debug, PartialEq, Eq)]
enum Form {
    Returning,
    InPlace,
    Ctor,
}
fn api_name(size: &str, k: Kind, f: Form) -> String {
    let (r, i, c) = k.names();
    format!("{}::{}", size, match f { Form::Returning => r, Form::InPlace => i, Form::Ctor => c })
}
const ALPHA4: [Kind; 7] = [Kind::Translate3, Kind::Translate2, Kind::Scale3, Kind::RotX, Kind::RotY, Kind::RotZ, Kind::Rot3];
const ALPHA3: [Kind; 6] = [Kind::Translate2, Kind::Scale3, Kind::RotX, Kind::RotY, Kind::RotZ, Kind::Rot3];
const ALPHA2: [Kind; 4] = [Kind::Scale2, Kind::ShearX, Kind::ShearY, Kind::RotZ];
fn alphabet(n: usize) -> &'static [Kind] {
    match n {
        4 => &ALPHA4,
        3 => &ALPHA3,
        _ => &ALPHA2,
    }
}

#[derive(Clone, Copy, Debug)]
struct Ang<T> {
    token: T,
    c: T,
    s: T,
}
#[derive(Clone, Copy, Debug)]
enum Step<T> {
    Translate3([T; 3]),
    Translate2([T; 2]),
    Scale3([T; 3]),
    Scale2([T; 2]),
    RotX(Ang<T>),
    RotY(Ang<T>),
    RotZ(Ang<T>),
    /// angle, axis as passed to vek (not normalised), the same axis normalised
    Rot3(Ang<T>, [T; 3], [T; 3]),
    ShearX(T),
    ShearY(T),
}
impl<T: Copy> Step<T> {
    fn kind(&self) -> Kind {
        match self {
            Step::Translate3(_) => Kind::Translate3,
            Step::Translate2(_) => Kind::Translate2,
            Step::Scale3(_) => Kind::Scale3,
            Step::Scale2(_) => Kind::Scale2,
            Step::RotX(_) => Kind::RotX,
            Step::RotY(_) => Kind::RotY,
            Step::RotZ(_) => Kind::RotZ,
            Step::Rot3(..) => Kind::Rot3,
            Step::ShearX(_) => Kind::ShearX,
            Step::ShearY(_) => Kind::ShearY,
        }
    }
}

/// The affine map of one step, applied to a vector of dimension n by its definition.
/// n = 4: homogeneous (x,y,z,w), a translation moves by v*w (points w = 1 move, directions w = 0
/// do not); n = 3: (x,y,z), where `Translate2` treats z as the homogeneous coordinate of a 2D
/// point; n = 2: (x,y).
fn apply_step<T: Mon>(st: &Step<T>, h: &mut [T]) {
    let n = h.len();
    let mul = |a: T, b: T| a.m_mul(b);
    match *st {
        Step::Translate3(v) => {
            let w = h[3];
            for i in 0..3 {
                h[i] = h[i].m_add(mul(v[i], w));
            }
        }
        Step::Translate2(v) => {
            let w = if n == 4 { h[3] } else { h[2] };
            for i in 0..2 {
                h[i] = h[i].m_add(mul(v[i], w));
            }
        }
        Step::Scale3(s) => {
            for i in 0..3 {
                h[i] = mul(s[i], h[i]);
            }
        }
        Step::Scale2(s) => {
            for i in 0..2 {
                h[i] = mul(s[i], h[i]);
            }
        }
        // right-handed rotations: about x: y' = c y - s z, z' = s y + c z; about y: z' = c z - s x,
        // x' = s z + c x; about z: x' = c x - s y, y' = s x + c y
        Step::RotX(a) => {
            let (y, z) = (h[1], h[2]);
            h[1] = mul(a.c, y).m_sub(mul(a.s, z));
            h[2] = mul(a.s, y).m_add(mul(a.c, z));
        }
        Step::RotY(a) => {
            let (x, z) = (h[0], h[2]);
            h[2] = mul(a.c, z).m_sub(mul(a.s, x));
            h[0] = mul(a.s, z).m_add(mul(a.c, x));
        }
        Step::RotZ(a) => {
            let (x, y) = (h[0], h[1]);
            h[0] = mul(a.c, x).m_sub(mul(a.s, y));
            h[1] = mul(a.s, x).m_add(mul(a.c, y));
        }
        Step::Rot3(a, _, k) => {
            // Rodrigues: p' = p c + (k x p) s + k (k.p)(1 - c)
            let p = [h[0], h[1], h[2]];
            let cross = [mul(k[1], p[2]).m_sub(mul(k[2], p[1])), mul(k[2], p[0]).m_sub(mul(k[0], p[2])), mul(k[0], p[1]).m_sub(mul(k[1], p[0]))];
            let dot = mul(k[0], p[0]).m_add(mul(k[1], p[1])).m_add(mul(k[2], p[2]));
            let oc = T::m_int(1).m_sub(a.c);
            for i in 0..3 {
                h[i] = mul(p[i], a.c).m_add(mul(cross[i], a.s)).m_add(mul(k[i], mul(dot, oc)));
            }
        }
        Step::ShearX(k) => {
            h[0] = h[0].m_add(mul(k, h[1]));
        }
        Step::ShearY(k) => {
            h[1] = h[1].m_add(mul(k, h[0]));
        }
    }
}
/// matrix of a step = the images of the basis vectors (built through `apply_step` only)
fn step_matrix<T: Mon>(st: &Step<T>, n: usize) -> Grid<T> {
    let mut m = vec![vec![T::m_int(0); n]; n];
    for j in 0..n {
        let mut e: Vec<T> = (0..n).map(|i| T::m_int((i == j) as i64)).collect();
        apply_step(st, &mut e);
        for i in 0..n {
            m[i][j] = e[i];
        }
    }
    m
}

// ------------------------------------------------------------------ element types

trait Elem: Mon + Real + MulAdd<Self, Self, Output = Self> {
    const TY: &'static str;
    fn entry(rng: &mut Rng) -> Self;
    fn entry_nz(rng: &mut Rng) -> Self;
    fn param(rng: &mut Rng) -> Self;
    fn h(self, h: &mut H64);
    fn reset();
    /// a registered angle: the token handed to vek and its exact (cos, sin)
    fn angle(rng: &mut Rng) -> Ang<Self>;
    /// a non-normalised axis whose length is a (registered) element, and the unit axis
    fn axis(rng: &mut Rng) -> ([Self; 3], [Self; 3]);
}
impl Elem for Q {
    const TY: &'static str = "Q";
    fn entry(rng: &mut Rng) -> Q {
        match rng.below(12) {
            0 => Q::ZERO,
            1 => Q::ONE,
            2 => Q::int(-1),
            3 | 4 => Q::int(rng.range_i64(-6, 6)),
            // parameters of extreme magnitude: a translation / scale / shear far below the element
            // type's epsilon (squared length below epsilon squared), or large
            10 => Q::frac(rng.nonzero_i64(5), 1i64 << *rng.pick(&[27u32, 30, 54])),
            11 => Q::int(rng.nonzero_i64(3) * (1i64 << *rng.pick(&[12u32, 20]))),
            _ => Q::frac(rng.range_i64(-6, 6), rng.range_i64(1, 3)),
        }
    }
    fn entry_nz(rng: &mut Rng) -> Q {
        Q::frac(rng.nonzero_i64(6), rng.range_i64(1, 3))
    }
    fn param(rng: &mut Rng) -> Q {
        Q::int(rng.range_i64(-3, 3))
    }
    fn h(self, h: &mut H64) {
        h.u(self.hash64());
    }
    fn reset() {
        clear_angles();
        let _ = take_poison();
    }
    fn angle(rng: &mut Rng) -> Ang<Q> {
        let u = match rng.below(8) {
            0 => Q::ZERO,         // angle 0
            1 => Q::ONE,          // pi
            2 => Q::int(-1),      // -pi
            _ => small_q(rng, 4, 3),
        };
        let a = angle_from_quarter_tan(u);
        Ang { token: a.token, c: a.c, s: a.s }
    }
    fn axis(rng: &mut Rng) -> ([Q; 3], [Q; 3]) {
        let (v, len) = rational_length_vec3(rng, 2);
        (v, [v[0].m_div(len), v[1].m_div(len), v[2].m_div(len)])
    }
}
impl Elem for Fp {
    const TY: &'static str = "Fp";
    fn entry(rng: &mut Rng) -> Fp {
        match rng.below(12) {
            0 => Fp::ZERO,
            1 => Fp::ONE,
            _ => Fp::random(rng),
        }
    }
    fn entry_nz(rng: &mut Rng) -> Fp {
        Fp::random_nonzero(rng)
    }
    fn param(rng: &mut Rng) -> Fp {
        Fp::random(rng)
    }
    fn h(self, h: &mut H64) {
        h.u(self.0);
    }
    fn reset() {
        fp_clear();
        let _ = take_poison();
    }
    fn angle(rng: &mut Rng) -> Ang<Fp> {
        let a = fp_random_angle(rng);
        Ang { token: a.token, c: a.c, s: a.s }
    }
    fn axis(rng: &mut Rng) -> ([Fp; 3], [Fp; 3]) {
        // unit vector = first column of the rotation of a unit quaternion; length L registered as sqrt(L^2)
        let r = quat_rot(unit_quat::<Fp>(rng));
        let u = [r[0][0], r[1][0], r[2][0]];
        let len = Fp::random_nonzero(rng);
        fp_register_root(len);
        ([u[0].mul(len), u[1].mul(len), u[2].mul(len)], u)
    }
}

/// unit quaternion [x,y,z,w] = (a + bi + cj + dk)^2 / |.|^2 (square-root free)
fn unit_quat<T: Elem>(rng: &mut Rng) -> [T; 4] {
    loop {
        let (a, b, c, d) = (T::param(rng), T::param(rng), T::param(rng), T::param(rng));
        let n = a.m_mul(a).m_add(b.m_mul(b)).m_add(c.m_mul(c)).m_add(d.m_mul(d));
        if is0(n) {
            continue;
        }
        let two = T::m_int(2);
        let w = a.m_mul(a).m_sub(b.m_mul(b)).m_sub(c.m_mul(c)).m_sub(d.m_mul(d)).m_div(n);
        return [two.m_mul(a).m_mul(b).m_div(n), two.m_mul(a).m_mul(c).m_div(n), two.m_mul(a).m_mul(d).m_div(n), w];
    }
}
/// textbook rotation matrix of a unit quaternion (acting on column vectors)
fn quat_rot<T: Mon>(q: [T; 4]) -> [[T; 3]; 3] {
    let [x, y, z, w] = q;
    let two = T::m_int(2);
    let one = T::m_int(1);
    let m = |a: T, b: T| a.m_mul(b);
    [
        [one.m_sub(two.m_mul(m(y, y).m_add(m(z, z)))), two.m_mul(m(x, y).m_sub(m(z, w))), two.m_mul(m(x, z).m_add(m(y, w)))],
        [two.m_mul(m(x, y).m_add(m(z, w))), one.m_sub(two.m_mul(m(x, x).m_add(m(z, z)))), two.m_mul(m(y, z).m_sub(m(x, w)))],
        [two.m_mul(m(x, z).m_sub(m(y, w))), two.m_mul(m(y, z).m_add(m(x, w))), one.m_sub(two.m_mul(m(x, x).m_add(m(y, y))))],
    ]
}

fn gen_step<T: Elem>(k: Kind, rng: &mut Rng) -> Step<T> {
    match k {
        Kind::Translate3 => Step::Translate3([T::entry(rng), T::entry(rng), T::entry(rng)]),
        Kind::Translate2 => Step::Translate2([T::entry(rng), T::entry(rng)]),
        Kind::Scale3 => Step::Scale3([T::entry(rng), T::entry(rng), T::entry(rng)]),
        Kind::Scale2 => Step::Scale2([T::entry(rng), T::entry(rng)]),
        Kind::RotX => Step::RotX(T::angle(rng)),
        Kind::RotY => Step::RotY(T::angle(rng)),
        Kind::RotZ => Step::RotZ(T::angle(rng)),
        Kind::Rot3 => {
            let a = T::angle(rng);
            let (v, u) = T::axis(rng);
            Step::Rot3(a, v, u)
        }
        Kind::ShearX => Step::ShearX(T::entry(rng)),
        Kind::ShearY => Step::ShearY(T::entry(rng)),
    }
}
fn hash_step<T: Elem>(h: &mut H64, st: &Step<T>) {
    h.u(st.kind() as u64);
    match st {
        Step::Translate3(v) | Step::Scale3(v) => v.iter().for_each(|x| x.h(h)),
        Step::Translate2(v) | Step::Scale2(v) => v.iter().for_each(|x| x.h(h)),
        Step::RotX(a) | Step::RotY(a) | Step::RotZ(a) => a.token.h(h),
        Step::Rot3(a, v, _) => {
            a.token.h(h);
            v.iter().for_each(|x| x.h(h));
        }
        Step::ShearX(k) | Step::ShearY(k) => k.h(h),
    }
}

// ------------------------------------------------------------------ uniform access to vek's builders

trait Chain<T>: MatX<T> + Copy {
    const SIZE: &'static str;
    /// apply one builder step through vek (returning or in-place form)
    fn step(self, st: &Step<T>, in_place: bool) -> Self;
    /// the constructor of the step, where C07 owns one (translation / scaling / shear)
    fn ctor(st: &Step<T>) -> Option<Self>;
}
macro_rules! ret_or_ip {
    ($m:ident, $ip:expr, $ret:ident, $inp:ident, $($arg:expr),+) => {{
        if $ip {
            let mut c = $m;
            c.$inp($($arg),+);
            c
        } else {
            $m.$ret($($arg),+)
        }
    }};
}
macro_rules! impl_chain4 {
    ($($M:ident),+) => {$(
        impl<T: Real + MulAdd<T, T, Output = T>> Chain<T> for $M<T> {
            const SIZE: &'static str = "Mat4";
            fn step(self, st: &Step<T>, ip: bool) -> Self {
                let m = self;
                match *st {
                    Step::Translate3(v) => ret_or_ip!(m, ip, translated_3d, translate_3d, v3(v)),
                    Step::Translate2(v) => ret_or_ip!(m, ip, translated_2d, translate_2d, v2(v)),
                    Step::Scale3(v) => ret_or_ip!(m, ip, scaled_3d, scale_3d, v3(v)),
                    Step::RotX(a) => ret_or_ip!(m, ip, rotated_x, rotate_x, a.token),
                    Step::RotY(a) => ret_or_ip!(m, ip, rotated_y, rotate_y, a.token),
                    Step::RotZ(a) => ret_or_ip!(m, ip, rotated_z, rotate_z, a.token),
                    Step::Rot3(a, v, _) => ret_or_ip!(m, ip, rotated_3d, rotate_3d, a.token, v3(v)),
                    _ => unreachable!("not in the Mat4 alphabet"),
                }
            }
            fn ctor(st: &Step<T>) -> Option<Self> {
                match *st {
                    Step::Translate3(v) => Some(Self::translation_3d(v3(v))),
                    Step::Translate2(v) => Some(Self::translation_2d(v2(v))),
                    Step::Scale3(v) => Some(Self::scaling_3d(v3(v))),
                    _ => None,
                }
            }
        }
    )+};
}
macro_rules! impl_chain3 {
    ($($M:ident),+) => {$(
        impl<T: Real + MulAdd<T, T, Output = T>> Chain<T> for $M<T> {
            const SIZE: &'static str = "Mat3";
            fn step(self, st: &Step<T>, ip: bool) -> Self {
                let m = self;
                match *st {
                    Step::Translate2(v) => ret_or_ip!(m, ip, translated_2d, translate_2d, v2(v)),
                    Step::Scale3(v) => ret_or_ip!(m, ip, scaled_3d, scale_3d, v3(v)),
                    Step::RotX(a) => ret_or_ip!(m, ip, rotated_x, rotate_x, a.token),
                    Step::RotY(a) => ret_or_ip!(m, ip, rotated_y, rotate_y, a.token),
                    Step::RotZ(a) => ret_or_ip!(m, ip, rotated_z, rotate_z, a.token),
                    Step::Rot3(a, v, _) => ret_or_ip!(m, ip, rotated_3d, rotate_3d, a.token, v3(v)),
                    _ => unreachable!("not in the Mat3 alphabet"),
                }
            }
            fn ctor(st: &Step<T>) -> Option<Self> {
                match *st {
                    Step::Translate2(v) => Some(Self::translation_2d(v2(v))),
                    Step::Scale3(v) => Some(Self::scaling_3d(v3(v))),
                    _ => None,
                }
            }
        }
    )+};
}
macro_rules! impl_chain2 {
    ($($M:ident),+) => {$(
        impl<T: Real + MulAdd<T, T, Output = T>> Chain<T> for $M<T> {
            const SIZE: &'static str = "Mat2";
            fn step(self, st: &Step<T>, ip: bool) -> Self {
                let m = self;
                match *st {
                    Step::Scale2(v) => ret_or_ip!(m, ip, scaled_2d, scale_2d, v2(v)),
                    Step::ShearX(k) => ret_or_ip!(m, ip, sheared_x, shear_x, k),
                    Step::ShearY(k) => ret_or_ip!(m, ip, sheared_y, shear_y, k),
                    Step::RotZ(a) => ret_or_ip!(m, ip, rotated_z, rotate_z, a.token),
                    _ => unreachable!("not in the Mat2 alphabet"),
                }
            }
            fn ctor(st: &Step<T>) -> Option<Self> {
                match *st {
                    Step::Scale2(v) => Some(Self::scaling_2d(v2(v))),
                    Step::ShearX(k) => Some(Self::shearing_x(k)),
                    Step::ShearY(k) => Some(Self::shearing_y(k)),
                    _ => None,
                }
            }
        }
    )+};
}
impl_chain4!(Rows4, Cols4);
impl_chain3!(Rows3, Cols3);
impl_chain2!(Rows2, Cols2);

// ------------------------------------------------------------------ ctor_trace

/// One constructor case: `m` = the matrix vek built from parameter symbols 0..np, applied by the
/// harness to the vector `vec` (symbols np.. and constants); `expect` gives the defined image.
#[allow(clippy::too_many_arguments)]
fn ctor_case(sub: &mut Sub, cfg: &Config, api: &str, ty: &str, case: &str, m: Result<Grid<Sym>, String>, vec: &[Sym], nvars: usize, expect: &dyn Fn(&dyn Fn(u32) -> Fp) -> Vec<Fp>) {
    match m {
        Ok(g) => {
            let outs = sym_apply(&g, vec);
            decide_pit(PROP, sub, api, ty, case, &outs, nvars, cfg.seed, 0, expect);
        }
        Err(e) => {
            sub.saw(api);
            let v = violation(PROP, sub, api, ty, "panic", case, e, cfg.seed, 0);
            sub.violated(v);
        }
    }
}

macro_rules! ctor_trace_layout {
    ($sub:expr, $cfg:expr, $M4:ident, $M3:ident, $M2:ident) => {{
        let sub: &mut Sub = $sub;
        let cfg: &Config = $cfg;
        let var = |k: u32| Sym::var(k);
        let one = || Sym::konst(1);
        let zero = || Sym::konst(0);
        // ---- Mat4::translation_3d: parameters v0..v2, vector v3..v5 (+ w)
        {
            let ty = format!("{}<Sym>", <$M4<Sym> as MatX<Sym>>::NAME);
            sym_reset();
            let m = guarded(|| <$M4<Sym>>::translation_3d(v3([var(0), var(1), var(2)])).to_rows());
            ctor_case(sub, cfg, "Mat4::translation_3d", &ty, "moves_point_by_v", m.clone(), &[var(3), var(4), var(5), one()], 6, &|f| vec![f(3).add(f(0)), f(4).add(f(1)), f(5).add(f(2)), Fp::ONE]);
            ctor_case(sub, cfg, "Mat4::translation_3d", &ty, "leaves_direction_alone", m, &[var(3), var(4), var(5), zero()], 6, &|f| vec![f(3), f(4), f(5), Fp::ZERO]);
            sym_reset();
            let m = guarded(|| <$M4<Sym>>::translation_2d(v2([var(0), var(1)])).to_rows());
            ctor_case(sub, cfg, "Mat4::translation_2d", &ty, "moves_point_by_v", m.clone(), &[var(2), var(3), var(4), one()], 5, &|f| vec![f(2).add(f(0)), f(3).add(f(1)), f(4), Fp::ONE]);
            ctor_case(sub, cfg, "Mat4::translation_2d", &ty, "leaves_direction_alone", m, &[var(2), var(3), var(4), zero()], 5, &|f| vec![f(2), f(3), f(4), Fp::ZERO]);
            sym_reset();
            let m = guarded(|| <$M4<Sym>>::scaling_3d(v3([var(0), var(1), var(2)])).to_rows());
            ctor_case(sub, cfg, "Mat4::scaling_3d", &ty, "multiplies_per_axis", m, &[var(3), var(4), var(5), var(6)], 7, &|f| vec![f(3).mul(f(0)), f(4).mul(f(1)), f(5).mul(f(2)), f(6)]);
            // ---- mul_point / mul_direction on 16 free symbols (0..15), vector 16..19
            let naive = |f: &dyn Fn(u32) -> Fp, w: Fp, rows: usize| -> Vec<Fp> {
                (0..rows).map(|i| {
                    let mut s = Fp::ZERO;
                    for j in 0..3 { s = s.add(f((i * 4 + j) as u32).mul(f(16 + j as u32))); }
                    s.add(f((i * 4 + 3) as u32).mul(w))
                }).collect()
            };
            let fill = || <$M4<Sym>>::from_fn(|i, j| var((i * 4 + j) as u32));
            type R3 = Result<Vec<Sym>, String>;
            let cases: [(&str, &str, R3, Fp, usize); 4] = [
                ("Mat4::mul_point", "vec3_w_is_1", { sym_reset(); guarded(|| fill().mul_point(v3([var(16), var(17), var(18)])).to_vec()) }, Fp::ONE, 3),
                ("Mat4::mul_direction", "vec3_w_is_0", { guarded(|| fill().mul_direction(v3([var(16), var(17), var(18)])).to_vec()) }, Fp::ZERO, 3),
                ("Mat4::mul_point", "vec4_w_is_1", { guarded(|| fill().mul_point(Vec4 { x: var(16), y: var(17), z: var(18), w: var(19) }).to_vec()) }, Fp::ONE, 4),
                ("Mat4::mul_direction", "vec4_w_is_0", { guarded(|| fill().mul_direction(Vec4 { x: var(16), y: var(17), z: var(18), w: var(19) }).to_vec()) }, Fp::ZERO, 4),
            ];
            for (api, case, r, w, rows) in cases {
                match r {
                    Ok(outs) => { decide_pit(PROP, sub, api, &ty, case, &outs, 20, cfg.seed, 0, &|f| naive(f, w, rows)); }
                    Err(e) => { sub.saw(api); let v = violation(PROP, sub, api, &ty, "panic", case, e, cfg.seed, 0); sub.violated(v); }
                }
            }
        }
        // ---- Mat3
        {
            let ty = format!("{}<Sym>", <$M3<Sym> as MatX<Sym>>::NAME);
            sym_reset();
            let m = guarded(|| <$M3<Sym>>::translation_2d(v2([var(0), var(1)])).to_rows());
            ctor_case(sub, cfg, "Mat3::translation_2d", &ty, "moves_point_by_v", m.clone(), &[var(2), var(3), one()], 4, &|f| vec![f(2).add(f(0)), f(3).add(f(1)), Fp::ONE]);
            ctor_case(sub, cfg, "Mat3::translation_2d", &ty, "leaves_direction_alone", m, &[var(2), var(3), zero()], 4, &|f| vec![f(2), f(3), Fp::ZERO]);
            sym_reset();
            let m = guarded(|| <$M3<Sym>>::scaling_3d(v3([var(0), var(1), var(2)])).to_rows());
            ctor_case(sub, cfg, "Mat3::scaling_3d", &ty, "multiplies_per_axis", m, &[var(3), var(4), var(5)], 6, &|f| vec![f(3).mul(f(0)), f(4).mul(f(1)), f(5).mul(f(2))]);
            let naive = |f: &dyn Fn(u32) -> Fp, w: Fp, rows: usize| -> Vec<Fp> {
                (0..rows).map(|i| {
                    let mut s = Fp::ZERO;
                    for j in 0..2 { s = s.add(f((i * 3 + j) as u32).mul(f(9 + j as u32))); }
                    s.add(f((i * 3 + 2) as u32).mul(w))
                }).collect()
            };
            let fill = || <$M3<Sym>>::from_fn(|i, j| var((i * 3 + j) as u32));
            type R3 = Result<Vec<Sym>, String>;
            let cases: [(&str, &str, R3, Fp, usize); 4] = [
                ("Mat3::mul_point_2d", "vec2_w_is_1", { sym_reset(); guarded(|| fill().mul_point_2d(v2([var(9), var(10)])).to_vec()) }, Fp::ONE, 2),
                ("Mat3::mul_direction_2d", "vec2_w_is_0", { guarded(|| fill().mul_direction_2d(v2([var(9), var(10)])).to_vec()) }, Fp::ZERO, 2),
                ("Mat3::mul_point_2d", "vec3_w_is_1", { guarded(|| fill().mul_point_2d(v3([var(9), var(10), var(11)])).to_vec()) }, Fp::ONE, 3),
                ("Mat3::mul_direction_2d", "vec3_w_is_0", { guarded(|| fill().mul_direction_2d(v3([var(9), var(10), var(11)])).to_vec()) }, Fp::ZERO, 3),
            ];
            for (api, case, r, w, rows) in cases {
                match r {
                    Ok(outs) => { decide_pit(PROP, sub, api, &ty, case, &outs, 12, cfg.seed, 0, &|f| naive(f, w, rows)); }
                    Err(e) => { sub.saw(api); let v = violation(PROP, sub, api, &ty, "panic", case, e, cfg.seed, 0); sub.violated(v); }
                }
            }
        }
        // ---- Mat2
        {
            let ty = format!("{}<Sym>", <$M2<Sym> as MatX<Sym>>::NAME);
            sym_reset();
            let m = guarded(|| <$M2<Sym>>::scaling_2d(v2([var(0), var(1)])).to_rows());
            ctor_case(sub, cfg, "Mat2::scaling_2d", &ty, "multiplies_per_axis", m, &[var(2), var(3)], 4, &|f| vec![f(2).mul(f(0)), f(3).mul(f(1))]);
            sym_reset();
            let m = guarded(|| <$M2<Sym>>::shearing_x(var(0)).to_rows());
            ctor_case(sub, cfg, "Mat2::shearing_x", &ty, "adds_k_times_other", m, &[var(1), var(2)], 3, &|f| vec![f(1).add(f(0).mul(f(2))), f(2)]);
            sym_reset();
            let m = guarded(|| <$M2<Sym>>::shearing_y(var(0)).to_rows());
            ctor_case(sub, cfg, "Mat2::shearing_y", &ty, "adds_k_times_other", m, &[var(1), var(2)], 3, &|f| vec![f(1), f(2).add(f(0).mul(f(1)))]);
        }
    }};
}

// ------------------------------------------------------------------ ed_trace

/// `*_ed` / in-place form on a matrix of N*N free symbols (0..N*N) with parameter symbols after
/// them: the result must be (definition matrix of the step) * self.
fn ed_trace<M: Chain<Sym>>(sub: &mut Sub, cfg: &Config) {
    let n = M::N;
    let nn = (n * n) as u32;
    let ty = format!("{}<Sym>", M::NAME);
    let sym_step = |k: Kind| -> Option<(Step<Sym>, usize)> {
        Some(match k {
            Kind::Translate3 => (Step::Translate3([Sym::var(nn), Sym::var(nn + 1), Sym::var(nn + 2)]), 3),
            Kind::Translate2 => (Step::Translate2([Sym::var(nn), Sym::var(nn + 1)]), 2),
            Kind::Scale3 => (Step::Scale3([Sym::var(nn), Sym::var(nn + 1), Sym::var(nn + 2)]), 3),
            Kind::Scale2 => (Step::Scale2([Sym::var(nn), Sym::var(nn + 1)]), 2),
            Kind::ShearX => (Step::ShearX(Sym::var(nn)), 1),
            Kind::ShearY => (Step::ShearY(Sym::var(nn)), 1),
            _ => return None, // rotations need sin/cos: see ed_rotations
        })
    };
    for &k in alphabet(n) {
        if sym_step(k).is_none() {
            continue;
        }
        let reference = move |f: &dyn Fn(u32) -> Fp| -> Vec<Fp> {
            let p = |i: u32| f(nn + i);
            let stf: Step<Fp> = match k {
                Kind::Translate3 => Step::Translate3([p(0), p(1), p(2)]),
                Kind::Translate2 => Step::Translate2([p(0), p(1)]),
                Kind::Scale3 => Step::Scale3([p(0), p(1), p(2)]),
                Kind::Scale2 => Step::Scale2([p(0), p(1)]),
                Kind::ShearX => Step::ShearX(p(0)),
                _ => Step::ShearY(p(0)),
            };
            let me: Grid<Fp> = (0..n).map(|i| (0..n).map(|j| f((i * n + j) as u32)).collect()).collect();
            g_mul(&step_matrix(&stf, n), &me).into_iter().flatten().collect()
        };
        for (form, ip) in [(Form::Returning, false), (Form::InPlace, true)] {
            let api = api_name(M::SIZE, k, form);
            sym_reset();
            let (st2, np) = sym_step(k).unwrap();
            let m = M::from_fn(|i, j| Sym::var((i * n + j) as u32));
            match guarded(|| m.step(&st2, ip)) {
                Ok(r) => {
                    let outs: Vec<Sym> = r.to_rows().into_iter().flatten().collect();
                    decide_pit(PROP, sub, &api, &ty, "equals_constructor_times_self", &outs, n * n + np, cfg.seed, 0, &reference);
                }
                Err(e) => {
                    sub.saw(&api);
                    let v = violation(PROP, sub, &api, &ty, "panic", "equals_constructor_times_self", e, cfg.seed, 0);
                    sub.violated(v);
                }
            }
        }
    }
}

// ------------------------------------------------------------------ ed_rotations

fn ed_rotation_case<T: Elem, M: Chain<T>>(sub: &mut Sub, cfg: &Config, idx: u64) {
    T::reset();
    let n = M::N;
    let name = format!("ed_rotations/{}/{}", M::NAME, T::TY);
    let mut rng = Rng::for_case(&name, cfg.case_seed(), idx);
    let kinds: &[Kind] = if n == 2 { &[Kind::RotZ] } else { &[Kind::RotX, Kind::RotY, Kind::RotZ, Kind::Rot3] };
    let k = kinds[(idx % kinds.len() as u64) as usize];
    let ip = (idx / kinds.len() as u64) % 2 == 1;
    let st: Step<T> = gen_step(k, &mut rng);
    let g: Grid<T> = (0..n).map(|_| (0..n).map(|_| T::entry(&mut rng)).collect()).collect();
    let ty = format!("{}<{}>", M::NAME, T::TY);
    let api = api_name(M::SIZE, k, if ip { Form::InPlace } else { Form::Returning });
    let mut h = H64::new();
    h.s(&name).u(ip as u64);
    hash_step(&mut h, &st);
    for r in &g {
        for x in r {
            x.h(&mut h);
        }
    }
    if let Some(p) = take_poison() {
        sub.inconclusive(&format!("poison_in_generator:{}", p));
        return;
    }
    let m: M = M::from_fn(|i, j| g[i][j]);
    sub.saw(&api);
    let r = match guarded(|| m.step(&st, ip)) {
        Ok(r) => r,
        Err(e) => {
            let _ = take_poison();
            let v = violation(PROP, sub, &api, &ty, "panic", "equals_rotation_times_self", format!("self={:?} step={:?}: {}", g, st, e), cfg.case_seed(), idx);
            sub.violated(v);
            return;
        }
    };
    if let Some(p) = take_poison() {
        sub.inconclusive(&format!("poison:{}", p));
        return;
    }
    let exp = g_mul(&step_matrix(&st, n), &g);
    if let Some(p) = take_poison() {
        sub.inconclusive(&format!("poison_in_oracle:{}", p));
        return;
    }
    let got = r.to_rows();
    if let Some((i, j)) = g_diff(&got, &exp) {
        let v = violation(PROP, sub, &api, &ty, "wrong_value", "equals_rotation_times_self", format!("self={:?} step={:?}: element ({},{}) is {:?}, R*self has {:?}; vek = {:?}; expected = {:?}", g, st, i, j, got[i][j], exp[i][j], got, exp), cfg.case_seed(), idx);
        sub.violated(v);
        return;
    }
    let trivial_angle = match st {
        Step::RotX(a) | Step::RotY(a) | Step::RotZ(a) | Step::Rot3(a, _, _) => is0(a.s),
        _ => false,
    };
    sub.sample(|| format!("{} [{}]: self={:?} step={:?} -> {:?}", api, ty, g, st, got));
    sub.held(h.get(), !trivial_angle);
}

// ------------------------------------------------------------------ float tier

/// f32 / f64 subject types.  The exact tiers above see every *algebraic* defect; they cannot see one
/// that exists only in rounding (a translation added and subtracted again, a fast path keyed on an
/// angle that is exactly a multiple of pi/2 in the type), because an angle token is not a number there.
trait Fl: Real + MulAdd<Self, Self, Output = Self> + std::fmt::Debug + 'static {
    const TY: &'static str;
    const EPS: f64;
    fn of(x: f64) -> Self;
    fn f(self) -> f64;
}
impl Fl for f32 {
    const TY: &'static str = "f32";
    const EPS: f64 = f32::EPSILON as f64;
    fn of(x: f64) -> f32 { x as f32 }
    fn f(self) -> f64 { self as f64 }
}
impl Fl for f64 {
    const TY: &'static str = "f64";
    const EPS: f64 = f64::EPSILON;
    fn of(x: f64) -> f64 { x }
    fn f(self) -> f64 { self }
}

/// the definition of a step on f64 (the same formulas as `apply_step`)
fn apply_step_f64(st: &Step<f64>, h: &mut [f64]) {
    let n = h.len();
    match *st {
        Step::Translate3(v) => { let w = h[3]; for i in 0..3 { h[i] += v[i] * w; } }
        Step::Translate2(v) => { let w = if n == 4 { h[3] } else { h[2] }; for i in 0..2 { h[i] += v[i] * w; } }
        Step::Scale3(s) => { for i in 0..3 { h[i] *= s[i]; } }
        Step::Scale2(s) => { for i in 0..2 { h[i] *= s[i]; } }
        Step::RotX(a) => { let (y, z) = (h[1], h[2]); h[1] = a.c * y - a.s * z; h[2] = a.s * y + a.c * z; }
        Step::RotY(a) => { let (x, z) = (h[0], h[2]); h[2] = a.c * z - a.s * x; h[0] = a.s * z + a.c * x; }
        Step::RotZ(a) => { let (x, y) = (h[0], h[1]); h[0] = a.c * x - a.s * y; h[1] = a.s * x + a.c * y; }
        Step::Rot3(a, _, k) => {
            let p = [h[0], h[1], h[2]];
            let cross = [k[1] * p[2] - k[2] * p[1], k[2] * p[0] - k[0] * p[2], k[0] * p[1] - k[1] * p[0]];
            let dot = k[0] * p[0] + k[1] * p[1] + k[2] * p[2];
            for i in 0..3 { h[i] = p[i] * a.c + cross[i] * a.s + k[i] * dot * (1.0 - a.c); }
        }
        Step::ShearX(k) => { h[0] += k * h[1]; }
        Step::ShearY(k) => { h[1] += k * h[0]; }
    }
}

/// an angle as the subject type holds it, with the reference's cos / sin of exactly that value
fn float_angle<F: Fl>(rng: &mut Rng) -> (F, Ang<f64>) {
    use std::f64::consts::{FRAC_PI_2, PI};
    let a = match rng.below(8) {
        // whole quarter turns *as computed in the subject type*: k * FRAC_PI_2, both signs, beyond a full turn
        0 | 1 => F::of(rng.range_i64(-9, 9) as f64) * F::of(FRAC_PI_2),
        2 => F::of(rng.range_i64(-4, 4) as f64 * PI),
        3 => F::of(rng.f64_in(-1.0, 1.0) * 10f64.powf(rng.f64_in(-9.0, -2.0))),
        4 => F::of(0.0),
        _ => F::of(rng.f64_in(-7.0, 7.0)),
    };
    let x = a.f();
    (a, Ang { token: x, c: x.cos(), s: x.sin() })
}

fn float_step<F: Fl>(k: Kind, rng: &mut Rng) -> (Step<F>, Step<f64>) {
    let dy = |rng: &mut Rng| rng.range_i64(-32, 32) as f64 / 8.0;
    let cv = |st: &Step<f64>, tok: F| -> Step<F> {
        let a = |x: Ang<f64>| Ang { token: tok, c: F::of(x.c), s: F::of(x.s) };
        match *st {
            Step::Translate3(v) => Step::Translate3(v.map(F::of)),
            Step::Translate2(v) => Step::Translate2(v.map(F::of)),
            Step::Scale3(v) => Step::Scale3(v.map(F::of)),
            Step::Scale2(v) => Step::Scale2(v.map(F::of)),
            Step::RotX(x) => Step::RotX(a(x)),
            Step::RotY(x) => Step::RotY(a(x)),
            Step::RotZ(x) => Step::RotZ(a(x)),
            Step::Rot3(x, v, u) => Step::Rot3(a(x), v.map(F::of), u.map(F::of)),
            Step::ShearX(x) => Step::ShearX(F::of(x)),
            Step::ShearY(x) => Step::ShearY(F::of(x)),
        }
    };
    let mut tok = F::of(0.0);
    let r: Step<f64> = match k {
        Kind::Translate3 => Step::Translate3([dy(rng), dy(rng), dy(rng)]),
        Kind::Translate2 => Step::Translate2([dy(rng), dy(rng)]),
        Kind::Scale3 => Step::Scale3([dy(rng), dy(rng), dy(rng)]),
        Kind::Scale2 => Step::Scale2([dy(rng), dy(rng)]),
        Kind::RotX | Kind::RotY | Kind::RotZ => {
            let (t, a) = float_angle::<F>(rng);
            tok = t;
            match k { Kind::RotX => Step::RotX(a), Kind::RotY => Step::RotY(a), _ => Step::RotZ(a) }
        }
        Kind::Rot3 => {
            let (t, a) = float_angle::<F>(rng);
            tok = t;
            // axis: on a coordinate axis with either sign, in a coordinate plane, or generic; any length
            let mut v = [dy(rng), dy(rng), dy(rng)];
            match rng.below(4) {
                0 => { let j = rng.below(3) as usize; let s = if rng.bool() { 1.0 } else { -1.0 }; v = [0.0; 3]; v[j] = s * 2f64.powi(rng.range_i64(-3, 3) as i32); }
                1 => { v[rng.below(3) as usize] = 0.0; }
                _ => {}
            }
            if v.iter().all(|x| *x == 0.0) { v[0] = 1.0; }
            let l = (v[0] * v[0] + v[1] * v[1] + v[2] * v[2]).sqrt();
            Step::Rot3(a, v, [v[0] / l, v[1] / l, v[2] / l])
        }
        Kind::ShearX => Step::ShearX(dy(rng)),
        Kind::ShearY => Step::ShearY(dy(rng)),
    };
    (cv(&r, tok), r)
}

/// one builder step (returning or in-place) on a float matrix whose translation part may be huge:
/// result == D * self within 64 eps * sum |D_ik||self_kj| per element, D from the definition in f64
fn float_builder_case<F: Fl, M: Chain<F>>(sub: &mut Sub, cfg: &Config, idx: u64) {
    let n = M::N;
    let name = format!("float_builders/{}/{}", M::NAME, F::TY);
    let mut rng = Rng::for_case(&name, cfg.case_seed(), idx);
    let al = alphabet(n);
    let k = al[(idx % al.len() as u64) as usize];
    let ip = (idx / al.len() as u64) % 2 == 1;
    let (st, rf) = float_step::<F>(k, &mut rng);
    let mut g: Vec<Vec<f64>> = (0..n).map(|_| (0..n).map(|_| rng.range_i64(-32, 32) as f64 / 8.0).collect()).collect();
    if rng.chance(1, 4) {
        // far from the origin: the last column scaled by a large power of two
        let e = 2f64.powi(rng.range_i64(8, if F::EPS > 1e-10 { 18 } else { 40 }) as i32);
        for row in g.iter_mut().take(n - 1) {
            row[n - 1] *= e;
        }
    }
    // structured receivers: a line of the receiver that coincides with a line of the identity is what a
    // "this matrix is affine / has no translation" shortcut looks at -- and the last row and the last
    // column are the same line only for one of the two layouts
    match rng.below(8) {
        0 => for i in 0..n { g[i][n - 1] = if i == n - 1 { 1.0 } else { 0.0 }; },          // last column = e_n (no translation), projective last row
        1 => for j in 0..n { g[n - 1][j] = if j == n - 1 { 1.0 } else { 0.0 }; },          // last row = e_n (affine), general translation
        2 => { for i in 0..n { g[i][n - 1] = if i == n - 1 { 1.0 } else { 0.0 }; } for j in 0..n { g[n - 1][j] = if j == n - 1 { 1.0 } else { 0.0 }; } } // linear
        3 => { g = (0..n).map(|i| (0..n).map(|j| (i == j) as i64 as f64).collect()).collect(); let (i, j) = (rng.usize_below(n), rng.usize_below(n)); g[i][j] = rng.range_i64(-32, 32) as f64 / 8.0; } // identity but one entry
        _ => {}
    }
    let ty = format!("{}<{}>", M::NAME, F::TY);
    let api = api_name(M::SIZE, k, if ip { Form::InPlace } else { Form::Returning });
    let mut h = H64::new();
    h.s(&name).u(ip as u64).u(k as u64);
    for r in &g { for x in r { h.f(*x); } }
    let mut e0 = vec![0.0; n];
    e0[0] = 1.0;
    let mut probe = vec![0.3, -0.7, 1.1, 1.0][..n].to_vec();
    apply_step_f64(&rf, &mut probe);
    for x in &probe { h.f(*x); }
    let m: M = M::from_fn(|i, j| F::of(g[i][j]));
    sub.saw(&api);
    let r = match guarded(|| m.step(&st, ip)) {
        Ok(r) => r,
        Err(e) => {
            let v = violation(PROP, sub, &api, &ty, "panic", "equals_definition_times_self", format!("self={:?} step={:?}: {}", g, rf, e), cfg.case_seed(), idx);
            sub.violated(v);
            return;
        }
    };
    // D = images of the basis vectors under the definition
    let mut d = vec![vec![0.0f64; n]; n];
    for j in 0..n {
        let mut e: Vec<f64> = (0..n).map(|i| (i == j) as i64 as f64).collect();
        apply_step_f64(&rf, &mut e);
        for i in 0..n { d[i][j] = e[i]; }
    }
    let got = r.to_rows();
    // the entries of a rotation matrix built in the subject type from cos / sin / 1 - cos carry an
    // ABSOLUTE error of a few eps each (1 - cos of a tiny angle has no relative accuracy), whatever
    // their size; the entries of the other steps are the parameters themselves
    let is_rot = matches!(rf, Step::RotX(_) | Step::RotY(_) | Step::RotZ(_) | Step::Rot3(..));
    for i in 0..n {
        for j in 0..n {
            let (mut exp, mut mag) = (0.0f64, 0.0f64);
            for kk in 0..n {
                exp += d[i][kk] * g[kk][j];
                let rot_block = is_rot && i < 3 && kk < 3;
                mag += ((d[i][kk]).abs() + if rot_block { 1.0 } else { 0.0 }) * g[kk][j].abs();
            }
            let tol = 64.0 * F::EPS * mag + 1e-300;
            let gv = got[i][j].f();
            if !((gv - exp).abs() <= tol) {
                let v = violation(PROP, sub, &api, &ty, "wrong_value", "equals_definition_times_self", format!("self={:?} step={:?}: element ({},{}) is {:?}, (definition matrix * self) has {:?} (tolerance {:e})", g, rf, i, j, gv, exp, tol), cfg.case_seed(), idx);
                sub.violated(v);
                return;
            }
        }
    }
    let trivial = match rf { Step::RotX(a) | Step::RotY(a) | Step::RotZ(a) | Step::Rot3(a, _, _) => a.s == 0.0 && a.c == 1.0, _ => false };
    sub.sample(|| format!("{} [{}]: self={:?} step={:?}", api, ty, g, rf));
    sub.held(h.get(), !trivial);
}

/// mul_point / mul_direction (Mat4) and mul_point_2d / mul_direction_2d (Mat3) on float matrices with a
/// large translation: a direction is not moved by the translation, so its image is the linear part
/// applied to it to within 64 eps of the *linear* terms — the size of the translation must not enter
macro_rules! float_mul_case {
    ($sub:expr, $cfg:expr, $idx:expr, $F:ty, $M:ident, $n:expr, $Vin:ident, $point:ident, $dir:ident, $size:expr) => {{
        let n: usize = $n;
        let name = format!("float_mul/{}/{}", <$M<$F> as MatX<$F>>::NAME, <$F as Fl>::TY);
        let mut rng = Rng::for_case(&name, $cfg.case_seed(), $idx);
        let mut g: Vec<Vec<f64>> = (0..n).map(|_| (0..n).map(|_| rng.range_i64(-32, 32) as f64 / 8.0).collect()).collect();
        // affine: last row (0,..,0,1); translation from modest to huge
        for j in 0..n { g[n - 1][j] = if j == n - 1 { 1.0 } else { 0.0 }; }
        let e = match $idx % 4 { 0 => 1.0, 1 => 2f64.powi(10), _ => 2f64.powi(rng.range_i64(12, if <$F as Fl>::EPS > 1e-10 { 30 } else { 60 }) as i32) };
        for row in g.iter_mut().take(n - 1) { row[n - 1] *= e; }
        let v: Vec<f64> = (0..n - 1).map(|_| rng.range_i64(-32, 32) as f64 / 8.0).collect();
        let m: $M<$F> = <$M<$F> as MatX<$F>>::from_fn(|i, j| <$F as Fl>::of(g[i][j]));
        let mk = |v: &[f64]| { let mut it = v.iter().map(|x| <$F as Fl>::of(*x)); <$Vin<$F> as VecX<$F>>::from_fn(|_| it.next().unwrap()) };
        let ty = format!("{}<{}>", <$M<$F> as MatX<$F>>::NAME, <$F as Fl>::TY);
        let (api_p, api_d) = (concat!($size, "::", stringify!($point)), concat!($size, "::", stringify!($dir)));
        $sub.saw(api_p);
        $sub.saw(api_d);
        let mut h = H64::new();
        h.s(&name);
        for r in &g { for x in r { h.f(*x); } }
        for x in &v { h.f(*x); }
        match guarded(|| (m.$point(mk(&v)).to_vec(), m.$dir(mk(&v)).to_vec())) {
            Err(e) => { let vio = violation(PROP, $sub, api_p, &ty, "panic", "affine_map_of_a_point_or_direction", format!("m={:?} v={:?}: {}", g, v, e), $cfg.case_seed(), $idx); $sub.violated(vio); }
            Ok((p, d)) => {
                let mut bad = None;
                for i in 0..n - 1 {
                    let (mut lin, mut mag) = (0.0f64, 0.0f64);
                    for k in 0..n - 1 { lin += g[i][k] * v[k]; mag += (g[i][k] * v[k]).abs(); }
                    let (ep, ed) = (lin + g[i][n - 1], lin);
                    if !((d[i].f() - ed).abs() <= 64.0 * <$F as Fl>::EPS * mag + 1e-300) {
                        bad = Some((api_d, "direction_not_moved_by_the_translation", format!("component {} of the image of the direction is {:?}, the linear part gives {:?} (translation {:e})", i, d[i].f(), ed, g[i][n - 1])));
                        break;
                    }
                    if !((p[i].f() - ep).abs() <= 64.0 * <$F as Fl>::EPS * (mag + g[i][n - 1].abs()) + 1e-300) {
                        bad = Some((api_p, "point_is_linear_part_plus_translation", format!("component {} of the image of the point is {:?}, expected {:?}", i, p[i].f(), ep)));
                        break;
                    }
                }
                match bad {
                    Some((api, what, msg)) => { let vio = violation(PROP, $sub, api, &ty, "wrong_value", what, format!("m={:?} v={:?}: {}", g, v, msg), $cfg.case_seed(), $idx); $sub.violated(vio); }
                    None => { $sub.sample(|| format!("{} [{}]: m={:?} v={:?} -> point {:?} direction {:?}", api_p, ty, g, v, p, d)); $sub.held(h.get(), e > 1.0); }
                }
            }
        }
    }};
}

// ------------------------------------------------------------------ chains

fn test_vectors<T: Elem>(n: usize, rng: &mut Rng) -> Vec<Vec<T>> {
    let z = T::m_int(0);
    let o = T::m_int(1);
    let mut out: Vec<Vec<T>> = Vec::new();
    match n {
        4 => {
            for j in 0..3 {
                out.push((0..4).map(|i| if i == j { o } else { z }).collect()); // unit directions
            }
            out.push(vec![z, z, z, o]); // the origin, a point
            out.push(vec![T::entry(rng), T::entry(rng), T::entry(rng), o]); // a point
            out.push(vec![T::entry(rng), T::entry(rng), T::entry(rng), z]); // a direction
        }
        _ => {
            for j in 0..n {
                out.push((0..n).map(|i| if i == j { o } else { z }).collect());
            }
            out.push((0..n).map(|_| T::entry(rng)).collect());
        }
    }
    out
}

/// Run one chain through vek and through the step-list model, comparing after every step.
/// Returns false on inconclusive/violation.
fn run_chain<T: Elem, M: Chain<T>>(sub: &mut Sub, cfg: &Config, idx: u64, steps: &[Step<T>], forms: &[Form], vectors: &[Vec<T>], hash: u64, nontrivial: bool) {
    let n = M::N;
    let ty = format!("{}<{}>", M::NAME, T::TY);
    if let Some(p) = take_poison() {
        sub.inconclusive(&format!("poison_in_generator:{}", p));
        return;
    }
    // model state: images of the test vectors
    let mut model: Vec<Vec<T>> = vectors.to_vec();
    // vek state, starting from the identity written through the raw fields
    let mut m: M = M::from_fn(|i, j| T::m_int((i == j) as i64));
    for (si, (st, form)) in steps.iter().zip(forms.iter()).enumerate() {
        let api = api_name(M::SIZE, st.kind(), *form);
        sub.saw(&api);
        let r = guarded(|| match form {
            Form::Ctor => M::ctor(st).expect("ctor form only generated where a constructor exists"),
            Form::InPlace => m.step(st, true),
            Form::Returning => m.step(st, false),
        });
        let describe = |upto: usize| -> String {
            steps[..=upto].iter().zip(forms.iter()).map(|(s, f)| format!("{} {:?}", api_name(M::SIZE, s.kind(), *f), s)).collect::<Vec<_>>().join(" . then . ")
        };
        m = match r {
            Ok(v) => v,
            Err(e) => {
                let _ = take_poison();
                let v = violation(PROP, sub, &api, &ty, "panic", &format!("diverges_at:{}", api), format!("chain [{}]: {}", describe(si), e), cfg.case_seed(), idx);
                sub.violated(v);
                return;
            }
        };
        if let Some(p) = take_poison() {
            sub.inconclusive(&format!("poison:{}", p));
            return;
        }
        for v in model.iter_mut() {
            apply_step(st, v);
        }
        if let Some(p) = take_poison() {
            sub.inconclusive(&format!("poison_in_oracle:{}", p));
            return;
        }
        let rows = m.to_rows();
        for (orig, exp) in vectors.iter().zip(model.iter()) {
            let got = g_apply(&rows, orig);
            if let Some(p) = take_poison() {
                sub.inconclusive(&format!("poison_in_oracle:{}", p));
                return;
            }
            if !v_eq(&got, exp) {
                let v = violation(
                    PROP,
                    sub,
                    &api,
                    &ty,
                    "wrong_value",
                    &format!("diverges_at:{}", api),
                    format!("chain [{}] (step {} of {}): matrix = {:?}; applied to {:?} it gives {:?}, the steps applied in call order give {:?}", describe(si), si + 1, steps.len(), rows, orig, got, exp),
                    cfg.case_seed(),
                    idx,
                );
                sub.violated(v);
                return;
            }
        }
    }
    let _ = n;
    sub.sample(|| format!("[{}] chain {} -> {:?}", ty, steps.iter().zip(forms.iter()).map(|(s, f)| format!("{} {:?}", api_name(M::SIZE, s.kind(), *f), s)).collect::<Vec<_>>().join(" . then . "), m.to_rows()));
    sub.held(hash, nontrivial);
}

fn gen_forms<T: Elem, M: Chain<T>>(steps: &[Step<T>], rng: &mut Rng) -> Vec<Form> {
    steps
        .iter()
        .enumerate()
        .map(|(i, st)| {
            if i == 0 && M::ctor(st).is_some() && rng.chance(1, 3) {
                Form::Ctor
            } else if rng.bool() {
                Form::InPlace
            } else {
                Form::Returning
            }
        })
        .collect()
}

fn chain_case<T: Elem, M: Chain<T>>(sub: &mut Sub, cfg: &Config, idx: u64, tag: &str, kinds: &[Kind]) {
    T::reset();
    let name = format!("{}/{}/{}", tag, M::NAME, T::TY);
    let mut rng = Rng::for_case(&name, cfg.case_seed(), idx);
    let steps: Vec<Step<T>> = kinds.iter().map(|k| gen_step::<T>(*k, &mut rng)).collect();
    let forms = gen_forms::<T, M>(&steps, &mut rng);
    let vectors = test_vectors::<T>(M::N, &mut rng);
    let mut h = H64::new();
    h.s(&name);
    for (s, f) in steps.iter().zip(forms.iter()) {
        hash_step(&mut h, s);
        h.u(*f as u64);
    }
    run_chain::<T, M>(sub, cfg, idx, &steps, &forms, &vectors, h.get(), true);
}

/// all chain shapes of length 1..=3 over the alphabet of size n, in a fixed order
fn shapes(n: usize) -> Vec<Vec<Kind>> {
    let a = alphabet(n);
    let mut out: Vec<Vec<Kind>> = Vec::new();
    for &x in a {
        out.push(vec![x]);
    }
    for &x in a {
        for &y in a {
            out.push(vec![x, y]);
        }
    }
    for &x in a {
        for &y in a {
            for &z in a {
                out.push(vec![x, y, z]);
            }
        }
    }
    out
}

// ------------------------------------------------------------------ Transform

fn transform_case<T: Elem>(sub: &mut Sub, cfg: &Config, idx: u64) {
    T::reset();
    let name = format!("transform/{}", T::TY);
    let mut rng = Rng::for_case(&name, cfg.case_seed(), idx);
    let q: [T; 4] = if idx % 13 == 0 { [T::m_int(0), T::m_int(0), T::m_int(0), T::m_int(1)] } else { unit_quat::<T>(&mut rng) };
    let pos = [T::entry(&mut rng), T::entry(&mut rng), T::entry(&mut rng)];
    let uniform = idx % 3 == 0;
    let scale = if uniform {
        let s = T::entry_nz(&mut rng);
        [s, s, s]
    } else {
        loop {
            let s = [T::entry_nz(&mut rng), T::entry_nz(&mut rng), T::entry_nz(&mut rng)];
            if !(s[0].m_eq(s[1]) && s[1].m_eq(s[2])) {
                break s;
            }
        }
    };
    let vectors = test_vectors::<T>(4, &mut rng);
    let r = quat_rot(q);
    if let Some(p) = take_poison() {
        sub.inconclusive(&format!("poison_in_generator:{}", p));
        return;
    }
    let mut h = H64::new();
    h.s(&name);
    for x in q.iter().chain(pos.iter()).chain(scale.iter()) {
        x.h(&mut h);
    }
    let identity_rotation = is0(q[0]) && is0(q[1]) && is0(q[2]);
    let what = if uniform { "uniform_scale" } else { "non_uniform_scale" };
    macro_rules! layout {
        ($M:ident, $salt:expr) => {{
            let ty = format!("{}<{}>", <$M<T> as MatX<T>>::NAME, T::TY);
            let api = "Mat4::from(Transform)";
            sub.saw(api);
            let xf = Transform { position: v3(pos), orientation: Quaternion { x: q[0], y: q[1], z: q[2], w: q[3] }, scale: v3(scale) };
            let res = guarded(|| <$M<T>>::from(xf).to_rows());
            let mut verdict: Option<bool> = None;
            match res {
                Err(e) => {
                    let _ = take_poison();
                    let v = violation(PROP, sub, api, &ty, "panic", what, format!("position={:?} orientation(x,y,z,w)={:?} scale={:?}: {}", pos, q, scale, e), cfg.case_seed(), idx);
                    sub.violated(v);
                }
                Ok(rows) => {
                    if let Some(p) = take_poison() {
                        sub.inconclusive(&format!("poison:{}", p));
                    } else {
                        verdict = Some(true);
                        for v in vectors.iter() {
                            let got = g_apply(&rows, v);
                            // definition: position*w + orientation*(scale . p)
                            let sp = [scale[0].m_mul(v[0]), scale[1].m_mul(v[1]), scale[2].m_mul(v[2])];
                            let mut exp: Vec<T> = (0..3)
                                .map(|i| {
                                    let mut s = pos[i].m_mul(v[3]);
                                    for j in 0..3 {
                                        s = s.m_add(r[i][j].m_mul(sp[j]));
                                    }
                                    s
                                })
                                .collect();
                            exp.push(v[3]);
                            if let Some(p) = take_poison() {
                                sub.inconclusive(&format!("poison_in_oracle:{}", p));
                                verdict = None;
                                break;
                            }
                            if !v_eq(&got, &exp) {
                                let vio = violation(
                                    PROP,
                                    sub,
                                    api,
                                    &ty,
                                    "wrong_value",
                                    what,
                                    format!(
                                        "Transform {{ position: {:?}, orientation (x,y,z,w): {:?}, scale: {:?} }} -> matrix {:?}; applied to {:?} it gives {:?}, but position*w + orientation*(scale . p) = {:?} (orientation matrix {:?})",
                                        pos, q, scale, rows, v, got, exp, r
                                    ),
                                    cfg.case_seed(),
                                    idx,
                                );
                                sub.violated(vio);
                                verdict = Some(false);
                                break;
                            }
                        }
                    }
                }
            }
            if verdict == Some(true) {
                sub.sample(|| format!("{} [{}] {}: position={:?} orientation={:?} scale={:?}", api, ty, what, pos, q, scale));
                sub.held(h.get() ^ $salt, !identity_rotation);
            }
        }};
    }
    layout!(Rows4, 1);
    layout!(Cols4, 2);
}

/// `Mat4::from(Transform)` on f32 / f64 with orientations a *float* can hold: unit quaternions
/// (n sin(a/2), cos(a/2)) built in f64 and rounded, the angle also tiny (1e-2 .. 1e-9: w rounds to
/// exactly 1 while x, y, z do not vanish), near a half turn and near a full turn; positions and
/// points up to 1e4 away so that a small rotation still moves the point by many ulps.
fn transform_float<F: Fl>(sub: &mut Sub, cfg: &Config, idx: u64) {
    use std::f64::consts::PI;
    let name = format!("transform_float/{}", F::TY);
    let mut rng = Rng::for_case(&name, cfg.case_seed(), idx);
    let a = match rng.below(6) {
        0 | 1 => 10f64.powf(rng.f64_in(-9.0, -2.0)) * if rng.bool() { 1.0 } else { -1.0 },
        2 => PI + rng.f64_in(-1e-3, 1e-3),
        3 => 2.0 * PI - 10f64.powf(rng.f64_in(-9.0, -2.0)),
        _ => rng.f64_in(-2.0 * PI, 2.0 * PI),
    };
    let nrm = loop {
        let v = [rng.f64_in(-1.0, 1.0), rng.f64_in(-1.0, 1.0), rng.f64_in(-1.0, 1.0)];
        let l = (v[0] * v[0] + v[1] * v[1] + v[2] * v[2]).sqrt();
        if l > 0.1 && l <= 1.0 {
            break [v[0] / l, v[1] / l, v[2] / l];
        }
    };
    let (sh, ch) = (a / 2.0).sin_cos();
    let q = [F::of(nrm[0] * sh), F::of(nrm[1] * sh), F::of(nrm[2] * sh), F::of(ch)];
    let q64 = [q[0].f(), q[1].f(), q[2].f(), q[3].f()];
    let far = *rng.pick(&[1.0, 1.0, 100.0, 1e4]);
    let pos: Vec<f64> = (0..3).map(|_| F::of(rng.f64_in(-4.0, 4.0) * far).f()).collect();
    let scale: Vec<f64> = if idx % 3 == 0 { let s = F::of(rng.f64_in(0.25, 4.0)).f(); vec![s, s, s] } else { (0..3).map(|_| F::of(rng.f64_in(0.25, 4.0) * if rng.bool() { 1.0 } else { -1.0 }).f()).collect() };
    let p: Vec<f64> = (0..3).map(|_| F::of(rng.f64_in(-4.0, 4.0) * far).f()).collect();
    // textbook rotation matrix of the (rounded) quaternion, in f64
    let (x, y, z, w) = (q64[0], q64[1], q64[2], q64[3]);
    let r = [
        [1.0 - 2.0 * (y * y + z * z), 2.0 * (x * y - z * w), 2.0 * (x * z + y * w)],
        [2.0 * (x * y + z * w), 1.0 - 2.0 * (x * x + z * z), 2.0 * (y * z - x * w)],
        [2.0 * (x * z - y * w), 2.0 * (y * z + x * w), 1.0 - 2.0 * (x * x + y * y)],
    ];
    let mut h = H64::new();
    h.s(&name);
    for v in q64.iter().chain(pos.iter()).chain(scale.iter()).chain(p.iter()) {
        h.f(*v);
    }
    let what = if idx % 3 == 0 { "uniform_scale" } else { "non_uniform_scale" };
    macro_rules! layout {
        ($M:ident, $salt:expr) => {{
            let ty = format!("{}<{}>", <$M<F> as MatX<F>>::NAME, F::TY);
            let api = "Mat4::from(Transform)";
            sub.saw(api);
            let xf = Transform {
                position: v3([F::of(pos[0]), F::of(pos[1]), F::of(pos[2])]),
                orientation: Quaternion { x: q[0], y: q[1], z: q[2], w: q[3] },
                scale: v3([F::of(scale[0]), F::of(scale[1]), F::of(scale[2])]),
            };
            let ctx = format!("Transform {{ position: {:?}, orientation (x,y,z,w): {:?} (angle {:e} about {:?}), scale: {:?} }}", pos, q64, a, nrm, scale);
            match guarded(|| <$M<F>>::from(xf).to_rows()) {
                Err(e) => {
                    let v = violation(PROP, sub, api, &ty, "panic", what, format!("{}: {}", ctx, e), cfg.case_seed(), idx);
                    sub.violated(v);
                }
                Ok(rows) => {
                    let mut bad = None;
                    for (pt, wv) in [(&p, 1.0f64), (&p, 0.0f64)] {
                        for i in 0..3 {
                            let (mut got, mut exp, mut mag) = (0.0f64, pos[i] * wv, (pos[i] * wv).abs());
                            for j in 0..3 {
                                got += rows[i][j].f() * pt[j];
                                exp += r[i][j] * scale[j] * pt[j];
                                mag += (scale[j] * pt[j]).abs();
                            }
                            got += rows[i][3].f() * wv;
                            // the matrix entries carry a few eps of absolute error each (times |scale . p|),
                            // the harness's own f64 product nothing visible at this tolerance
                            let tol = 64.0 * F::EPS * mag + 1e-300;
                            if !((got - exp).abs() <= tol) {
                                bad = Some(format!("{} -> matrix {:?}; applied to {:?} (w = {}) component {} is {:?}, position*w + orientation*(scale . p) gives {:?} (tolerance {:e})", ctx, rows, pt, wv, i, got, exp, tol));
                                break;
                            }
                        }
                        if bad.is_some() { break; }
                    }
                    match bad {
                        Some(msg) => { let v = violation(PROP, sub, api, &ty, "wrong_value", what, msg, cfg.case_seed(), idx); sub.violated(v); }
                        None => { sub.sample(|| format!("{} [{}] {}: {}", api, ty, what, ctx)); sub.held(h.get() ^ $salt, a != 0.0); }
                    }
                }
            }
        }};
    }
    layout!(Rows4, 1);
    layout!(Cols4, 2);
}

fn transform_default<T: Elem>(sub: &mut Sub, cfg: &Config) {
    T::reset();
    let ty = format!("Transform<{0},{0},{0}>", T::TY);
    let mut rng = Rng::for_case("transform_default", cfg.case_seed(), 0);
    let api = "Transform::default";
    sub.saw(api);
    let d = match guarded(Transform::<T, T, T>::default) {
        Ok(d) => d,
        Err(e) => {
            let v = violation(PROP, sub, api, &ty, "panic", "default", e, cfg.case_seed(), 0);
            sub.violated(v);
            return;
        }
    };
    // raw fields: zero position, identity orientation (0,0,0,1), unit scale
    let fields = [d.position.x, d.position.y, d.position.z, d.orientation.x, d.orientation.y, d.orientation.z, d.orientation.w, d.scale.x, d.scale.y, d.scale.z];
    let expect = [0, 0, 0, 0, 0, 0, 1, 1, 1, 1];
    if fields.iter().zip(expect.iter()).any(|(f, e)| !f.m_eq(T::m_int(*e))) {
        let v = violation(PROP, sub, api, &ty, "wrong_value", "default_fields", format!("default() = position {:?} orientation {:?} scale {:?}", d.position, d.orientation, d.scale), cfg.case_seed(), 0);
        sub.violated(v);
        return;
    }
    let vectors = test_vectors::<T>(4, &mut rng);
    for (lname, rows) in [("Rows4", guarded(|| Rows4::<T>::from(d).to_rows())), ("Cols4", guarded(|| Cols4::<T>::from(d).to_rows()))] {
        sub.saw("Mat4::from(Transform)");
        let mty = format!("{}<{}>", lname, T::TY);
        match rows {
            Err(e) => {
                let v = violation(PROP, sub, "Mat4::from(Transform)", &mty, "panic", "default_is_identity_map", e, cfg.case_seed(), 0);
                sub.violated(v);
            }
            Ok(rows) => {
                if let Some(p) = take_poison() {
                    sub.inconclusive(&format!("poison:{}", p));
                    continue;
                }
                let bad = vectors.iter().find(|v| !v_eq(&g_apply(&rows, v), v));
                match bad {
                    Some(v) => {
                        let vio = violation(PROP, sub, "Mat4::from(Transform)", &mty, "wrong_value", "default_is_identity_map", format!("Mat4::from(Transform::default()) = {:?} maps {:?} to {:?}", rows, v, g_apply(&rows, v)), cfg.case_seed(), 0);
                        sub.violated(vio);
                    }
                    None => {
                        let mut h = H64::new();
                        h.s("transform_default").s(&mty);
                        sub.held(h.get(), true);
                    }
                }
            }
        }
    }
}

// ------------------------------------------------------------------ main

fn main() {
    let cfg = Config::from_args(PROP);
    let mut rep = Report::new(cfg.clone());

    {
        let mut s = Sub::new(
            "ctor_trace",
            "Sym: each constructor is called once per layout on parameter symbols; the resulting matrix (raw fields) is applied by the harness's own naive product to a symbolic point (w = 1) / direction (w = 0) / general vector and compared by polynomial identity testing with the definition (translation: p+v resp. p; scaling: s_i p_i; shear: p + k*other). mul_point / mul_direction / mul_point_2d / mul_direction_2d run on a matrix of free symbols with Vec3 and Vec4 (resp. Vec2 and Vec3) arguments and must equal the naive product with w = 1 / w = 0; distinct = (entry point, layout, case)",
        )
        .with_floor(38)
        .require(&[
            "Mat4::translation_2d",
            "Mat4::translation_3d",
            "Mat4::scaling_3d",
            "Mat4::mul_point",
            "Mat4::mul_direction",
            "Mat3::translation_2d",
            "Mat3::scaling_3d",
            "Mat3::mul_point_2d",
            "Mat3::mul_direction_2d",
            "Mat2::scaling_2d",
            "Mat2::shearing_x",
            "Mat2::shearing_y",
        ]);
        if cfg.wants("ctor_trace") {
            ctor_trace_layout!(&mut s, &cfg, Rows4, Rows3, Rows2);
            ctor_trace_layout!(&mut s, &cfg, Cols4, Cols3, Cols2);
        }
        rep.push(s);
    }
    {
        let mut s = Sub::new(
            "ed_trace",
            "Sym: every translated_*/scaled_*/sheared_* and its in-place twin on a matrix of N*N free symbols with symbolic parameters, both layouts; the N*N logged outputs must equal (definition matrix of the step, built from the per-point definition) * self as polynomials (6 random points of GF(2^61-1)); distinct = (entry point, layout)",
        )
        .with_floor(32)
        .require(&[
            "Mat4::translated_2d",
            "Mat4::translate_2d",
            "Mat4::translated_3d",
            "Mat4::translate_3d",
            "Mat4::scaled_3d",
            "Mat4::scale_3d",
            "Mat3::translated_2d",
            "Mat3::translate_2d",
            "Mat3::scaled_3d",
            "Mat3::scale_3d",
            "Mat2::scaled_2d",
            "Mat2::scale_2d",
            "Mat2::sheared_x",
            "Mat2::shear_x",
            "Mat2::sheared_y",
            "Mat2::shear_y",
        ]);
        if cfg.wants("ed_trace") {
            ed_trace::<Rows4<Sym>>(&mut s, &cfg);
            ed_trace::<Cols4<Sym>>(&mut s, &cfg);
            ed_trace::<Rows3<Sym>>(&mut s, &cfg);
            ed_trace::<Cols3<Sym>>(&mut s, &cfg);
            ed_trace::<Rows2<Sym>>(&mut s, &cfg);
            ed_trace::<Cols2<Sym>>(&mut s, &cfg);
        }
        rep.push(s);
    }
    let nrot = cfg.n(8_000, 1_000_000);
    {
        let proto = Sub::new(
            "ed_rotations",
            "rotated_x/y/z/3d and rotate_x/y/z/3d (Mat4, Mat3), rotated_z/rotate_z (Mat2), both layouts, on Q (registered angle tokens with exact rational (cos, sin), axis of rational length) and Fp (random points of the unit circle, registered square root for the axis length): result == R*self for a random self, R = right-handed rotation by the registered angle (Rodrigues for the axis form); kind and form cycle with the index; non-trivial = sin != 0; distinct by hash of angle, axis, self, form",
        )
        .with_floor(nrot * 4)
        .require(&[
            "Mat4::rotated_x", "Mat4::rotated_y", "Mat4::rotated_z", "Mat4::rotated_3d", "Mat4::rotate_x", "Mat4::rotate_y", "Mat4::rotate_z", "Mat4::rotate_3d", "Mat3::rotated_x", "Mat3::rotated_y", "Mat3::rotated_z", "Mat3::rotated_3d",
            "Mat3::rotate_x", "Mat3::rotate_y", "Mat3::rotate_z", "Mat3::rotate_3d", "Mat2::rotated_z", "Mat2::rotate_z",
        ]);
        let s = run_cases(&cfg, proto, nrot, |s, i| {
            macro_rules! go { ($T:ident: $($M:ident),+) => {$( ed_rotation_case::<$T, $M<$T>>(s, &cfg, i); )+} }
            go!(Q: Rows4, Cols4, Rows3, Cols3, Rows2, Cols2);
            go!(Fp: Rows4, Cols4, Rows3, Cols3, Rows2, Cols2);
        });
        rep.push(s);
    }
    let (sh4, sh3, sh2) = (shapes(4), shapes(3), shapes(2));
    let nshapes = (sh4.len() + sh3.len() + sh2.len()) as u64;
    let reps = cfg.n(12, 1_500);
    // every returning and in-place builder of every size must be observed inside chains
    let mut chain_apis: Vec<String> = Vec::new();
    for (size, n) in [("Mat4", 4usize), ("Mat3", 3), ("Mat2", 2)] {
        for &k in alphabet(n) {
            chain_apis.push(api_name(size, k, Form::Returning));
            chain_apis.push(api_name(size, k, Form::InPlace));
        }
    }
    {
        let proto = Sub::new(
            "chains_enum",
            "ALL builder chains of length 1..3 over the alphabet of each size (Mat4: translate_3d, translate_2d, scale_3d, rotate_x, rotate_y, rotate_z, rotate_3d = 399 shapes; Mat3: translate_2d, scale_3d, rotate_x/y/z/3d = 258; Mat2: scale_2d, shear_x, shear_y, rotate_z = 84), shape = index mod 741, with fresh random parameters per repetition, on Q and Fp, both layouts; each step randomly in returning or in-place form (first step sometimes the constructor); start = identity written through raw fields; after EVERY step the vek matrix applied by the harness's naive product to the unit directions, the origin, a random point and a random direction (Mat3/Mat2: basis + random vector) must equal the independent step-list model applied in call order; distinct by hash of shape, parameters and forms",
        )
        .with_floor(nshapes * reps * 2)
        .require(&chain_apis.iter().map(|x| x.as_str()).collect::<Vec<_>>());
        let s = run_cases(&cfg, proto, nshapes * reps, |s, i| {
            let k = (i % nshapes) as usize;
            if k < sh4.len() {
                let kinds = &sh4[k];
                chain_case::<Q, Rows4<Q>>(s, &cfg, i, "chains_enum", kinds);
                chain_case::<Q, Cols4<Q>>(s, &cfg, i, "chains_enum", kinds);
                chain_case::<Fp, Rows4<Fp>>(s, &cfg, i, "chains_enum", kinds);
                chain_case::<Fp, Cols4<Fp>>(s, &cfg, i, "chains_enum", kinds);
            } else if k < sh4.len() + sh3.len() {
                let kinds = &sh3[k - sh4.len()];
                chain_case::<Q, Rows3<Q>>(s, &cfg, i, "chains_enum", kinds);
                chain_case::<Q, Cols3<Q>>(s, &cfg, i, "chains_enum", kinds);
                chain_case::<Fp, Rows3<Fp>>(s, &cfg, i, "chains_enum", kinds);
                chain_case::<Fp, Cols3<Fp>>(s, &cfg, i, "chains_enum", kinds);
            } else {
                let kinds = &sh2[k - sh4.len() - sh3.len()];
                chain_case::<Q, Rows2<Q>>(s, &cfg, i, "chains_enum", kinds);
                chain_case::<Q, Cols2<Q>>(s, &cfg, i, "chains_enum", kinds);
                chain_case::<Fp, Rows2<Fp>>(s, &cfg, i, "chains_enum", kinds);
                chain_case::<Fp, Cols2<Fp>>(s, &cfg, i, "chains_enum", kinds);
            }
        });
        let mut s = s;
        s.extra.push(("chain_shapes_enumerated".to_string(), monitors::Json::i(nshapes)));
        s.extra.push(("repetitions_per_shape".to_string(), monitors::Json::i(reps)));
        rep.push(s);
    }
    {
        let nf = cfg.n(6_000, 600_000);
        let proto = Sub::new(
            "float_builders",
            "f32/f64, Mat4/Mat3/Mat2 in both layouts: one builder step (kind = index mod alphabet, returning / in-place alternating) on a matrix of short dyadics whose last column is, in a quarter of the cases, scaled by 2^8..2^40 (far from the origin); angles as the subject type holds them: k * FRAC_PI_2 computed in the type for k in -9..9 (whole quarter turns of either sign, beyond a full turn), multiples of pi, tiny, 0, uniform in (-7,7); axes on a coordinate axis with either sign / in a coordinate plane / generic, any length; oracle: (definition matrix from f64 cos/sin of exactly that angle) * self in f64, per element within 64 eps * sum (|D_ik| + 1 for the entries of a rotation block, whose error is absolute) |self_kj|; non-trivial = not the zero angle",
        )
        .with_floor(nf * 6)
        .require(&chain_apis.iter().map(|x| x.as_str()).collect::<Vec<_>>());
        let s = run_cases(&cfg, proto, nf, |s, i| {
            macro_rules! go { ($F:ident: $($M:ident),+) => {$( float_builder_case::<$F, $M<$F>>(s, &cfg, i); )+} }
            go!(f32: Rows4, Cols4, Rows3, Cols3, Rows2, Cols2);
            go!(f64: Rows4, Cols4, Rows3, Cols3, Rows2, Cols2);
        });
        rep.push(s);
    }
    {
        let nf = cfg.n(6_000, 600_000);
        let proto = Sub::new(
            "float_mul",
            "f32/f64 affine Mat4 (mul_point, mul_direction) and Mat3 (mul_point_2d, mul_direction_2d) in both layouts with a translation from modest to 2^60 (2^30 for f32) times the linear part: the image of a direction equals the linear part applied to it within 64 eps of the linear terms alone (the translation must not enter the rounding), the image of a point is that plus the translation within 64 eps of all terms; non-trivial = large translation",
        )
        .with_floor(nf * 2)
        .require(&["Mat4::mul_point", "Mat4::mul_direction", "Mat3::mul_point_2d", "Mat3::mul_direction_2d"]);
        let s = run_cases(&cfg, proto, nf, |s, i| {
            float_mul_case!(s, &cfg, i, f32, Rows4, 4, Vec3, mul_point, mul_direction, "Mat4");
            float_mul_case!(s, &cfg, i, f32, Cols4, 4, Vec3, mul_point, mul_direction, "Mat4");
            float_mul_case!(s, &cfg, i, f64, Rows4, 4, Vec3, mul_point, mul_direction, "Mat4");
            float_mul_case!(s, &cfg, i, f64, Cols4, 4, Vec3, mul_point, mul_direction, "Mat4");
            float_mul_case!(s, &cfg, i, f32, Rows3, 3, Vec2, mul_point_2d, mul_direction_2d, "Mat3");
            float_mul_case!(s, &cfg, i, f32, Cols3, 3, Vec2, mul_point_2d, mul_direction_2d, "Mat3");
            float_mul_case!(s, &cfg, i, f64, Rows3, 3, Vec2, mul_point_2d, mul_direction_2d, "Mat3");
            float_mul_case!(s, &cfg, i, f64, Cols3, 3, Vec2, mul_point_2d, mul_direction_2d, "Mat3");
        });
        rep.push(s);
    }
    let nlong = cfg.n(6_000, 600_000);
    {
        let proto = Sub::new(
            "chains_long",
            "random chains of length 4..12 on Fp (no overflow at any depth) and 4..6 on Q, for Mat4/Mat3/Mat2 in both layouts, same per-step comparison with the step-list model as chains_enum; an overflow of the i128 rationals is inconclusive (poison); distinct by hash of shape, parameters and forms",
        )
        .with_floor(nlong * 6);
        let s = run_cases(&cfg, proto, nlong, |s, i| {
            macro_rules! go {
                ($T:ident, $M:ident, $maxlen:expr) => {{
                    let mut rng = Rng::for_case(concat!("chains_long/shape/", stringify!($M), stringify!($T)), cfg.case_seed(), i);
                    let n = <$M<$T> as MatX<$T>>::N;
                    let len = rng.range_i64(4, $maxlen) as usize;
                    let kinds: Vec<Kind> = (0..len).map(|_| *rng.pick(alphabet(n))).collect();
                    chain_case::<$T, $M<$T>>(s, &cfg, i, "chains_long", &kinds);
                }};
            }
            go!(Fp, Rows4, 12);
            go!(Fp, Cols4, 12);
            go!(Fp, Rows3, 12);
            go!(Fp, Cols3, 12);
            go!(Fp, Rows2, 12);
            go!(Fp, Cols2, 12);
            go!(Q, Rows4, 6);
            go!(Q, Cols4, 6);
            go!(Q, Rows3, 6);
            go!(Q, Cols3, 6);
            go!(Q, Rows2, 6);
            go!(Q, Cols2, 6);
        });
        rep.push(s);
    }
    let ntr = cfg.n(10_000, 1_000_000);
    {
        let proto = Sub::new(
            "transform",
            "Mat4::from(Transform { position, orientation, scale }) in both layouts on Q and Fp: orientation a unit quaternion from the square-root-free rational parametrisation (every 13th the identity), random position, scale uniform (index mod 3 == 0) or non-uniform with non-zero components; the matrix applied by the harness to the unit directions, the origin, a random point and a random direction must equal position*w + R(q)*(scale . p) with R(q) the textbook rotation matrix of q (the property's definition); Transform::default(): raw fields (0, identity, 1) and the identity map; non-trivial = orientation not the identity; distinct by hash of the transform and layout; violations are classified uniform_scale / non_uniform_scale",
        )
        .with_floor(ntr / 2)
        .require(&["Mat4::from(Transform)", "Transform::default"]);
        let mut s = run_cases(&cfg, proto, ntr, |s, i| {
            transform_case::<Q>(s, &cfg, i);
            transform_case::<Fp>(s, &cfg, i);
        });
        if cfg.wants("transform") && cfg.only_index.is_none() {
            transform_default::<Q>(&mut s, &cfg);
            transform_default::<Fp>(&mut s, &cfg);
        }
        rep.push(s);
    }
    {
        let proto = Sub::new(
            "transform_float",
            "Mat4::from(Transform) on f32 and f64, both layouts: orientation = (n sin(a/2), cos(a/2)) built in f64 and rounded, a tiny (1e-9..1e-2, either sign: w rounds to exactly 1 while x,y,z do not vanish), within 1e-3 of a half turn, just below a full turn, or uniform in (-2pi,2pi); position and test point up to 4e4 away; scale uniform or per-axis with either sign; the matrix applied by the harness (in f64) to the point (w = 1) and to the direction (w = 0) against position*w + R(q)(scale . p) with R(q) the textbook matrix of the rounded quaternion, tolerance 64 eps (|position| + sum |scale . p|)",
        )
        .with_floor(ntr / 4)
        .require(&["Mat4::from(Transform)"]);
        let s = run_cases(&cfg, proto, ntr / 2, |s, i| {
            transform_float::<f32>(s, &cfg, i);
            transform_float::<f64>(s, &cfg, i);
        });
        rep.push(s);
    }
    std::process::exit(rep.finish());
}

//! C16 — disks, spheres, segments, rays: containment, distance and hit queries are exact.
//!
//! Exact tier: vek's real generic code runs on `Q` (exact rationals, true ordering).  Offsets are
//! built with *rational length* so that vek's `sqrt`-based distance is exact and the boundaries
//! (distance == radius, centre distance == r1 + r2, u = 0, v = 0, u + v = 1, t = 0, t = 1) are hit
//! exactly and missed by a tiny rational.  Oracles are written from the definitions: squared
//! distance comparison, parametric minimisation (+ 257-sample sweep), Cramer solve.
//! Float tier: f32/f64 on dyadic grids (exact oracle in integers / `Q`), derived tolerance and an
//! explicit ill-conditioning guard; pi-formulas against a double-double reference.

use monitors::gen::{rational_length_vec2, rational_length_vec3, rational_rotation, small_q, small_q_pos};
use monitors::prng::{Rng, H64};
use monitors::report::{guarded, run_cases, take_poison, Config, Report, Sub};
use monitors::{Tag, Q};
use props::*;
use vek::geom::repr_c::{Aabb, Aabr, Disk, LineSegment2, LineSegment3, Ray, Rect, Rect3, Sphere};
use vek::vec::repr_c::{Vec2, Vec3};

const PROP: &str = "C16";

// ---------------------------------------------------------------------------------------
// small exact vector algebra on slices (oracle side; never calls vek)

type V = Vec<Q>;

fn vsub(a: &[Q], b: &[Q]) -> V {
    a.iter().zip(b).map(|(x, y)| *x - *y).collect()
}
fn vadd(a: &[Q], b: &[Q]) -> V {
    a.iter().zip(b).map(|(x, y)| *x + *y).collect()
}
fn vscale(a: &[Q], s: Q) -> V {
    a.iter().map(|x| *x * s).collect()
}
fn vdot(a: &[Q], b: &[Q]) -> Q {
    let mut s = Q::ZERO;
    for (x, y) in a.iter().zip(b) {
        s = s + *x * *y;
    }
    s
}
fn vn2(a: &[Q]) -> Q {
    vdot(a, a)
}
fn vzero(a: &[Q]) -> bool {
    a.iter().all(|x| x.is_zero())
}
fn cross(a: &[Q], b: &[Q]) -> V {
    vec![a[1] * b[2] - a[2] * b[1], a[2] * b[0] - a[0] * b[2], a[0] * b[1] - a[1] * b[0]]
}
fn hq(h: &mut H64, xs: &[Q]) {
    for x in xs {
        h.u(x.hash64());
    }
}
fn rand_vec(rng: &mut Rng, n: usize, m: i64, d: i64) -> V {
    (0..n).map(|_| small_q(rng, m, d)).collect()
}
fn rand_nonzero_vec(rng: &mut Rng, n: usize, m: i64, d: i64) -> V {
    loop {
        let v = rand_vec(rng, n, m, d);
        if !vzero(&v) {
            return v;
        }
    }
}
/// a tiny positive rational (far above Q's epsilon band only where that matters)
fn tiny(rng: &mut Rng) -> Q {
    match rng.below(4) {
        0 => Q::new(1, 1 << 20),
        1 => Q::new(1, 1_000_003),
        2 => Q::new(1, 40_353_607), // 7^9
        _ => Q::new(1, 1i128 << 30),
    }
}

macro_rules! call {
    ($sub:expr, $cfg:expr, $idx:expr, $api:expr, $ty:expr, $detail:expr, $e:expr) => {
        match guarded(|| $e) {
            Ok(v) => v,
            Err(m) => {
                let _ = take_poison();
                let v = violation(PROP, $sub, $api, $ty, "panic", "unexpected_panic", format!("{}: panicked: {}", $detail, m), $cfg.case_seed(), $idx);
                $sub.violated(v);
                return;
            }
        }
    };
}
macro_rules! poison_guard {
    ($sub:expr) => {
        if let Some(p) = take_poison() {
            $sub.inconclusive(&format!("poison:{}", p));
            return;
        }
    };
}

// ---------------------------------------------------------------------------------------
// Disk / Sphere over Q behind one trait (raw public fields in, raw public fields out)

trait BallQ: Copy + 'static {
    const N: usize;
    const NAME: &'static str;
    const COLLIDES: &'static str;
    const COLVEC: &'static str;
    const AAB: &'static str;
    const RECT: &'static str;
    fn raw(c: &[Q], r: Q) -> Self;
    fn v_new(c: &[Q], r: Q) -> Self;
    fn v_unit(c: &[Q]) -> Self;
    fn v_point(c: &[Q]) -> Self;
    fn fields(&self) -> (V, Q);
    fn v_contains(self, p: &[Q]) -> bool;
    fn v_collides(self, o: Self) -> bool;
    fn v_colvec(self, o: Self) -> V;
    fn v_diameter(self) -> Q;
    fn v_aab(self) -> (V, V);
    fn v_rect(self) -> (V, V);
    fn rat_vec(rng: &mut Rng) -> (V, Q);
}

fn mk2(c: &[Q]) -> Vec2<Q> {
    Vec2 { x: c[0], y: c[1] }
}
fn mk3(c: &[Q]) -> Vec3<Q> {
    Vec3 { x: c[0], y: c[1], z: c[2] }
}
fn un2(v: Vec2<Q>) -> V {
    vec![v.x, v.y]
}
fn un3(v: Vec3<Q>) -> V {
    vec![v.x, v.y, v.z]
}

impl BallQ for Disk<Q, Q> {
    const N: usize = 2;
    const NAME: &'static str = "Disk";
    const COLLIDES: &'static str = "Disk::collides_with_disk";
    const COLVEC: &'static str = "Disk::collision_vector_with_disk";
    const AAB: &'static str = "Disk::aabr";
    const RECT: &'static str = "Disk::rect";
    fn raw(c: &[Q], r: Q) -> Self {
        Disk { center: mk2(c), radius: r }
    }
    fn v_new(c: &[Q], r: Q) -> Self {
        Disk::new(mk2(c), r)
    }
    fn v_unit(c: &[Q]) -> Self {
        Disk::unit(mk2(c))
    }
    fn v_point(c: &[Q]) -> Self {
        Disk::point(mk2(c))
    }
    fn fields(&self) -> (V, Q) {
        (un2(self.center), self.radius)
    }
    fn v_contains(self, p: &[Q]) -> bool {
        self.contains_point(mk2(p))
    }
    fn v_collides(self, o: Self) -> bool {
        self.collides_with_disk(o)
    }
    fn v_colvec(self, o: Self) -> V {
        un2(self.collision_vector_with_disk(o))
    }
    fn v_diameter(self) -> Q {
        self.diameter()
    }
    fn v_aab(self) -> (V, V) {
        let b: Aabr<Q> = self.aabr();
        (un2(b.min), un2(b.max))
    }
    fn v_rect(self) -> (V, V) {
        let r: Rect<Q, Q> = self.rect();
        (vec![r.x, r.y], vec![r.w, r.h])
    }
    fn rat_vec(rng: &mut Rng) -> (V, Q) {
        let (v, l) = rational_length_vec2(rng, 9);
        (v.to_vec(), l)
    }
}

impl BallQ for Sphere<Q, Q> {
    const N: usize = 3;
    const NAME: &'static str = "Sphere";
    const COLLIDES: &'static str = "Sphere::collides_with_sphere";
    const COLVEC: &'static str = "Sphere::collision_vector_with_sphere";
    const AAB: &'static str = "Sphere::aabb";
    const RECT: &'static str = "Sphere::rect3";
    fn raw(c: &[Q], r: Q) -> Self {
        Sphere { center: mk3(c), radius: r }
    }
    fn v_new(c: &[Q], r: Q) -> Self {
        Sphere::new(mk3(c), r)
    }
    fn v_unit(c: &[Q]) -> Self {
        Sphere::unit(mk3(c))
    }
    fn v_point(c: &[Q]) -> Self {
        Sphere::point(mk3(c))
    }
    fn fields(&self) -> (V, Q) {
        (un3(self.center), self.radius)
    }
    fn v_contains(self, p: &[Q]) -> bool {
        self.contains_point(mk3(p))
    }
    fn v_collides(self, o: Self) -> bool {
        self.collides_with_sphere(o)
    }
    fn v_colvec(self, o: Self) -> V {
        un3(self.collision_vector_with_sphere(o))
    }
    fn v_diameter(self) -> Q {
        self.diameter()
    }
    fn v_aab(self) -> (V, V) {
        let b: Aabb<Q> = self.aabb();
        (un3(b.min), un3(b.max))
    }
    fn v_rect(self) -> (V, V) {
        let r: Rect3<Q, Q> = self.rect3();
        (vec![r.x, r.y, r.z], vec![r.w, r.h, r.d])
    }
    fn rat_vec(rng: &mut Rng) -> (V, Q) {
        let (v, l) = rational_length_vec3(rng, 4);
        (v.to_vec(), l)
    }
}

/// offset with rational length, sometimes axis-aligned, sometimes rescaled
fn rat_offset<B: BallQ>(rng: &mut Rng) -> (V, Q) {
    if rng.chance(1, 8) {
        let l = small_q_pos(rng, 9, 4);
        let ax = rng.usize_below(B::N);
        let s = if rng.bool() { l } else { -l };
        let mut v = vec![Q::ZERO; B::N];
        v[ax] = s;
        (v, l)
    } else {
        let (v, l) = B::rat_vec(rng);
        match rng.below(12) {
            0 | 1 | 2 | 3 => {
                let k = small_q_pos(rng, 5, 3);
                (vscale(&v, k), l * k)
            }
            // microscopic scenes: centre distances (and the radii derived from them) far below the
            // square root of the element type's epsilon, direction arbitrary
            4 => {
                let k = Q::frac(1, 1i64 << *rng.pick(&[28u32, 30, 40]));
                (vscale(&v, k), l * k)
            }
            _ => (v, l),
        }
    }
}

// ---- contains_point

fn ball_contains<B: BallQ>(sub: &mut Sub, cfg: &Config, idx: u64) {
    let api = format!("{}::contains_point", B::NAME);
    let mut rng = Rng::for_case(&format!("ball_contains_q/{}", B::NAME), cfg.case_seed(), idx);
    let c = rand_vec(&mut rng, B::N, 9, 6);
    let (mut off, len) = rat_offset::<B>(&mut rng);
    let mode = idx % 8;
    let r = match mode {
        0 | 7 => len,
        1 => len + tiny(&mut rng),
        2 => len - tiny(&mut rng),
        3 => small_q_pos(&mut rng, 8, 4),
        4 => {
            off = vec![Q::ZERO; B::N];
            if rng.bool() {
                Q::ZERO
            } else {
                small_q_pos(&mut rng, 8, 4)
            }
        }
        5 => Q::ZERO,
        _ => -len,
    };
    let p = vadd(&c, &off);
    let _ = take_poison();
    let detail = format!("center={:?} radius={:?} p={:?}", c, r, p);
    sub.saw(&api);
    let got = call!(sub, cfg, idx, &api, "Q", detail, B::raw(&c, r).v_contains(&p));
    poison_guard!(sub);
    // oracle: squared distance comparison
    let d2 = vn2(&vsub(&p, &c));
    let expected = !r.is_neg() && d2 <= r * r;
    poison_guard!(sub);
    let mut h = H64::new();
    h.s(B::NAME);
    hq(&mut h, &c);
    hq(&mut h, &p);
    hq(&mut h, &[r]);
    if got == expected {
        sub.sample(|| format!("{} [Q]: {} -> {} (d^2={:?}, r^2={:?})", api, detail, got, d2, r * r));
        sub.held(h.get(), !vzero(&off) && !r.is_zero());
    } else {
        let what = if d2 == r * r && !r.is_neg() {
            "on_boundary"
        } else if expected {
            "strictly_inside"
        } else {
            "strictly_outside"
        };
        let v = violation(PROP, sub, &api, "Q", "wrong_value", what, format!("{}: vek returned {}, but |p-c|^2 = {:?} vs r^2 = {:?} gives {}", detail, got, d2, r * r, expected), cfg.case_seed(), idx);
        sub.violated(v);
    }
}

// ---- collides_with_*

/// two balls whose centre distance L is rational; returns (c1, r1, c2, r2, L)
fn gen_pair<B: BallQ>(rng: &mut Rng, mode: u64) -> (V, Q, V, Q, Q) {
    let c1 = rand_vec(rng, B::N, 9, 6);
    let (mut off, mut len) = rat_offset::<B>(rng);
    // split a radius sum R into r1 + r2
    let split = |rng: &mut Rng, rsum: Q| -> (Q, Q) {
        let k = match rng.below(10) {
            0 => 0,
            1 => 8,
            _ => rng.range_i64(1, 7),
        };
        let r1 = rsum * Q::frac(k, 8);
        (r1, rsum - r1)
    };
    let (r1, r2) = match mode {
        0 => split(rng, len),
        1 => {
            // just overlapping / just apart, relative to the centre distance (which may be microscopic)
            let t = tiny(rng) * len;
            split(rng, len + t)
        }
        2 => {
            let t = tiny(rng) * len;
            split(rng, len - t)
        }
        3 => (small_q_pos(rng, 8, 4), small_q_pos(rng, 8, 4)),
        4 => {
            off = vec![Q::ZERO; B::N];
            len = Q::ZERO;
            (Q::frac(rng.range_i64(0, 8), 3), Q::frac(rng.range_i64(0, 8), 4))
        }
        5 => {
            // other strictly inside self
            let r2 = small_q_pos(rng, 4, 4);
            (len + r2 + small_q_pos(rng, 4, 4), r2)
        }
        6 => {
            // self smaller than other, distance between |r1-r2| and r1+r2
            let r1 = small_q_pos(rng, 3, 8);
            (r1, len)
        }
        _ => {
            // clearly apart
            let (a, b) = split(rng, len);
            (a * Q::frac(1, 2), b * Q::frac(1, 2))
        }
    };
    let c2 = vadd(&c1, &off);
    (c1, r1, c2, r2, len)
}

fn ball_collides<B: BallQ>(sub: &mut Sub, cfg: &Config, idx: u64) {
    let api = B::COLLIDES;
    let mut rng = Rng::for_case(&format!("ball_collides_q/{}", B::NAME), cfg.case_seed(), idx);
    let (c1, r1, c2, r2, _len) = gen_pair::<B>(&mut rng, idx % 8);
    let _ = take_poison();
    let detail = format!("self: center={:?} radius={:?}; other: center={:?} radius={:?}", c1, r1, c2, r2);
    sub.saw(api);
    let a = B::raw(&c1, r1);
    let b = B::raw(&c2, r2);
    let got_ab = call!(sub, cfg, idx, api, "Q", detail, a.v_collides(b));
    let got_ba = call!(sub, cfg, idx, api, "Q", detail, b.v_collides(a));
    poison_guard!(sub);
    let d2 = vn2(&vsub(&c2, &c1));
    let rs = r1 + r2;
    let expected = d2 <= rs * rs; // radii are non-negative by construction
    poison_guard!(sub);
    let mut h = H64::new();
    h.s(B::NAME);
    hq(&mut h, &c1);
    hq(&mut h, &c2);
    hq(&mut h, &[r1, r2]);
    if got_ab == expected && got_ba == expected {
        sub.sample(|| format!("{} [Q]: {} -> {} (d^2={:?}, (r1+r2)^2={:?})", api, detail, got_ab, d2, rs * rs));
        sub.held(h.get(), !d2.is_zero() && !rs.is_zero());
    } else {
        let what = if d2 == rs * rs {
            "exactly_tangent"
        } else if expected {
            "overlapping"
        } else {
            "separated"
        };
        let v = violation(PROP, sub, api, "Q", "wrong_value", what, format!("{}: vek returned self.collides(other)={}, other.collides(self)={}, but centre distance^2 = {:?} vs (r1+r2)^2 = {:?} gives {}", detail, got_ab, got_ba, d2, rs * rs, expected), cfg.case_seed(), idx);
        sub.violated(v);
    }
}

// ---- collision_vector_with_*

fn ball_colvec<B: BallQ>(sub: &mut Sub, cfg: &Config, idx: u64) {
    let api = B::COLVEC;
    let mut rng = Rng::for_case(&format!("ball_collision_vector_q/{}", B::NAME), cfg.case_seed(), idx);
    let (c1, r1, c2, r2, _len) = gen_pair::<B>(&mut rng, idx % 8);
    let _ = take_poison();
    let detail = format!("self: center={:?} radius={:?}; other: center={:?} radius={:?}", c1, r1, c2, r2);
    if vzero(&vsub(&c2, &c1)) {
        // normalisation of the zero vector: no direction to move along
        sub.inconclusive("outside_domain:coincident_centres");
        return;
    }
    sub.saw(api);
    let v = call!(sub, cfg, idx, api, "Q", detail, B::raw(&c1, r1).v_colvec(B::raw(&c2, r2)));
    poison_guard!(sub);
    // move the other shape by v: the two must be exactly (externally) tangent
    let moved = vadd(&c2, &v);
    let d2 = vn2(&vsub(&moved, &c1));
    let rs = r1 + r2;
    poison_guard!(sub);
    let mut h = H64::new();
    h.s(B::NAME);
    hq(&mut h, &c1);
    hq(&mut h, &c2);
    hq(&mut h, &[r1, r2]);
    if d2 == rs * rs {
        sub.sample(|| format!("{} [Q]: {} -> {:?}; moved centre distance^2 = {:?} = (r1+r2)^2", api, detail, v, d2));
        sub.held(h.get(), !vzero(&v) && !rs.is_zero());
    } else {
        let vio = violation(PROP, sub, api, "Q", "wrong_value", "not_tangent_after_move", format!("{}: vek returned {:?}; other.center + v = {:?}, centre distance^2 = {:?}, expected (r1+r2)^2 = {:?}", detail, v, moved, d2, rs * rs), cfg.case_seed(), idx);
        sub.violated(vio);
    }
}

// ---- constructors, diameter, bounds

fn ball_bounds_q<B: BallQ>(sub: &mut Sub, cfg: &Config, idx: u64) {
    let ty = "Q";
    let mut rng = Rng::for_case(&format!("ball_bounds/{}", B::NAME), cfg.case_seed(), idx);
    let c = rand_vec(&mut rng, B::N, 20, 7);
    let r = if idx % 7 == 0 { Q::ZERO } else { small_q_pos(&mut rng, 20, 7) };
    let _ = take_poison();
    let detail = format!("center={:?} radius={:?}", c, r);
    let seed = cfg.case_seed();
    let mut bad: Option<(String, &'static str, String)> = None;
    let mut chk = |api: String, what: &'static str, ok: bool, msg: String| {
        if !ok && bad.is_none() {
            bad = Some((api, what, msg));
        }
    };
    let n_api = format!("{}::new", B::NAME);
    let u_api = format!("{}::unit", B::NAME);
    let p_api = format!("{}::point", B::NAME);
    let d_api = format!("{}::diameter", B::NAME);
    for a in [&n_api, &u_api, &p_api, &d_api] {
        sub.saw(a);
    }
    sub.saw(B::AAB);
    sub.saw(B::RECT);
    let s = call!(sub, cfg, idx, &n_api, ty, detail, B::v_new(&c, r));
    let (fc, fr) = s.fields();
    chk(n_api.clone(), "fields_not_stored", fc == c && fr == r, format!("new stored center={:?} radius={:?}", fc, fr));
    let (uc, ur) = call!(sub, cfg, idx, &u_api, ty, detail, B::v_unit(&c)).fields();
    chk(u_api.clone(), "unit_not_radius_one", uc == c && ur == Q::ONE, format!("unit gave center={:?} radius={:?}", uc, ur));
    let (pc, pr) = call!(sub, cfg, idx, &p_api, ty, detail, B::v_point(&c)).fields();
    chk(p_api.clone(), "point_not_radius_zero", pc == c && pr == Q::ZERO, format!("point gave center={:?} radius={:?}", pc, pr));
    let d = call!(sub, cfg, idx, &d_api, ty, detail, s.v_diameter());
    chk(d_api.clone(), "diameter_not_twice_radius", d == Q::int(2) * r, format!("diameter = {:?}, expected {:?}", d, Q::int(2) * r));
    let (mn, mx) = call!(sub, cfg, idx, B::AAB, ty, detail, s.v_aab());
    let emn: V = c.iter().map(|x| *x - r).collect();
    let emx: V = c.iter().map(|x| *x + r).collect();
    chk(B::AAB.to_string(), "bounds_not_centre_pm_radius", mn == emn && mx == emx, format!("min={:?} max={:?}, expected min={:?} max={:?}", mn, mx, emn, emx));
    let (pos, ext) = call!(sub, cfg, idx, B::RECT, ty, detail, s.v_rect());
    let eext: V = vec![Q::int(2) * r; B::N];
    chk(B::RECT.to_string(), "rect_not_centre_minus_radius_diameter", pos == emn && ext == eext, format!("position={:?} extent={:?}, expected position={:?} extent={:?}", pos, ext, emn, eext));
    poison_guard!(sub);
    let mut h = H64::new();
    h.s(B::NAME);
    hq(&mut h, &c);
    hq(&mut h, &[r]);
    match bad {
        None => {
            sub.sample(|| format!("{} [Q]: {} -> min={:?} max={:?} rect pos={:?} ext={:?}", B::AAB, detail, mn, mx, pos, ext));
            sub.held(h.get(), !r.is_zero());
        }
        Some((api, what, msg)) => {
            let v = violation(PROP, sub, &api, ty, "wrong_value", what, format!("{}: {}", detail, msg), seed, idx);
            sub.violated(v);
        }
    }
}

// ---- native instantiations of the generic <P,E> methods: i32/i32, i64/i32, f64/f32, Tag

fn ball_bounds_native(sub: &mut Sub, cfg: &Config, idx: u64) {
    let mut rng = Rng::for_case("ball_bounds/native", cfg.case_seed(), idx);
    let c: Vec<i32> = (0..3).map(|_| rng.range_i64(-10_000, 10_000) as i32).collect();
    let r: i32 = if idx % 7 == 0 { 0 } else { rng.range_i64(1, 10_000) as i32 };
    let detail = format!("center={:?} radius={}", c, r);
    let seed = cfg.case_seed();
    let mut bad: Option<(&'static str, &'static str, &'static str, String)> = None;
    let mut chk = |api: &'static str, ty: &'static str, what: &'static str, ok: bool, msg: String| {
        if !ok && bad.is_none() {
            bad = Some((api, ty, what, msg));
        }
    };
    for a in ["Disk::new", "Disk::diameter", "Disk::rect", "Disk::aabr", "Sphere::new", "Sphere::diameter", "Sphere::rect3", "Sphere::aabb", "Disk::unit", "Disk::point", "Sphere::unit", "Sphere::point"] {
        sub.saw(a);
    }
    // Disk<i32,i32>
    let dk = call!(sub, cfg, idx, "Disk::new", "i32", detail, Disk::<i32, i32>::new(Vec2 { x: c[0], y: c[1] }, r));
    chk("Disk::new", "i32", "fields_not_stored", dk.center.x == c[0] && dk.center.y == c[1] && dk.radius == r, format!("{:?}", dk));
    let d = call!(sub, cfg, idx, "Disk::diameter", "i32", detail, dk.diameter());
    chk("Disk::diameter", "i32", "diameter_not_twice_radius", d == 2 * r, format!("diameter={}", d));
    let b = call!(sub, cfg, idx, "Disk::aabr", "i32", detail, dk.aabr());
    chk("Disk::aabr", "i32", "bounds_not_centre_pm_radius", b.min.x == c[0] - r && b.min.y == c[1] - r && b.max.x == c[0] + r && b.max.y == c[1] + r, format!("{:?}", b));
    let rc = call!(sub, cfg, idx, "Disk::rect", "i32", detail, dk.rect());
    chk("Disk::rect", "i32", "rect_not_centre_minus_radius_diameter", rc.x == c[0] - r && rc.y == c[1] - r && rc.w == 2 * r && rc.h == 2 * r, format!("{:?}", rc));
    // Sphere<i32,i32>
    let sp = call!(sub, cfg, idx, "Sphere::new", "i32", detail, Sphere::<i32, i32>::new(Vec3 { x: c[0], y: c[1], z: c[2] }, r));
    chk("Sphere::new", "i32", "fields_not_stored", sp.center.x == c[0] && sp.center.y == c[1] && sp.center.z == c[2] && sp.radius == r, format!("{:?}", sp));
    let d = call!(sub, cfg, idx, "Sphere::diameter", "i32", detail, sp.diameter());
    chk("Sphere::diameter", "i32", "diameter_not_twice_radius", d == 2 * r, format!("diameter={}", d));
    let b = call!(sub, cfg, idx, "Sphere::aabb", "i32", detail, sp.aabb());
    chk(
        "Sphere::aabb",
        "i32",
        "bounds_not_centre_pm_radius",
        b.min.x == c[0] - r && b.min.y == c[1] - r && b.min.z == c[2] - r && b.max.x == c[0] + r && b.max.y == c[1] + r && b.max.z == c[2] + r,
        format!("{:?}", b),
    );
    let rc = call!(sub, cfg, idx, "Sphere::rect3", "i32", detail, sp.rect3());
    chk("Sphere::rect3", "i32", "rect_not_centre_minus_radius_diameter", rc.x == c[0] - r && rc.y == c[1] - r && rc.z == c[2] - r && rc.w == 2 * r && rc.h == 2 * r && rc.d == 2 * r, format!("{:?}", rc));
    // mixed position / extent types: Disk<i64,i32>, Sphere<f64,f32> (P: From<E>)
    let big = 1i64 << 40;
    let dm = Disk::<i64, i32>::new(Vec2 { x: big + c[0] as i64, y: -big + c[1] as i64 }, r);
    let rc = call!(sub, cfg, idx, "Disk::rect", "i64/i32", detail, dm.rect());
    chk("Disk::rect", "i64/i32", "rect_not_centre_minus_radius_diameter", rc.x == big + (c[0] - r) as i64 && rc.y == -big + (c[1] - r) as i64 && rc.w == 2 * r && rc.h == 2 * r, format!("{:?}", rc));
    let (fx, fy, fz, fr) = (c[0] as f64 / 8.0, c[1] as f64 / 8.0, c[2] as f64 / 8.0, r as f32 / 16.0);
    let sm = Sphere::<f64, f32>::new(Vec3 { x: fx, y: fy, z: fz }, fr);
    let rc = call!(sub, cfg, idx, "Sphere::rect3", "f64/f32", detail, sm.rect3());
    let frd = fr as f64; // all values are short dyadics: exact
    chk("Sphere::rect3", "f64/f32", "rect_not_centre_minus_radius_diameter", rc.x == fx - frd && rc.y == fy - frd && rc.z == fz - frd && rc.w == 2.0 * fr && rc.h == 2.0 * fr && rc.d == 2.0 * fr, format!("{:?}", rc));
    let dd = call!(sub, cfg, idx, "Sphere::diameter", "f64/f32", detail, sm.diameter());
    chk("Sphere::diameter", "f64/f32", "diameter_not_twice_radius", dd == 2.0 * fr, format!("{}", dd));
    // bounds evaluated in the element type itself: large-magnitude float centres where centre - radius
    // or centre + radius is not exactly representable (the bound is then the rounded sum / difference,
    // computed once), and integer shapes whose radius exceeds a quarter of the type's range while both
    // bounds stay representable
    {
        let cf: Vec<f32> = (0..3).map(|_| (16_777_216 + 2 * rng.range_i64(-40, 40)) as f32 * if rng.bool() { 1.0 } else { -1.0 }).collect();
        let rf: f32 = *rng.pick(&[1.0f32, 3.0, 0.5, 5.0, 1.5]);
        let df = Disk::<f32, f32>::new(Vec2 { x: cf[0], y: cf[1] }, rf);
        let b = call!(sub, cfg, idx, "Disk::aabr", "f32", detail, df.aabr());
        chk("Disk::aabr", "f32", "bounds_not_centre_pm_radius", b.min.x == cf[0] - rf && b.min.y == cf[1] - rf && b.max.x == cf[0] + rf && b.max.y == cf[1] + rf, format!("center {:?} radius {}: {:?}, centre -/+ radius in f32 = ({}, {}) / ({}, {})", &cf[..2], rf, b, cf[0] - rf, cf[1] - rf, cf[0] + rf, cf[1] + rf));
        let sf = Sphere::<f32, f32>::new(Vec3 { x: cf[0], y: cf[1], z: cf[2] }, rf);
        let b = call!(sub, cfg, idx, "Sphere::aabb", "f32", detail, sf.aabb());
        chk("Sphere::aabb", "f32", "bounds_not_centre_pm_radius", b.min.x == cf[0] - rf && b.min.z == cf[2] - rf && b.max.y == cf[1] + rf && b.max.z == cf[2] + rf, format!("center {:?} radius {}: {:?}", cf, rf, b));
        let cd: Vec<f64> = (0..3).map(|_| rng.f64_in(-1000.0, 1000.0)).collect();
        let rd: f64 = rng.f64_in(0.001, 10.0);
        let sd = Sphere::<f64, f64>::new(Vec3 { x: cd[0], y: cd[1], z: cd[2] }, rd);
        let b = call!(sub, cfg, idx, "Sphere::aabb", "f64", detail, sd.aabb());
        chk("Sphere::aabb", "f64", "bounds_not_centre_pm_radius", b.min.x == cd[0] - rd && b.min.y == cd[1] - rd && b.min.z == cd[2] - rd && b.max.x == cd[0] + rd && b.max.y == cd[1] + rd && b.max.z == cd[2] + rd, format!("center {:?} radius {}: {:?}", cd, rd, b));
        let bigr: i32 = 1_500_000_000 + rng.range_i64(0, 1000) as i32;
        let ci: Vec<i32> = (0..3).map(|_| rng.range_i64(-1000, 1000) as i32).collect();
        let di = Disk::<i32, i32>::new(Vec2 { x: ci[0], y: ci[1] }, bigr);
        let b = call!(sub, cfg, idx, "Disk::aabr", "i32", detail, di.aabr());
        chk("Disk::aabr", "i32", "bounds_not_centre_pm_radius", b.min.x == ci[0] - bigr && b.min.y == ci[1] - bigr && b.max.x == ci[0] + bigr && b.max.y == ci[1] + bigr, format!("center {:?} radius {}: {:?}", &ci[..2], bigr, b));
        let si = Sphere::<i8, i8>::new(Vec3 { x: (ci[0] % 20) as i8, y: (ci[1] % 20) as i8, z: (ci[2] % 20) as i8 }, 100);
        let b = call!(sub, cfg, idx, "Sphere::aabb", "i8", detail, si.aabb());
        chk("Sphere::aabb", "i8", "bounds_not_centre_pm_radius", b.min.x == si.center.x - 100 && b.max.x == si.center.x + 100 && b.min.z == si.center.z - 100 && b.max.z == si.center.z + 100, format!("{:?}: {:?}", si, b));
    }
    // data movement of the constructors on opaque tokens
    let t = |k: u32| Tag(1000 + 10 * (idx as u32 % 1000) + k);
    let dt = Disk::<Tag, Tag>::new(Vec2 { x: t(0), y: t(1) }, t(2));
    chk("Disk::new", "Tag", "fields_not_stored", dt.center.x == t(0) && dt.center.y == t(1) && dt.radius == t(2), format!("{:?}", dt));
    let du = Disk::<Tag, Tag>::unit(Vec2 { x: t(0), y: t(1) });
    chk("Disk::unit", "Tag", "unit_not_radius_one", du.center.x == t(0) && du.center.y == t(1) && du.radius == Tag(monitors::tag::TAG_ONE), format!("{:?}", du));
    let dp = Disk::<Tag, Tag>::point(Vec2 { x: t(0), y: t(1) });
    chk("Disk::point", "Tag", "point_not_radius_zero", dp.center.x == t(0) && dp.center.y == t(1) && dp.radius == Tag(monitors::tag::TAG_ZERO), format!("{:?}", dp));
    let st = Sphere::<Tag, Tag>::new(Vec3 { x: t(0), y: t(1), z: t(2) }, t(3));
    chk("Sphere::new", "Tag", "fields_not_stored", st.center.x == t(0) && st.center.y == t(1) && st.center.z == t(2) && st.radius == t(3), format!("{:?}", st));
    let su = Sphere::<Tag, Tag>::unit(Vec3 { x: t(0), y: t(1), z: t(2) });
    chk("Sphere::unit", "Tag", "unit_not_radius_one", su.center.x == t(0) && su.center.y == t(1) && su.center.z == t(2) && su.radius == Tag(monitors::tag::TAG_ONE), format!("{:?}", su));
    let sp2 = Sphere::<Tag, Tag>::point(Vec3 { x: t(0), y: t(1), z: t(2) });
    chk("Sphere::point", "Tag", "point_not_radius_zero", sp2.center.x == t(0) && sp2.center.y == t(1) && sp2.center.z == t(2) && sp2.radius == Tag(monitors::tag::TAG_ZERO), format!("{:?}", sp2));
    let _ = take_poison();
    let mut h = H64::new();
    h.s("native");
    for x in &c {
        h.i(*x as i128);
    }
    h.i(r as i128);
    match bad {
        None => sub.held(h.get(), r != 0),
        Some((api, ty, what, msg)) => {
            let v = violation(PROP, sub, api, ty, "wrong_value", what, format!("{}: vek gave {}", detail, msg), seed, idx);
            sub.violated(v);
        }
    }
}

// ---------------------------------------------------------------------------------------
// pi formulas on f32 / f64 against a double-double reference

fn two_prod(a: f64, b: f64) -> (f64, f64) {
    let p = a * b;
    (p, a.mul_add(b, -p))
}
fn quick_two_sum(a: f64, b: f64) -> (f64, f64) {
    let s = a + b;
    (s, b - (s - a))
}
fn dd_mul_d(x: (f64, f64), b: f64) -> (f64, f64) {
    let (p, e) = two_prod(x.0, b);
    quick_two_sum(p, e + x.1 * b)
}
fn dd_div3(x: (f64, f64)) -> (f64, f64) {
    let q1 = x.0 / 3.0;
    let r = (-q1).mul_add(3.0, x.0);
    quick_two_sum(q1, (r + x.1) / 3.0)
}
const PI_DD: (f64, f64) = (std::f64::consts::PI, 1.224_646_799_147_353_2e-16);

/// [2 pi r, pi r^2, 4 pi r^2, 4/3 pi r^3] with ~1e-30 relative error
fn pi_refs(r: f64) -> [(f64, f64); 4] {
    let pr = dd_mul_d(PI_DD, r);
    let prr = dd_mul_d(pr, r);
    let prrr = dd_mul_d(prr, r);
    [dd_mul_d(pr, 2.0), prr, dd_mul_d(prr, 4.0), dd_div3(dd_mul_d(prrr, 4.0))]
}

fn pi_case(sub: &mut Sub, cfg: &Config, idx: u64) {
    let mut rng = Rng::for_case("ball_pi_formulas", cfg.case_seed(), idx);
    const APIS: [&str; 4] = ["Disk::circumference", "Disk::area", "Sphere::surface_area", "Sphere::volume"];
    const WHAT: [&str; 4] = ["not_2_pi_r", "not_pi_r2", "not_4_pi_r2", "not_4_3_pi_r3"];
    // a radius exactly representable in f32 (so the same value feeds both types)
    let r32: f32 = match idx % 16 {
        0 => 0.0,
        1 => 1.0,
        _ => {
            let m = 1.0 + (rng.below(1 << 23) as f64) / (1u64 << 23) as f64;
            (m * 2f64.powi(rng.range_i64(-20, 20) as i32)) as f32
        }
    };
    // and a full-mantissa f64 radius over a wide exponent range
    let r64: f64 = if idx % 16 < 2 { r32 as f64 } else { (1.0 + rng.unit_f64()) * 2f64.powi(rng.range_i64(-100, 100) as i32) };
    for a in APIS {
        sub.saw(a);
    }
    let c2 = Vec2 { x: 1.0f32, y: -2.0 };
    let c3 = Vec3 { x: 1.0f32, y: -2.0, z: 0.5 };
    let got32 = call!(sub, cfg, idx, "Disk::circumference", "f32", format!("radius={:e}", r32), {
        let d = Disk::<f32, f32>::new(c2, r32);
        let s = Sphere::<f32, f32>::new(c3, r32);
        [d.circumference() as f64, d.area() as f64, s.surface_area() as f64, s.volume() as f64]
    });
    let got64 = call!(sub, cfg, idx, "Disk::circumference", "f64", format!("radius={:e}", r64), {
        let d = Disk::<f32, f64>::new(c2, r64);
        let s = Sphere::<f32, f64>::new(c3, r64);
        [d.circumference(), d.area(), s.surface_area(), s.volume()]
    });
    let mut h = H64::new();
    h.f(r32 as f64).f(r64);
    for (ty, r, got, eps) in [("f32", r32 as f64, got32, f32::EPSILON as f64), ("f64", r64, got64, f64::EPSILON)] {
        let refs = pi_refs(r);
        for k in 0..4 {
            let (hi, lo) = refs[k];
            let diff = ((got[k] - hi) - lo).abs();
            let tol = 4.0 * eps * hi.abs();
            if !(diff <= tol) {
                let v = violation(PROP, sub, APIS[k], ty, "wrong_value", WHAT[k], format!("radius={:e}: vek returned {:e}, formula gives {:e} (difference {:e} > 4 ulp = {:e})", r, got[k], hi, diff, tol), cfg.case_seed(), idx);
                sub.violated(v);
                return;
            }
        }
    }
    sub.sample(|| format!("r32={:e} -> {:?}; r64={:e} -> {:?}", r32, got32, r64, got64));
    sub.held(h.get(), r32 != 0.0);
}

// ---------------------------------------------------------------------------------------
// float tier for contains / collides / collision vector: inputs on a dyadic grid (exact in f32),
// oracle in integer arithmetic on the grid, ill-conditioning guard around the boundary

trait Flt: num_traits::real::Real + approx::RelativeEq + std::fmt::Debug + 'static {
    const NAME: &'static str;
    const EPS: f64;
    fn of(x: f64) -> Self;
    fn f(self) -> f64;
}
impl Flt for f32 {
    const NAME: &'static str = "f32";
    const EPS: f64 = f32::EPSILON as f64;
    fn of(x: f64) -> f32 {
        x as f32
    }
    fn f(self) -> f64 {
        self as f64
    }
}
impl Flt for f64 {
    const NAME: &'static str = "f64";
    const EPS: f64 = f64::EPSILON;
    fn of(x: f64) -> f64 {
        x
    }
    fn f(self) -> f64 {
        self
    }
}

const GRID: f64 = 1024.0; // grid step 2^-10
fn g(k: i64) -> f64 {
    k as f64 / GRID
}

fn ball_float<T: Flt>(sub: &mut Sub, cfg: &Config, idx: u64) {
    let mut rng = Rng::for_case(&format!("ball_float/{}", T::NAME), cfg.case_seed(), idx);
    let three_d = idx % 2 == 1;
    let n = if three_d { 3 } else { 2 };
    // every fourth pair of cases is a microscopic scene: the whole configuration scaled by 2^-20
    // (exact in the type) with centres only a few grid steps apart, so that centre distances are far
    // below the square root of the type's epsilon
    let micro = (idx / 8) % 4 == 0;
    let sc: f64 = if micro { 1.0 / (1u64 << 20) as f64 } else { 1.0 };
    let g = |k: i64| g(k) * sc;
    let (ra, rb) = if micro { (1i64 << 10, 1i64 << 6) } else { (1i64 << 17, 1i64 << 16) };
    let kc: Vec<i64> = (0..3).map(|i| if i < n { rng.range_i64(-ra, ra) } else { 0 }).collect();
    let ko: Vec<i64> = (0..3).map(|i| if i < n { rng.range_i64(-rb, rb) } else { 0 }).collect();
    let d2: i128 = ko.iter().map(|x| (*x as i128) * (*x as i128)).sum();
    let l = (d2 as f64).sqrt();
    // radius sum near / away from the centre distance
    let ks: i64 = match (idx / 2) % 4 {
        0 => (l * (1.0 + 1e-3 * (rng.unit_f64() - 0.5))).round() as i64,
        1 => (l * (0.2 + 1.6 * rng.unit_f64())).round() as i64,
        _ => rng.range_i64(1, ra),
    }
    .max(1);
    let k1 = rng.range_i64(0, ks);
    let k2 = ks - k1;
    let kp: Vec<i64> = (0..3).map(|i| kc[i] + ko[i]).collect();
    let v = |k: &Vec<i64>| -> (Vec2<T>, Vec3<T>) { (Vec2 { x: T::of(g(k[0])), y: T::of(g(k[1])) }, Vec3 { x: T::of(g(k[0])), y: T::of(g(k[1])), z: T::of(g(k[2])) }) };
    let (c2, c3) = v(&kc);
    let (p2, p3) = v(&kp);
    let (rs, r1, r2) = (T::of(g(ks)), T::of(g(k1)), T::of(g(k2)));
    let detail = format!("{}D grid 2^-10{}: centre k={:?}, other/point k={:?}, radius k={} (split {} + {})", n, if micro { " scaled by 2^-20" } else { "" }, kc, kp, ks, k1, k2);
    let (sname, contains_api, coll_api, cv_api) = if three_d { ("Sphere", "Sphere::contains_point", "Sphere::collides_with_sphere", "Sphere::collision_vector_with_sphere") } else { ("Disk", "Disk::contains_point", "Disk::collides_with_disk", "Disk::collision_vector_with_disk") };
    let _ = sname;
    sub.saw(contains_api);
    sub.saw(coll_api);
    sub.saw(cv_api);
    let (contains, collides, cv): (bool, bool, [f64; 3]) = call!(sub, cfg, idx, contains_api, T::NAME, detail, {
        if three_d {
            let a = Sphere::<T, T> { center: c3, radius: rs };
            let a1 = Sphere::<T, T> { center: c3, radius: r1 };
            let b = Sphere::<T, T> { center: p3, radius: r2 };
            let w = a1.collision_vector_with_sphere(b);
            (a.contains_point(p3), a1.collides_with_sphere(b), [w.x.f(), w.y.f(), w.z.f()])
        } else {
            let a = Disk::<T, T> { center: c2, radius: rs };
            let a1 = Disk::<T, T> { center: c2, radius: r1 };
            let b = Disk::<T, T> { center: p2, radius: r2 };
            let w = a1.collision_vector_with_disk(b);
            (a.contains_point(p2), a1.collides_with_disk(b), [w.x.f(), w.y.f(), 0.0])
        }
    });
    let mut h = H64::new();
    h.s(T::NAME).u(n as u64);
    for x in kc.iter().chain(kp.iter()) {
        h.i(*x as i128);
    }
    h.i(k1 as i128).i(k2 as i128);
    // exact oracle on the grid
    let rr = (ks as i128) * (ks as i128);
    let expected = d2 <= rr;
    let gap = (d2 - rr).abs() as f64;
    if gap <= 64.0 * T::EPS * (d2.max(rr) as f64) {
        sub.inconclusive("ill_conditioned:distance_within_rounding_of_radius");
        return;
    }
    if contains != expected {
        let vio = violation(PROP, sub, contains_api, T::NAME, "wrong_value", if expected { "strictly_inside" } else { "strictly_outside" }, format!("{}: vek returned {}, exact d^2={} vs r^2={} (grid units) gives {}", detail, contains, d2, rr, expected), cfg.case_seed(), idx);
        sub.violated(vio);
        return;
    }
    if collides != expected {
        let vio = violation(PROP, sub, coll_api, T::NAME, "wrong_value", if expected { "overlapping" } else { "separated" }, format!("{}: vek returned {}, exact d^2={} vs (r1+r2)^2={} (grid units) gives {}", detail, collides, d2, rr, expected), cfg.case_seed(), idx);
        sub.violated(vio);
        return;
    }
    if d2 == 0 {
        sub.inconclusive("outside_domain:coincident_centres");
        return;
    }
    // tangent after the move, within a derived tolerance
    let moved: Vec<f64> = (0..3).map(|i| g(ko[i]) + cv[i]).collect();
    let dist = (moved[0] * moved[0] + moved[1] * moved[1] + moved[2] * moved[2]).sqrt();
    let scale = g(ks) + l / GRID * sc + kc.iter().chain(kp.iter()).map(|x| g(x.abs())).fold(0.0, f64::max);
    let tol = 256.0 * T::EPS * scale;
    if !((dist - g(ks)).abs() <= tol) {
        let vio = violation(PROP, sub, cv_api, T::NAME, "wrong_value", "not_tangent_after_move", format!("{}: vek returned {:?}; moved centre distance {:e}, expected r1+r2 = {:e} (tolerance {:e})", detail, cv, dist, g(ks), tol), cfg.case_seed(), idx);
        sub.violated(vio);
        return;
    }
    sub.sample(|| format!("[{}] {} -> contains={} collides={} collision_vector={:?}", T::NAME, detail, contains, collides, cv));
    sub.held(h.get(), true);
}

// ---------------------------------------------------------------------------------------
// integer lattice in floats: exact tangency

/// all primitive-or-not Pythagorean offsets with integer length up to 130: (|a|,|b|,|c|, length)
fn lattice_offsets() -> &'static Vec<[i64; 4]> {
    static L: std::sync::OnceLock<Vec<[i64; 4]>> = std::sync::OnceLock::new();
    L.get_or_init(|| {
        let mut v = Vec::new();
        for a in 0..=130i64 {
            for b in a..=130 {
                for c in b..=130 {
                    let s = a * a + b * b + c * c;
                    let d = (s as f64).sqrt().round() as i64;
                    if d >= 1 && d <= 130 && d * d == s {
                        v.push([a, b, c, d]);
                    }
                }
            }
        }
        v
    })
}

/// Integer-valued scenes (times a power of two) whose centre distance is an integer too: every
/// input, every intermediate of the textbook formulas (differences, squares, their sum, its exact
/// square root, the quotient by it on an axis) and every expected result is exactly representable
/// in the type, so the closed conditions of the property are decided *at* the boundary with no
/// tolerance: a point on the surface is contained, tangent shapes collide, one grid step beyond
/// they do not, the segment distance beyond an end point is the integer it is, and for an offset
/// along a coordinate axis the collision vector leaves the two shapes exactly tangent.
fn lattice_float<T: Flt>(sub: &mut Sub, cfg: &Config, idx: u64) {
    let mut rng = Rng::for_case(&format!("lattice_float/{}", T::NAME), cfg.case_seed(), idx);
    let three_d = idx % 2 == 1;
    let offs = lattice_offsets();
    let o = if idx % 3 == 2 {
        // a third of the cases: offset along one coordinate axis, any integer length
        let d = rng.range_i64(1, 1000);
        [0, 0, d, d]
    } else {
        loop {
            let o = *rng.pick(offs);
            if three_d || o[0] == 0 {
                break o;
            }
        }
    };
    // 2-D: the zero component is dropped; random order and signs
    let mut comp: Vec<i64> = if three_d { vec![o[0], o[1], o[2]] } else { vec![o[1], o[2]] };
    let n = comp.len();
    for i in (1..n).rev() {
        let j = rng.below(i as u64 + 1) as usize;
        comp.swap(i, j);
    }
    for c in comp.iter_mut() {
        if rng.bool() {
            *c = -*c;
        }
    }
    while comp.len() < 3 {
        comp.push(0);
    }
    let d = o[3];
    let unit = 2f64.powi(rng.range_i64(-6, 6) as i32);
    let kc: Vec<i64> = (0..3).map(|i| if i < n { rng.range_i64(-500, 500) } else { 0 }).collect();
    let f = |k: i64| T::of(k as f64 * unit);
    let v2 = |k: &[i64]| Vec2 { x: f(k[0]), y: f(k[1]) };
    let v3 = |k: &[i64]| Vec3 { x: f(k[0]), y: f(k[1]), z: f(k[2]) };
    let kp: Vec<i64> = (0..3).map(|i| kc[i] + comp[i]).collect();
    let k1 = rng.range_i64(0, d);
    let k2 = d - k1;
    // radii for the collision vector: overlapping, tangent or apart
    let (q1, q2) = (rng.range_i64(0, d + 20), rng.range_i64(0, d + 20));
    let axis_aligned = comp.iter().filter(|c| **c != 0).count() == 1;
    let detail = format!("{}D integer lattice x {}: centre {:?}, offset {:?} of length {} to the other centre / point {:?}, radii {} + {} (collision vector: {} and {})", n, unit, &kc[..n], &comp[..n], d, &kp[..n], k1, k2, q1, q2);
    let (contains_api, coll_api, cv_api, seg_api) = if three_d { ("Sphere::contains_point", "Sphere::collides_with_sphere", "Sphere::collision_vector_with_sphere", "LineSegment3::distance_to_point") } else { ("Disk::contains_point", "Disk::collides_with_disk", "Disk::collision_vector_with_disk", "LineSegment2::distance_to_point") };
    for a in [contains_api, coll_api, cv_api, seg_api] {
        sub.saw(a);
    }
    // (on, inside by one step, outside by one step), (tangent, apart by one step), moved centre offset, segment distance
    let r: ([bool; 3], [bool; 2], [f64; 3], f64) = call!(sub, cfg, idx, contains_api, T::NAME, detail, {
        if three_d {
            let (c, p) = (v3(&kc), v3(&kp));
            let on = Sphere::<T, T> { center: c, radius: f(d) }.contains_point(p);
            let inside = Sphere::<T, T> { center: c, radius: f(d + 1) }.contains_point(p);
            let outside = Sphere::<T, T> { center: c, radius: f(d - 1) }.contains_point(p);
            let (a, b) = (Sphere::<T, T> { center: c, radius: f(k1) }, Sphere::<T, T> { center: p, radius: f(k2) });
            let apart = Sphere::<T, T> { center: c, radius: f((k1 - 1).max(0)) }.collides_with_sphere(Sphere::<T, T> { center: p, radius: f(if k1 == 0 { k2 - 1 } else { k2 }) });
            let w = Sphere::<T, T> { center: c, radius: f(q1) }.collision_vector_with_sphere(Sphere::<T, T> { center: p, radius: f(q2) });
            let moved = [(p.x + w.x - c.x).f(), (p.y + w.y - c.y).f(), (p.z + w.z - c.z).f()];
            // a segment that ends at c and runs away from p along the offset's first non-zero axis
            let ax = comp.iter().position(|x| *x != 0).unwrap();
            let mut far = kc.clone();
            far[ax] -= comp[ax].signum() * 7;
            let sd = LineSegment3 { start: v3(&far), end: c }.distance_to_point(p);
            ([on, inside, outside], [a.collides_with_sphere(b), apart], moved, sd.f())
        } else {
            let (c, p) = (v2(&kc), v2(&kp));
            let on = Disk::<T, T> { center: c, radius: f(d) }.contains_point(p);
            let inside = Disk::<T, T> { center: c, radius: f(d + 1) }.contains_point(p);
            let outside = Disk::<T, T> { center: c, radius: f(d - 1) }.contains_point(p);
            let (a, b) = (Disk::<T, T> { center: c, radius: f(k1) }, Disk::<T, T> { center: p, radius: f(k2) });
            let apart = Disk::<T, T> { center: c, radius: f((k1 - 1).max(0)) }.collides_with_disk(Disk::<T, T> { center: p, radius: f(if k1 == 0 { k2 - 1 } else { k2 }) });
            let w = Disk::<T, T> { center: c, radius: f(q1) }.collision_vector_with_disk(Disk::<T, T> { center: p, radius: f(q2) });
            let moved = [(p.x + w.x - c.x).f(), (p.y + w.y - c.y).f(), 0.0];
            let ax = comp.iter().position(|x| *x != 0).unwrap();
            let mut far = kc.clone();
            far[ax] -= comp[ax].signum() * 7;
            let sd = LineSegment2 { start: v2(&far), end: c }.distance_to_point(p);
            ([on, inside, outside], [a.collides_with_disk(b), apart], moved, sd.f())
        }
    });
    let (cont, coll, moved, sd) = r;
    let mut h = H64::new();
    h.s(T::NAME).u(n as u64).f(unit);
    for x in kc.iter().chain(comp.iter()) {
        h.i(*x as i128);
    }
    h.i(k1 as i128).i(q1 as i128).i(q2 as i128);
    let mut bad: Option<(&str, &str, String)> = None;
    if cont != [true, true, false] {
        bad = Some((contains_api, "closed_ball_membership_at_the_boundary", format!("contains_point with radius (length, length+1, length-1) x unit = {:?}, the distance is exactly the length so the answers are [true, true, false]", cont)));
    } else if coll != [true, false] {
        bad = Some((coll_api, "tangent_shapes_collide_and_one_step_apart_do_not", format!("collides (radii summing to the centre distance, to one step less) = {:?}, expected [true, false]", coll)));
    } else if sd != d as f64 * unit {
        // the nearest point of that segment is its end point c, so the distance is the lattice length; the
        // projection parameter clamps to exactly 1 only when the offset is along the segment's axis,
        // otherwise the foot is c plus rounding: allow 4 ulps there
        let exact = axis_aligned;
        if exact || !((sd - d as f64 * unit).abs() <= 4.0 * T::EPS * d as f64 * unit) {
            bad = Some((seg_api, "distance_beyond_the_end_point", format!("segment ending at the centre, pointing away from the point: distance_to_point = {:?}, the end point is the nearest point at distance {}", sd, d as f64 * unit)));
        }
    }
    if bad.is_none() {
        let ml = (moved[0] * moved[0] + moved[1] * moved[1] + moved[2] * moved[2]).sqrt();
        let want = (q1 + q2) as f64 * unit;
        if axis_aligned {
            if ml != want {
                bad = Some((cv_api, "not_exactly_tangent_after_move_along_an_axis", format!("offset along a coordinate axis: after moving the other centre by the collision vector its offset is {:?} of length {:?}, the radii sum to {}", moved, ml, want)));
            }
        } else if !((ml - want).abs() <= 16.0 * T::EPS * (want + kc.iter().map(|k| k.abs()).max().unwrap() as f64 * unit)) {
            bad = Some((cv_api, "not_tangent_after_move", format!("after moving the other centre by the collision vector its offset is {:?} of length {:?}, the radii sum to {}", moved, ml, want)));
        }
    }
    match bad {
        Some((api, what, msg)) => {
            let vio = violation(PROP, sub, api, T::NAME, "wrong_value", what, format!("{}: {}", detail, msg), cfg.case_seed(), idx);
            sub.violated(vio);
        }
        None => {
            sub.sample(|| format!("[{}] {} -> on the surface: contained, tangent: colliding, segment distance {}", T::NAME, detail, sd));
            sub.held(h.get(), !axis_aligned);
        }
    }
}

// ---------------------------------------------------------------------------------------
// segments

trait SegQ {
    const N: usize;
    const NAME: &'static str;
    fn project(a: &[Q], b: &[Q], p: &[Q]) -> V;
    fn dist(a: &[Q], b: &[Q], p: &[Q]) -> Q;
    /// orthonormal rational frame: columns u, n1, (n2)
    fn frame(rng: &mut Rng) -> Vec<V>;
    /// some vector perpendicular to d (not normalised), non-zero when d is
    fn perp(rng: &mut Rng, d: &[Q]) -> V;
}
struct S2;
struct S3;
impl SegQ for S2 {
    const N: usize = 2;
    const NAME: &'static str = "LineSegment2";
    fn project(a: &[Q], b: &[Q], p: &[Q]) -> V {
        un2(LineSegment2 { start: mk2(a), end: mk2(b) }.projected_point(mk2(p)))
    }
    fn dist(a: &[Q], b: &[Q], p: &[Q]) -> Q {
        LineSegment2 { start: mk2(a), end: mk2(b) }.distance_to_point(mk2(p))
    }
    fn frame(rng: &mut Rng) -> Vec<V> {
        let (v, l) = rational_length_vec2(rng, 9);
        let u = vec![v[0] / l, v[1] / l];
        let n = vec![-u[1], u[0]];
        vec![u, n]
    }
    fn perp(_rng: &mut Rng, d: &[Q]) -> V {
        vec![-d[1], d[0]]
    }
}
impl SegQ for S3 {
    const N: usize = 3;
    const NAME: &'static str = "LineSegment3";
    fn project(a: &[Q], b: &[Q], p: &[Q]) -> V {
        un3(LineSegment3 { start: mk3(a), end: mk3(b) }.projected_point(mk3(p)))
    }
    fn dist(a: &[Q], b: &[Q], p: &[Q]) -> Q {
        LineSegment3 { start: mk3(a), end: mk3(b) }.distance_to_point(mk3(p))
    }
    fn frame(rng: &mut Rng) -> Vec<V> {
        let r = rational_rotation(rng, 3);
        (0..3).map(|j| vec![r[0][j], r[1][j], r[2][j]]).collect()
    }
    fn perp(rng: &mut Rng, d: &[Q]) -> V {
        for _ in 0..20 {
            let w = rand_vec(rng, 3, 5, 2);
            let c = cross(d, &w);
            if !vzero(&c) {
                return c;
            }
        }
        vec![Q::ZERO; 3]
    }
}

/// boundary-biased segment + point; modes 7.. have a rational point-segment distance
fn gen_seg<S: SegQ>(rng: &mut Rng, mode: u64) -> (V, V, V) {
    let a = rand_vec(rng, S::N, 9, 6);
    let t_in = |rng: &mut Rng| Q::frac(rng.range_i64(1, 15), 16);
    match mode {
        0 => (a, rand_vec(rng, S::N, 9, 6), rand_vec(rng, S::N, 9, 6)),
        1..=6 => {
            let d = rand_nonzero_vec(rng, S::N, 6, 4);
            let b = vadd(&a, &d);
            let n = S::perp(rng, &d);
            let s_nz = Q::frac(rng.nonzero_i64(6), rng.range_i64(1, 4));
            let (t, s) = match mode {
                1 => (t_in(rng), s_nz),
                2 => (-Q::frac(rng.range_i64(1, 40), 8), if rng.chance(1, 4) { Q::ZERO } else { s_nz }),
                3 => (Q::ONE + Q::frac(rng.range_i64(1, 40), 8), if rng.chance(1, 4) { Q::ZERO } else { s_nz }),
                4 => (Q::ZERO, s_nz),
                5 => (Q::ONE, s_nz),
                _ => (
                    match rng.below(4) {
                        0 => Q::ZERO,
                        1 => Q::ONE,
                        _ => t_in(rng),
                    },
                    Q::ZERO,
                ),
            };
            // also: a hair's breadth beyond / before an endpoint
            let t = if (mode == 2 || mode == 3) && rng.chance(1, 3) {
                if mode == 2 {
                    -tiny(rng)
                } else {
                    Q::ONE + tiny(rng)
                }
            } else {
                t
            };
            let p = vadd(&vadd(&a, &vscale(&d, t)), &vscale(&n, s));
            (a, b, p)
        }
        7 => {
            // degenerate segment, point at a rational distance (or on it)
            let fr = S::frame(rng);
            let l = if rng.chance(1, 5) { Q::ZERO } else { small_q_pos(rng, 6, 3) };
            let p = vadd(&a, &vscale(&fr[0], l));
            (a.clone(), a, p)
        }
        8 => {
            // foot inside (or at an end), rational perpendicular offset
            let fr = S::frame(rng);
            let len = small_q_pos(rng, 8, 3);
            let d = vscale(&fr[0], len);
            let b = vadd(&a, &d);
            let t = match rng.below(6) {
                0 => Q::ZERO,
                1 => Q::ONE,
                _ => t_in(rng),
            };
            let hgt = Q::frac(rng.nonzero_i64(7), rng.range_i64(1, 4));
            let n = if S::N == 3 {
                let (ab, l2) = rational_length_vec2(rng, 5);
                vadd(&vscale(&fr[1], ab[0] / l2), &vscale(&fr[2], ab[1] / l2))
            } else {
                fr[1].clone()
            };
            let p = vadd(&vadd(&a, &vscale(&d, t)), &vscale(&n, hgt));
            (a, b, p)
        }
        _ => {
            // beyond an endpoint at a rational distance from it
            let fr = S::frame(rng);
            let len = small_q_pos(rng, 8, 3);
            let d = vscale(&fr[0], len);
            let b = vadd(&a, &d);
            let (ab, _l2) = rational_length_vec2(rng, 5);
            let along = ab[0].abs_q();
            let across = ab[1];
            let w_end = vadd(&vscale(&fr[0], along), &vscale(&fr[1], across));
            let p = if rng.bool() { vadd(&b, &w_end) } else { vsub(&a, &vadd(&vscale(&fr[0], along), &vscale(&fr[1], -across))) };
            (a, b, p)
        }
    }
}

/// exact parametric minimisation: (degenerate, t*, foot)
fn seg_foot(a: &[Q], b: &[Q], p: &[Q]) -> (bool, Q, V) {
    let d = vsub(b, a);
    let l2 = vn2(&d);
    if l2.is_zero() {
        return (true, Q::ZERO, a.to_vec());
    }
    let t = (vdot(&vsub(p, a), &d) / l2).max_q(Q::ZERO).min_q(Q::ONE);
    (false, t, vadd(a, &vscale(&d, t)))
}
/// ... and the squared distance to it
fn seg_oracle(a: &[Q], b: &[Q], p: &[Q]) -> (bool, Q, V, Q) {
    let (deg, t, foot) = seg_foot(a, b, p);
    let d2 = vn2(&vsub(p, &foot));
    (deg, t, foot, d2)
}
fn seg_in_band(a: &[Q], b: &[Q]) -> bool {
    let l2 = vn2(&vsub(b, a));
    !l2.is_zero() && l2 < Q::new(1, 1i128 << 40)
}
fn seg_class(degenerate: bool, t: Q) -> &'static str {
    if degenerate {
        "degenerate_segment"
    } else if t.is_zero() {
        "nearest_is_start"
    } else if t == Q::ONE {
        "nearest_is_end"
    } else {
        "nearest_is_interior"
    }
}

fn seg_project<S: SegQ>(sub: &mut Sub, cfg: &Config, idx: u64) {
    let api = format!("{}::projected_point", S::NAME);
    let mut rng = Rng::for_case(&format!("segment_projected_point_q/{}", S::NAME), cfg.case_seed(), idx);
    let (a, b, p) = gen_seg::<S>(&mut rng, idx % 10);
    let _ = take_poison();
    let detail = format!("start={:?} end={:?} p={:?}", a, b, p);
    if seg_in_band(&a, &b) {
        sub.inconclusive("outside_domain:length_in_epsilon_band");
        return;
    }
    sub.saw(&api);
    let got = call!(sub, cfg, idx, &api, "Q", detail, S::project(&a, &b, &p));
    poison_guard!(sub);
    let (deg, t, foot, d2) = seg_oracle(&a, &b, &p);
    poison_guard!(sub);
    let mut h = H64::new();
    h.s(S::NAME);
    hq(&mut h, &a);
    hq(&mut h, &b);
    hq(&mut h, &p);
    if got != foot {
        let v = violation(PROP, sub, &api, "Q", "wrong_value", seg_class(deg, t), format!("{}: vek returned {:?}; the minimiser of |start + t(end-start) - p|^2 over [0,1] is t*={:?}, point {:?} (squared distance {:?}, vek's point is at {:?})", detail, got, t, foot, d2, vn2(&vsub(&p, &got))), cfg.case_seed(), idx);
        sub.violated(v);
        return;
    }
    // independent of the closed form: no point of a 257-sample sweep of the segment is nearer
    let g2 = vn2(&vsub(&p, &got));
    let d = vsub(&b, &a);
    for k in 0..=256 {
        let s = vadd(&a, &vscale(&d, Q::frac(k, 256)));
        let s2 = vn2(&vsub(&p, &s));
        if s2 < g2 {
            let _ = take_poison();
            let v = violation(PROP, sub, &api, "Q", "wrong_value", "sampled_point_nearer", format!("{}: vek returned {:?} at squared distance {:?}, but the segment point at t={}/256, {:?}, is at {:?}", detail, got, g2, k, s, s2), cfg.case_seed(), idx);
            sub.violated(v);
            return;
        }
    }
    poison_guard!(sub);
    sub.sample(|| format!("{} [Q]: {} -> {:?} (t*={:?})", api, detail, got, t));
    sub.held(h.get(), !deg && !d2.is_zero());
}

fn seg_distance<S: SegQ>(sub: &mut Sub, cfg: &Config, idx: u64) {
    let api = format!("{}::distance_to_point", S::NAME);
    let mut rng = Rng::for_case(&format!("segment_distance_q/{}", S::NAME), cfg.case_seed(), idx);
    // mostly the rational-distance constructions; some generic ones (usually irrational -> poison)
    let mode = match idx % 8 {
        0 => rng.below(7),
        1 => 6,
        2 => 7,
        3 | 4 | 5 => 8,
        _ => 9,
    };
    let (a, b, p) = gen_seg::<S>(&mut rng, mode);
    let _ = take_poison();
    let detail = format!("start={:?} end={:?} p={:?}", a, b, p);
    if seg_in_band(&a, &b) {
        sub.inconclusive("outside_domain:length_in_epsilon_band");
        return;
    }
    sub.saw(&api);
    let got = call!(sub, cfg, idx, &api, "Q", detail, S::dist(&a, &b, &p));
    poison_guard!(sub);
    let (deg, t, foot, d2) = seg_oracle(&a, &b, &p);
    poison_guard!(sub);
    let mut h = H64::new();
    h.s(S::NAME);
    hq(&mut h, &a);
    hq(&mut h, &b);
    hq(&mut h, &p);
    if !got.is_neg() && got * got == d2 {
        sub.sample(|| format!("{} [Q]: {} -> {:?} (nearest point {:?})", api, detail, got, foot));
        sub.held(h.get(), !d2.is_zero());
    } else {
        let v = violation(PROP, sub, &api, "Q", "wrong_value", seg_class(deg, t), format!("{}: vek returned {:?}; nearest point of the segment is {:?} (t*={:?}) at squared distance {:?}", detail, got, foot, t, d2), cfg.case_seed(), idx);
        sub.violated(v);
    }
}

// ---- float tier: inputs on a 2^-12 grid (exact in f32 and in Q), derived absolute tolerance

fn seg_float<T: Flt>(sub: &mut Sub, cfg: &Config, idx: u64) {
    let mut rng = Rng::for_case(&format!("segment_float/{}", T::NAME), cfg.case_seed(), idx);
    let three_d = idx % 2 == 1;
    let n = if three_d { 3 } else { 2 };
    let lim = 1i64 << 20;
    let gk = |rng: &mut Rng, m: i64| -> Vec<i64> { (0..3).map(|i| if i < n { rng.range_i64(-m, m) } else { 0 }).collect() };
    let ka = gk(&mut rng, lim / 2);
    // segment from very short to long; exactly degenerate sometimes
    let kd = match (idx / 2) % 6 {
        0 => vec![0, 0, 0],
        1 => gk(&mut rng, 256),
        _ => gk(&mut rng, lim / 2),
    };
    let kb: Vec<i64> = (0..3).map(|i| ka[i] + kd[i]).collect();
    let kp = match (idx / 12) % 3 {
        0 => gk(&mut rng, lim),
        1 => (0..3).map(|i| if i < n { ka[i] + rng.range_i64(-64, 64) } else { 0 }).collect(),
        _ => (0..3).map(|i| if i < n { kb[i] + rng.range_i64(-64, 64) } else { 0 }).collect(),
    };
    let step = Q::new(1, 1 << 12);
    let q = |k: &Vec<i64>| -> V { (0..n).map(|i| Q::int(k[i]) * step).collect() };
    let f = |k: i64| k as f64 / 4096.0;
    let (api_p, api_d) = if three_d { ("LineSegment3::projected_point", "LineSegment3::distance_to_point") } else { ("LineSegment2::projected_point", "LineSegment2::distance_to_point") };
    let detail = format!("{}D grid 2^-12: start k={:?} end k={:?} p k={:?}", n, ka, kb, kp);
    sub.saw(api_p);
    sub.saw(api_d);
    let (proj, dist): ([f64; 3], f64) = call!(sub, cfg, idx, api_p, T::NAME, detail, {
        if three_d {
            let v = |k: &Vec<i64>| Vec3 { x: T::of(f(k[0])), y: T::of(f(k[1])), z: T::of(f(k[2])) };
            let s = LineSegment3 { start: v(&ka), end: v(&kb) };
            let r = s.projected_point(v(&kp));
            ([r.x.f(), r.y.f(), r.z.f()], s.distance_to_point(v(&kp)).f())
        } else {
            let v = |k: &Vec<i64>| Vec2 { x: T::of(f(k[0])), y: T::of(f(k[1])) };
            let s = LineSegment2 { start: v(&ka), end: v(&kb) };
            let r = s.projected_point(v(&kp));
            ([r.x.f(), r.y.f(), 0.0], s.distance_to_point(v(&kp)).f())
        }
    });
    let _ = take_poison();
    let (a, b, p) = (q(&ka), q(&kb), q(&kp));
    let d = vsub(&b, &a);
    let l2 = vn2(&d);
    // vek's degenerate test: |len^2| <= T::EPSILON (absolute): keep clear of that band
    if !l2.is_zero() && l2.to_f64() < 1e-6 {
        sub.inconclusive("outside_domain:length_near_epsilon_band");
        return;
    }
    let (deg, t, foot) = seg_foot(&a, &b, &p);
    // squared distance without squaring the foot (keeps the exact arithmetic small)
    let pa = vsub(&p, &a);
    let d2 = if deg || t.is_zero() {
        vn2(&pa)
    } else if t == Q::ONE {
        vn2(&vsub(&p, &b))
    } else {
        let dt = vdot(&pa, &d);
        vn2(&pa) - dt * dt / l2
    };
    poison_guard!(sub);
    let scale = ka.iter().chain(kb.iter()).chain(kp.iter()).map(|x| f(x.abs())).fold(0.0, f64::max).max(1.0);
    let tol = 256.0 * T::EPS * scale;
    let mut h = H64::new();
    h.s(T::NAME).u(n as u64);
    for x in ka.iter().chain(kb.iter()).chain(kp.iter()) {
        h.i(*x as i128);
    }
    for i in 0..n {
        let e = foot[i].to_f64();
        if !((proj[i] - e).abs() <= tol) {
            let v = violation(PROP, sub, api_p, T::NAME, "wrong_value", seg_class(deg, t), format!("{}: vek returned {:?}, nearest point is {:?} (t*={:?}); coordinate {} differs by {:e} > {:e}", detail, &proj[..n], foot, t, i, (proj[i] - e).abs(), tol), cfg.case_seed(), idx);
            sub.violated(v);
            return;
        }
    }
    let ed = d2.to_f64().max(0.0).sqrt();
    if !((dist - ed).abs() <= tol) {
        let v = violation(PROP, sub, api_d, T::NAME, "wrong_value", seg_class(deg, t), format!("{}: vek returned {:e}, distance to the nearest point {:?} is {:e} (tolerance {:e})", detail, dist, foot, ed, tol), cfg.case_seed(), idx);
        sub.violated(v);
        return;
    }
    sub.sample(|| format!("[{}] {} -> {:?}, distance {:e}", T::NAME, detail, &proj[..n], dist));
    sub.held(h.get(), !deg);
}

// ---- conversions

fn seg_conversions(sub: &mut Sub, cfg: &Config, idx: u64) {
    let mut rng = Rng::for_case("segment_conversions", cfg.case_seed(), idx);
    let seed = cfg.case_seed();
    let mut bad: Option<(&'static str, &'static str, &'static str, String)> = None;
    let mut chk = |api: &'static str, ty: &'static str, what: &'static str, ok: bool, msg: String| {
        if !ok && bad.is_none() {
            bad = Some((api, ty, what, msg));
        }
    };
    for a in ["LineSegment2::into_range", "LineSegment3::into_range", "From<Range<Vec2>> for LineSegment2", "From<Range<Vec3>> for LineSegment3", "LineSegment2::as_", "LineSegment3::as_"] {
        sub.saw(a);
    }
    // opaque tokens: pure data movement
    let t = |k: u32| Tag(2000 + 16 * (idx as u32 % 4096) + k);
    let s2 = LineSegment2 { start: Vec2 { x: t(0), y: t(1) }, end: Vec2 { x: t(2), y: t(3) } };
    let r2 = s2.into_range();
    chk("LineSegment2::into_range", "Tag", "endpoints_moved", r2.start.x == t(0) && r2.start.y == t(1) && r2.end.x == t(2) && r2.end.y == t(3), format!("{:?}", r2));
    let b2: LineSegment2<Tag> = LineSegment2::from(Vec2 { x: t(4), y: t(5) }..Vec2 { x: t(6), y: t(7) });
    chk("From<Range<Vec2>> for LineSegment2", "Tag", "endpoints_moved", b2.start.x == t(4) && b2.start.y == t(5) && b2.end.x == t(6) && b2.end.y == t(7), format!("{:?}", b2));
    let s3 = LineSegment3 { start: Vec3 { x: t(0), y: t(1), z: t(2) }, end: Vec3 { x: t(3), y: t(4), z: t(5) } };
    let r3 = s3.into_range();
    chk("LineSegment3::into_range", "Tag", "endpoints_moved", r3.start.x == t(0) && r3.start.y == t(1) && r3.start.z == t(2) && r3.end.x == t(3) && r3.end.y == t(4) && r3.end.z == t(5), format!("{:?}", r3));
    let b3: LineSegment3<Tag> = LineSegment3::from(Vec3 { x: t(6), y: t(7), z: t(8) }..Vec3 { x: t(9), y: t(10), z: t(11) });
    chk("From<Range<Vec3>> for LineSegment3", "Tag", "endpoints_moved", b3.start.x == t(6) && b3.start.y == t(7) && b3.start.z == t(8) && b3.end.x == t(9) && b3.end.y == t(10) && b3.end.z == t(11), format!("{:?}", b3));
    // exact rationals, round trip
    let qs = rand_vec(&mut rng, 6, 50, 9);
    let sq = LineSegment3 { start: mk3(&qs[0..3]), end: mk3(&qs[3..6]) };
    let rq = sq.into_range();
    let back = LineSegment3::from(rq.clone());
    chk("LineSegment3::into_range", "Q", "endpoints_moved", un3(rq.start) == qs[0..3] && un3(rq.end) == qs[3..6], format!("{:?}", rq));
    chk("From<Range<Vec3>> for LineSegment3", "Q", "endpoints_moved", un3(back.start) == qs[0..3] && un3(back.end) == qs[3..6], format!("{:?}", back));
    // as_: element-wise `as`
    let fs: Vec<f64> = (0..6)
        .map(|_| match rng.below(8) {
            0 => 0.1,
            1 => 1e40,
            2 => -1e-50,
            3 => 16_777_217.0,
            _ => rng.f64_in(-1e6, 1e6),
        })
        .collect();
    let sf2 = LineSegment2 { start: Vec2 { x: fs[0], y: fs[1] }, end: Vec2 { x: fs[2], y: fs[3] } };
    let c2: LineSegment2<f32> = sf2.as_();
    chk("LineSegment2::as_", "f64->f32", "not_elementwise_as", c2.start.x.to_bits() == (fs[0] as f32).to_bits() && c2.start.y.to_bits() == (fs[1] as f32).to_bits() && c2.end.x.to_bits() == (fs[2] as f32).to_bits() && c2.end.y.to_bits() == (fs[3] as f32).to_bits(), format!("{:?} from {:?}", c2, sf2));
    let sf3 = LineSegment3 { start: Vec3 { x: fs[0], y: fs[1], z: fs[2] }, end: Vec3 { x: fs[3], y: fs[4], z: fs[5] } };
    let c3: LineSegment3<i32> = sf3.as_();
    let e3: Vec<i32> = fs.iter().map(|x| *x as i32).collect();
    chk("LineSegment3::as_", "f64->i32", "not_elementwise_as", [c3.start.x, c3.start.y, c3.start.z, c3.end.x, c3.end.y, c3.end.z] == e3[..], format!("{:?} from {:?}", c3, sf3));
    let is: Vec<i32> = (0..6).map(|_| if rng.chance(1, 6) { *rng.pick(&[i32::MIN, i32::MAX, 0, -1]) } else { rng.next_u32() as i32 }).collect();
    let si3 = LineSegment3 { start: Vec3 { x: is[0], y: is[1], z: is[2] }, end: Vec3 { x: is[3], y: is[4], z: is[5] } };
    let ci3: LineSegment3<f64> = si3.as_();
    chk("LineSegment3::as_", "i32->f64", "not_elementwise_as", [ci3.start.x, ci3.start.y, ci3.start.z, ci3.end.x, ci3.end.y, ci3.end.z].iter().zip(&is).all(|(g, i)| *g == *i as f64), format!("{:?} from {:?}", ci3, si3));
    let si2 = LineSegment2 { start: Vec2 { x: is[0], y: is[1] }, end: Vec2 { x: is[2], y: is[3] } };
    let ci2: LineSegment2<f32> = si2.as_();
    chk("LineSegment2::as_", "i32->f32", "not_elementwise_as", [ci2.start.x, ci2.start.y, ci2.end.x, ci2.end.y].iter().zip(&is).all(|(g, i)| *g == *i as f32), format!("{:?} from {:?}", ci2, si2));
    poison_guard!(sub);
    let mut h = H64::new();
    hq(&mut h, &qs);
    for x in &fs {
        h.f(*x);
    }
    for x in &is {
        h.i(*x as i128);
    }
    match bad {
        None => sub.held(h.get(), true),
        Some((api, ty, what, msg)) => {
            let v = violation(PROP, sub, api, ty, "wrong_value", what, format!("vek gave {}", msg), seed, idx);
            sub.violated(v);
        }
    }
}

// ---------------------------------------------------------------------------------------
// ray / triangle

fn det3(c0: &[Q], c1: &[Q], c2: &[Q]) -> Q {
    // determinant of the matrix with columns c0 c1 c2 (rule of Sarrus)
    c0[0] * c1[1] * c2[2] + c1[0] * c2[1] * c0[2] + c2[0] * c0[1] * c1[2] - c2[0] * c1[1] * c0[2] - c1[0] * c0[1] * c2[2] - c0[0] * c2[1] * c1[2]
}

/// Cramer solve of origin + d*dir = v0 + u*(v1-v0) + v*(v2-v0): (det, Some((d,u,v)) if det != 0)
fn ray_oracle(o: &[Q], dir: &[Q], tri: &[V; 3]) -> (Q, Option<(Q, Q, Q)>) {
    let e1 = vsub(&tri[1], &tri[0]);
    let e2 = vsub(&tri[2], &tri[0]);
    let nd = vscale(dir, Q::int(-1));
    let rhs = vsub(o, &tri[0]);
    let det = det3(&nd, &e1, &e2);
    if det.is_zero() {
        return (det, None);
    }
    let d = det3(&rhs, &e1, &e2) / det;
    let u = det3(&nd, &rhs, &e2) / det;
    let v = det3(&nd, &e1, &rhs) / det;
    (det, Some((d, u, v)))
}

/// returns (origin, direction, triangle, constructed (d,u,v) if the case was built from one)
fn gen_ray(rng: &mut Rng, mode: u64) -> (V, V, [V; 3], Option<(Q, Q, Q)>) {
    // a non-degenerate triangle
    let (v0, e1, e2, nrm) = loop {
        let v0 = rand_vec(rng, 3, 6, 4);
        let e1 = rand_vec(rng, 3, 6, 3);
        let e2 = rand_vec(rng, 3, 6, 3);
        let n = cross(&e1, &e2);
        if !vzero(&n) {
            break (v0, e1, e2, n);
        }
    };
    let tri = [v0.clone(), vadd(&v0, &e1), vadd(&v0, &e2)];
    let twelfth = |k: i64| Q::frac(k, 12);
    let inner = |rng: &mut Rng| -> (Q, Q) {
        let a = rng.range_i64(1, 10);
        let b = rng.range_i64(1, 11 - a);
        (twelfth(a), twelfth(b))
    };
    let uv: Option<(Q, Q)> = match mode {
        0 | 14 | 15 => Some(inner(rng)),
        1 => Some((Q::ZERO, twelfth(rng.range_i64(1, 11)))),
        2 => Some((twelfth(rng.range_i64(1, 11)), Q::ZERO)),
        3 => {
            let u = twelfth(rng.range_i64(1, 11));
            Some((u, Q::ONE - u))
        }
        4 => Some(*rng.pick(&[(Q::ZERO, Q::ZERO), (Q::ONE, Q::ZERO), (Q::ZERO, Q::ONE)])),
        5 => Some((-tiny(rng), inner(rng).1)),
        6 => Some((inner(rng).0, -tiny(rng))),
        7 => {
            let u = twelfth(rng.range_i64(0, 12));
            Some((u, Q::ONE - u + tiny(rng)))
        }
        8 => {
            let t = tiny(rng);
            Some(match rng.below(3) {
                0 => (t, inner(rng).1),
                1 => (inner(rng).0, t),
                _ => {
                    let u = twelfth(rng.range_i64(1, 11));
                    (u, Q::ONE - u - t)
                }
            })
        }
        9 => Some((Q::frac(rng.range_i64(-24, 36), 12), Q::frac(rng.range_i64(-24, 36), 12))),
        _ => None,
    };
    if let Some((u, v)) = uv {
        let hit = vadd(&v0, &vadd(&vscale(&e1, u), &vscale(&e2, v)));
        let dir = loop {
            let d = rand_nonzero_vec(rng, 3, 6, 3);
            if !vdot(&d, &nrm).is_zero() {
                break d;
            }
        };
        let d = match mode {
            14 => Q::ZERO,
            15 => -small_q_pos(rng, 9, 4),
            _ => match rng.below(8) {
                0 => Q::ZERO,
                1 | 2 => -small_q_pos(rng, 9, 4),
                _ => small_q_pos(rng, 9, 4),
            },
        };
        let o = vsub(&hit, &vscale(&dir, d));
        return (o, dir, tri, Some((d, u, v)));
    }
    match mode {
        10 | 11 => {
            // direction in the triangle's plane: parallel (10) or coplanar through the triangle (11)
            let (al, be) = loop {
                let a = small_q(rng, 5, 3);
                let b = small_q(rng, 5, 3);
                if !(a.is_zero() && b.is_zero()) {
                    break (a, b);
                }
            };
            let dir = vadd(&vscale(&e1, al), &vscale(&e2, be));
            let (u, v) = inner(rng);
            let gam = if mode == 10 { Q::frac(rng.nonzero_i64(5), rng.range_i64(1, 3)) } else { Q::ZERO };
            let o = vadd(&vadd(&v0, &vadd(&vscale(&e1, u), &vscale(&e2, v))), &vscale(&nrm, gam));
            (o, dir, tri, None)
        }
        12 => {
            // zero-area triangle; the ray often passes through the segment it degenerates to
            let lam = match rng.below(4) {
                0 => Q::ZERO,
                1 => Q::ONE,
                _ => small_q(rng, 5, 3),
            };
            let t = if rng.chance(1, 5) { [v0.clone(), v0.clone(), vadd(&v0, &e2)] } else { [v0.clone(), vadd(&v0, &e1), vadd(&v0, &vscale(&e1, lam))] };
            let dir = rand_nonzero_vec(rng, 3, 6, 3);
            let through = vadd(&v0, &vscale(&e1, twelfth(rng.range_i64(0, 12))));
            let o = if rng.bool() { vsub(&through, &vscale(&dir, small_q(rng, 5, 2))) } else { rand_vec(rng, 3, 6, 3) };
            (o, dir, t, None)
        }
        _ => (rand_vec(rng, 3, 8, 4), rand_nonzero_vec(rng, 3, 6, 3), tri, None),
    }
}

fn mkray(o: &[Q], d: &[Q]) -> Ray<Q> {
    Ray::new(mk3(o), mk3(d))
}

fn ray_case(sub: &mut Sub, cfg: &Config, idx: u64) {
    let api = "Ray::triangle_intersection";
    let mut rng = Rng::for_case("ray_triangle_q", cfg.case_seed(), idx);
    let mode = idx % 16;
    let (o, dir, tri, built) = gen_ray(&mut rng, mode);
    let _ = take_poison();
    let detail = format!("origin={:?} direction={:?} triangle={:?}", o, dir, tri);
    sub.saw("Ray::new");
    sub.saw(api);
    let ray = call!(sub, cfg, idx, "Ray::new", "Q", detail, mkray(&o, &dir));
    if un3(ray.origin) != o || un3(ray.direction) != dir {
        let v = violation(PROP, sub, "Ray::new", "Q", "wrong_value", "fields_not_stored", format!("{}: Ray::new stored origin={:?} direction={:?}", detail, ray.origin, ray.direction), cfg.case_seed(), idx);
        sub.violated(v);
        return;
    }
    let got = call!(sub, cfg, idx, api, "Q", detail, ray.triangle_intersection([mk3(&tri[0]), mk3(&tri[1]), mk3(&tri[2])]));
    poison_guard!(sub);
    let (det, sol) = ray_oracle(&o, &dir, &tri);
    poison_guard!(sub);
    if !det.is_zero() && det.abs_q() < Q::new(1, 1i128 << 40) {
        sub.inconclusive("outside_domain:determinant_in_epsilon_band");
        return;
    }
    if let (Some(b), Some(s)) = (built, sol) {
        if b != s {
            // the generator and the Cramer oracle disagree: a harness bug, never a verdict
            sub.inconclusive("harness:oracle_selfcheck_failed");
            return;
        }
    }
    let mut h = H64::new();
    hq(&mut h, &o);
    hq(&mut h, &dir);
    for t in &tri {
        hq(&mut h, t);
    }
    let inside = |u: Q, v: Q| !u.is_neg() && !v.is_neg() && u + v <= Q::ONE;
    let on_boundary = |u: Q, v: Q| u.is_zero() || v.is_zero() || u + v == Q::ONE;
    let expected: Option<Q> = match sol {
        Some((d, u, v)) if inside(u, v) => Some(d),
        _ => None,
    };
    let tri_degenerate = vzero(&cross(&vsub(&tri[1], &tri[0]), &vsub(&tri[2], &tri[0])));
    let (ok, what): (bool, &str) = match (got, expected, sol) {
        (None, None, _) => (true, ""),
        (Some(g), Some(e), Some((_, u, v))) => {
            if g == e {
                // ... and then origin + d*direction is the crossing point
                let pt = vadd(&o, &vscale(&dir, g));
                let cp = vadd(&tri[0], &vadd(&vscale(&vsub(&tri[1], &tri[0]), u), &vscale(&vsub(&tri[2], &tri[0]), v)));
                (pt == cp, "point_not_on_triangle")
            } else {
                (false, "wrong_distance")
            }
        }
        (None, Some(_), Some((_, u, v))) => (false, if on_boundary(u, v) { "boundary_crossing_missed" } else { "interior_crossing_missed" }),
        (Some(_), None, None) => (false, if tri_degenerate { "degenerate_triangle_reported_hit" } else { "parallel_line_reported_hit" }),
        (Some(_), None, Some(_)) => (false, "crossing_outside_triangle_reported_hit"),
        _ => (false, "unreachable"),
    };
    poison_guard!(sub);
    if ok {
        sub.sample(|| format!("{} [Q]: {} -> {:?} (det={:?}, (d,u,v)={:?})", api, detail, got, det, sol));
        sub.held(h.get(), !tri_degenerate);
    } else {
        let v = violation(PROP, sub, api, "Q", "wrong_value", what, format!("{}: vek returned {:?}; Cramer solve: det={:?}, (d,u,v)={:?}, expected {:?}", detail, got, det, sol, expected), cfg.case_seed(), idx);
        sub.violated(v);
    }
}

// ---- float tier: dyadic inputs (exact in f32 and Q), exact oracle, guards around every boundary

fn ray_float<T: Flt>(sub: &mut Sub, cfg: &Config, idx: u64) {
    let api = "Ray::triangle_intersection";
    let mut rng = Rng::for_case(&format!("ray_triangle_float/{}", T::NAME), cfg.case_seed(), idx);
    let coord = |rng: &mut Rng| Q::frac(rng.range_i64(-1024, 1024), 64);
    let v0: V = (0..3).map(|_| coord(&mut rng)).collect();
    let e1: V = (0..3).map(|_| coord(&mut rng)).collect();
    let e2: V = (0..3).map(|_| coord(&mut rng)).collect();
    let tri = [v0.clone(), vadd(&v0, &e1), vadd(&v0, &e2)];
    let dir: V = (0..3).map(|_| Q::frac(rng.range_i64(-64, 64), 16)).collect();
    let (o, mode): (V, &str) = if idx % 4 == 3 {
        ((0..3).map(|_| coord(&mut rng)).collect(), "random")
    } else {
        // aim at a point of the triangle's plane, mostly inside the triangle
        let (u, v) = if idx % 4 == 0 { (Q::frac(rng.range_i64(-16, 32), 16), Q::frac(rng.range_i64(-16, 32), 16)) } else { (Q::frac(rng.range_i64(1, 7), 16), Q::frac(rng.range_i64(1, 7), 16)) };
        let d = Q::frac(rng.range_i64(-32, 64), 8);
        let hit = vadd(&v0, &vadd(&vscale(&e1, u), &vscale(&e2, v)));
        (vsub(&hit, &vscale(&dir, d)), "aimed")
    };
    let _ = take_poison();
    let detail = format!("origin={:?} direction={:?} triangle={:?} ({})", o, dir, tri, mode);
    let fv = |q: &[Q]| Vec3 { x: T::of(q[0].to_f64()), y: T::of(q[1].to_f64()), z: T::of(q[2].to_f64()) };
    sub.saw("Ray::new");
    sub.saw(api);
    let got: Option<f64> = call!(sub, cfg, idx, api, T::NAME, detail, Ray::new(fv(&o), fv(&dir)).triangle_intersection([fv(&tri[0]), fv(&tri[1]), fv(&tri[2])]).map(|d| d.f()));
    let (det, sol) = ray_oracle(&o, &dir, &tri);
    poison_guard!(sub);
    let s = vsub(&o, &v0);
    let m = [&e1, &e2, &dir, &s].iter().map(|w| w.iter().map(|x| x.to_f64().abs()).fold(0.0, f64::max)).fold(0.0, f64::max);
    let big = 6.0 * m * m * m; // bound on any of the triple products involved
    let detf = det.to_f64().abs();
    if detf < 1e-3 || detf <= 1024.0 * T::EPS * big {
        sub.inconclusive("ill_conditioned:nearly_parallel_or_degenerate");
        return;
    }
    let (d, u, v) = sol.unwrap();
    let margin = u.min_q(v).min_q(Q::ONE - u - v).to_f64();
    let coord_tol = 1024.0 * T::EPS * big * (1.0 + u.to_f64().abs() + v.to_f64().abs()) / detf;
    if margin.abs() <= coord_tol {
        sub.inconclusive("ill_conditioned:crossing_within_rounding_of_an_edge");
        return;
    }
    let expected = if margin > 0.0 { Some(d.to_f64()) } else { None };
    let mut h = H64::new();
    h.s(T::NAME);
    hq(&mut h, &o);
    hq(&mut h, &dir);
    for t in &tri {
        hq(&mut h, t);
    }
    let tol = 64.0 * T::EPS * big * (1.0 + d.to_f64().abs()) / detf;
    let (ok, what) = match (got, expected) {
        (None, None) => (true, ""),
        (Some(g), Some(e)) => ((g - e).abs() <= tol, "wrong_distance"),
        (None, Some(_)) => (false, "interior_crossing_missed"),
        (Some(_), None) => (false, "crossing_outside_triangle_reported_hit"),
    };
    if ok {
        sub.sample(|| format!("{} [{}]: {} -> {:?}", api, T::NAME, detail, got));
        sub.held(h.get(), true);
    } else {
        let vio = violation(PROP, sub, api, T::NAME, "wrong_value", what, format!("{}: vek returned {:?}; exact solve: det={:?} (d,u,v)={:?}, expected {:?} (tolerance {:e})", detail, got, det, sol, expected, tol), cfg.case_seed(), idx);
        sub.violated(vio);
    }
}

// ---------------------------------------------------------------------------------------

fn main() {
    let cfg = Config::from_args(PROP);
    let mut rep = Report::new(cfg.clone());
    type DQ = Disk<Q, Q>;
    type SQ = Sphere<Q, Q>;

    let n = cfg.n(15_000, 400_000);
    {
        let proto = Sub::new(
            "ball_contains_q",
            "Disk/Sphere<Q>::contains_point: centre random small rationals, point = centre + offset of RATIONAL length L (Pythagorean / rational-rotation construction, also axis-aligned), radius by case index mod 8: L exactly (boundary), L+tiny, L-tiny (tiny in {2^-20, 1/1000003, 7^-9, 2^-30}), random, point==centre (radius 0 or random), radius 0, negative; oracle r>=0 && |p-c|^2 <= r^2 exactly; non-trivial = offset non-zero and radius non-zero; distinct by hash of (shape, centre, point, radius)",
        )
        .with_floor(n)
        .require(&["Disk::contains_point", "Sphere::contains_point"]);
        rep.push(run_cases(&cfg, proto, n, |s, i| {
            ball_contains::<DQ>(s, &cfg, i);
            ball_contains::<SQ>(s, &cfg, i);
        }));
    }
    {
        let proto = Sub::new(
            "ball_collides_q",
            "Disk/Sphere<Q>::collides_with_*: centres at rational distance L; radius sum by case index mod 8: L exactly (tangent), L+tiny, L-tiny, random, concentric, other strictly inside self, small self vs large other, clearly apart; the sum is split k/8 : (8-k)/8 incl. a zero radius; both call orders; oracle |c2-c1|^2 <= (r1+r2)^2 exactly; non-trivial = centres distinct and radius sum non-zero",
        )
        .with_floor(n)
        .require(&["Disk::collides_with_disk", "Sphere::collides_with_sphere"]);
        rep.push(run_cases(&cfg, proto, n, |s, i| {
            ball_collides::<DQ>(s, &cfg, i);
            ball_collides::<SQ>(s, &cfg, i);
        }));
    }
    {
        let proto = Sub::new(
            "ball_collision_vector_q",
            "Disk/Sphere<Q>::collision_vector_with_*: same pair generator (overlapping, tangent, separated, contained); after translating other.center by the returned vector the centre distance squared must equal (r1+r2)^2 exactly; coincident centres are outside the domain (no direction); non-trivial = returned vector non-zero and radius sum non-zero",
        )
        .with_floor(n / 2)
        .require(&["Disk::collision_vector_with_disk", "Sphere::collision_vector_with_sphere"]);
        rep.push(run_cases(&cfg, proto, n, |s, i| {
            ball_colvec::<DQ>(s, &cfg, i);
            ball_colvec::<SQ>(s, &cfg, i);
        }));
    }
    {
        let nb = cfg.n(6_000, 100_000);
        let proto = Sub::new(
            "ball_bounds",
            "new/unit/point store their fields (Q and opaque Tag tokens: unit radius is One, point radius is Zero), diameter = 2r, aabr/aabb = centre -/+ radius per axis, rect/rect3 = (centre - radius, extent 2r): random rational centres and radii (Q), plus Disk/Sphere<i32,i32>, Disk<i64,i32>, Sphere<f64,f32> (short dyadics, exact); non-trivial = radius non-zero; distinct by hash of centre and radius",
        )
        .with_floor(nb)
        .require(&["Disk::new", "Disk::unit", "Disk::point", "Disk::diameter", "Disk::rect", "Disk::aabr", "Sphere::new", "Sphere::unit", "Sphere::point", "Sphere::diameter", "Sphere::rect3", "Sphere::aabb"]);
        rep.push(run_cases(&cfg, proto, nb, |s, i| {
            ball_bounds_q::<DQ>(s, &cfg, i);
            ball_bounds_q::<SQ>(s, &cfg, i);
            ball_bounds_native(s, &cfg, i);
        }));
    }
    {
        let np = cfg.n(60_000, 2_000_000);
        let proto = Sub::new(
            "ball_pi_formulas",
            "circumference, area, surface_area, volume on f32 (random 24-bit mantissa, exponent -20..20) and f64 (random mantissa, exponent -100..100) radii, plus 0 and 1, against 2 pi r, pi r^2, 4 pi r^2, 4/3 pi r^3 evaluated in double-double arithmetic (~1e-30); tolerance 4*EPSILON*|reference|; non-trivial = radius non-zero",
        )
        .with_floor(np / 2)
        .require(&["Disk::circumference", "Disk::area", "Sphere::surface_area", "Sphere::volume"]);
        rep.push(run_cases(&cfg, proto, np, pi_case_wrap(&cfg)));
    }
    {
        let nf = cfg.n(60_000, 2_000_000);
        let proto = Sub::new(
            "ball_float",
            "f32/f64 Disk (even index) / Sphere (odd): contains_point, collides_with_*, collision_vector_with_* on a 2^-10 grid (exact inputs); radius sum within 0.1% of the centre distance, within 0.2..1.8 of it, or random; oracle in exact integer arithmetic; inconclusive when |d^2 - r^2| <= 64 eps max(d^2, r^2); tangent-after-move within 256 eps * scale",
        )
        .with_floor(nf / 2);
        rep.push(run_cases(&cfg, proto, nf, |s, i| {
            ball_float::<f32>(s, &cfg, i);
            ball_float::<f64>(s, &cfg, i);
        }));
    }
    {
        let nf = cfg.n(20_000, 600_000);
        let proto = Sub::new(
            "lattice_float",
            "f32/f64 Disk and LineSegment2 (even index) / Sphere and LineSegment3 (odd): integer-valued scenes times a power of two whose centre offset is a Pythagorean pair / triple / quadruple of integer length <= 130 (random order and signs; a third of them along one axis), so that every intermediate of the textbook formulas and every expected result is exact in the type. Decided with NO tolerance: a point on the surface is contained, one step inside is, one step outside is not; radii summing to the centre distance collide, one step less do not; distance_to_point of a segment ending at the centre and pointing away is the integer length; for an offset along a coordinate axis the other centre moved by the collision vector is exactly tangent (general offsets: 16 eps). non-trivial = offset not along an axis",
        )
        .with_floor(nf / 4)
        .require(&["Disk::contains_point", "Sphere::contains_point", "Disk::collides_with_disk", "Sphere::collides_with_sphere", "Disk::collision_vector_with_disk", "Sphere::collision_vector_with_sphere", "LineSegment2::distance_to_point", "LineSegment3::distance_to_point"]);
        rep.push(run_cases(&cfg, proto, nf, |s, i| {
            lattice_float::<f32>(s, &cfg, i);
            lattice_float::<f64>(s, &cfg, i);
        }));
    }
    let ns = cfg.n(10_000, 150_000);
    {
        let proto = Sub::new(
            "segment_projected_point_q",
            "LineSegment2/3<Q>::projected_point, case index mod 10: random; p = start + t d + s n (n perpendicular) with t in (0,1), t<0, t>1 (also -tiny / 1+tiny), t=0 exactly with s!=0, t=1 exactly with s!=0, p on the segment incl. endpoints; zero-length segment; rational-distance constructions; oracle = exact clamp(((p-a).(b-a))/|b-a|^2,0,1) and additionally no point of the 257-sample sweep k/256 is nearer (exact squared distances); non-trivial = non-degenerate segment and p not on it",
        )
        .with_floor(ns)
        .require(&["LineSegment2::projected_point", "LineSegment3::projected_point"]);
        rep.push(run_cases(&cfg, proto, ns, |s, i| {
            seg_project::<S2>(s, &cfg, i);
            seg_project::<S3>(s, &cfg, i);
        }));
    }
    {
        let proto = Sub::new(
            "segment_distance_q",
            "LineSegment2/3<Q>::distance_to_point on inputs with rational point-segment distance (segment along a rational unit vector, p = foot + rational-length perpendicular offset; beyond an endpoint by a rational-length vector; zero-length segments; p on the segment), 1/8 generic inputs (irrational -> poison -> inconclusive); oracle: result >= 0 and result^2 == exact minimal squared distance; non-trivial = distance non-zero",
        )
        .with_floor(ns / 2)
        .require(&["LineSegment2::distance_to_point", "LineSegment3::distance_to_point"]);
        rep.push(run_cases(&cfg, proto, ns, |s, i| {
            seg_distance::<S2>(s, &cfg, i);
            seg_distance::<S3>(s, &cfg, i);
        }));
    }
    {
        let nf = cfg.n(60_000, 1_000_000);
        let proto = Sub::new(
            "segment_float",
            "f32/f64 LineSegment2 (even index) / LineSegment3 (odd): projected_point and distance_to_point on a 2^-12 grid within +-256 (exact in f32), long / short / zero-length segments, p random or near an endpoint; oracle exact in Q; tolerance 256 eps * max|coordinate|; squared lengths in (0, 1e-6) are outside the domain (vek's epsilon band); non-trivial = non-degenerate segment",
        )
        .with_floor(nf / 2);
        rep.push(run_cases(&cfg, proto, nf, |s, i| {
            seg_float::<f32>(s, &cfg, i);
            seg_float::<f64>(s, &cfg, i);
        }));
    }
    {
        let nc = cfg.n(5_000, 100_000);
        let proto = Sub::new(
            "segment_conversions",
            "into_range / From<Range> move the endpoints unchanged (opaque Tag tokens and Q, round trip); as_ is the element-wise `as` cast (f64->f32 bitwise incl. overflow to inf and underflow, f64->i32 saturating, i32->f64, i32->f32)",
        )
        .with_floor(nc / 2)
        .require(&["LineSegment2::into_range", "LineSegment3::into_range", "From<Range<Vec2>> for LineSegment2", "From<Range<Vec3>> for LineSegment3", "LineSegment2::as_", "LineSegment3::as_"]);
        rep.push(run_cases(&cfg, proto, nc, |s, i| seg_conversions(s, &cfg, i)));
    }
    {
        let nr = cfg.n(30_000, 800_000);
        let proto = Sub::new(
            "ray_triangle_q",
            "Ray<Q>::new + triangle_intersection, case index mod 16: crossing point v0+u e1+v e2 with (u,v) interior; on edge u=0, v=0, u+v=1 exactly; a vertex; outside by a tiny rational across each edge; inside by a tiny rational; far outside; direction in the plane off-plane (parallel) and in-plane (coplanar); zero-area triangles; fully random; origin on the triangle (d=0); negative d; directions are non-unit random rationals; oracle = Cramer solve of origin + d dir = v0 + u e1 + v e2 on Q: Some(d) iff det != 0 and u>=0, v>=0, u+v<=1, d equal exactly and origin + d dir equal to the crossing point; 0<|det|<2^-40 outside the domain; non-trivial = triangle of non-zero area",
        )
        .with_floor(nr / 2)
        .require(&["Ray::new", "Ray::triangle_intersection"]);
        rep.push(run_cases(&cfg, proto, nr, |s, i| ray_case(s, &cfg, i)));
    }
    {
        let nf = cfg.n(40_000, 1_000_000);
        let proto = Sub::new(
            "ray_triangle_float",
            "f32/f64 Ray::triangle_intersection on dyadic inputs (coordinates k/64, exact in f32): rays aimed at a dyadic point of the plane (inside / anywhere) or random; exact oracle on Q; inconclusive if |det| < 1e-3 or within 1024 eps of the triple-product scale, or if the crossing is within the derived rounding band of an edge; distance within 64 eps * scale * (1+|d|) / |det|",
        )
        .with_floor(nf / 4);
        rep.push(run_cases(&cfg, proto, nf, |s, i| {
            ray_float::<f32>(s, &cfg, i);
            ray_float::<f64>(s, &cfg, i);
        }));
    }
    std::process::exit(rep.finish());
}

fn pi_case_wrap(cfg: &Config) -> impl Fn(&mut Sub, u64) + Sync + '_ {
    move |s, i| pi_case(s, cfg, i)
}

//! C10 — viewport projection, unprojection and the picking matrix are consistent.
//!
//! Exact tier on `Q`.  Model-view matrices are rational T*R*S built from raw arrays, projection
//! matrices come from vek's (non-defective) projection constructors or are random invertible
//! rational matrices, viewports have non-zero (also negative) size.  The expected window
//! position is computed from scratch with the harness's own naive products
//! (clip = P*MV*(p,1), divide, map [-1,1] onto the rectangle, depth (z+1)/2 or z);
//! `viewport_to_world_*` must send the oracle's window position back to the point, and the
//! composition of the two vek functions must be the identity.  `picking_region` must map the
//! window rectangle centre +- delta/2, expressed in clip coordinates of the viewport, onto the
//! clip square, and must panic for a non-positive delta.

use monitors::gen::{det, matmul, matvec, rational_rotation, small_q, small_q_nonzero, small_q_pos};
use monitors::prng::{Rng, H64};
use monitors::q::{angle_from_quarter_tan, clear_angles};
use monitors::report::{guarded, run_cases, take_poison, Config, Report, Sub};
use monitors::Q;
use props::*;
use vek::vec::repr_c::{Vec2, Vec3};
use vek::{FrustumPlanes, Rect};

const PROP: &str = "C10";

type M4 = [[Q; 4]; 4];

#[derive(Clone, Copy, Debug, PartialEq)]
enum Flavour {
    NO,
    ZO,
}
use Flavour::*;
impl Flavour {
    fn sfx(self) -> &'static str {
        match self {
            NO => "no",
            ZO => "zo",
        }
    }
}

trait Vp: MatX<Q> + Copy {
    fn w2v(fl: Flavour, p: Vec3<Q>, mv: Self, proj: Self, vp: Rect<Q, Q>) -> Vec3<Q>;
    fn v2w(fl: Flavour, p: Vec3<Q>, mv: Self, proj: Self, vp: Rect<Q, Q>) -> Vec3<Q>;
    fn pick(c: Vec2<Q>, d: Vec2<Q>, vp: Rect<Q, Q>) -> Self;
}
// The point arguments are `Into<Vec3>` / `Into<Vec2>`: the argument form rotates through every
// conversion a caller can use (vector, (Vec2, depth) pair, array, tuple, Vec4 with a w to drop, extent).
thread_local!(static ARG_FORM: std::cell::Cell<u64> = std::cell::Cell::new(0));
fn set_arg_form(f: u64) {
    ARG_FORM.with(|c| c.set(f));
}
macro_rules! with_v3_form {
    ($p:expr, |$a:ident| $call:expr) => {{
        let p: Vec3<Q> = $p;
        match ARG_FORM.with(|c| c.get()) % 6 {
            0 => { let $a = p; $call }
            1 => { let $a = (Vec2 { x: p.x, y: p.y }, p.z); $call }
            2 => { let $a = [p.x, p.y, p.z]; $call }
            3 => { let $a = (p.x, p.y, p.z); $call }
            4 => { let $a = vek::vec::repr_c::Vec4 { x: p.x, y: p.y, z: p.z, w: Q::int(7) }; $call }
            _ => { let $a = vek::vec::repr_c::Extent3 { w: p.x, h: p.y, d: p.z }; $call }
        }
    }};
}
macro_rules! with_v2_form {
    ($c:expr, $d:expr, |$a:ident, $b:ident| $call:expr) => {{
        let (c, d): (Vec2<Q>, Vec2<Q>) = ($c, $d);
        match ARG_FORM.with(|c| c.get()) % 5 {
            0 => { let ($a, $b) = (c, d); $call }
            1 => { let ($a, $b) = ([c.x, c.y], [d.x, d.y]); $call }
            2 => { let ($a, $b) = ((c.x, c.y), (d.x, d.y)); $call }
            3 => { let ($a, $b) = (vek::vec::repr_c::Extent2 { w: c.x, h: c.y }, vek::vec::repr_c::Extent2 { w: d.x, h: d.y }); $call }
            _ => { let ($a, $b) = (Vec3 { x: c.x, y: c.y, z: Q::int(5) }, Vec3 { x: d.x, y: d.y, z: Q::int(-3) }); $call }
        }
    }};
}
macro_rules! impl_vp {
    ($M:ident) => {
        impl Vp for $M<Q> {
            fn w2v(fl: Flavour, p: Vec3<Q>, mv: Self, proj: Self, vp: Rect<Q, Q>) -> Vec3<Q> {
                match fl {
                    NO => with_v3_form!(p, |a| $M::<Q>::world_to_viewport_no(a, mv, proj, vp)),
                    ZO => with_v3_form!(p, |a| $M::<Q>::world_to_viewport_zo(a, mv, proj, vp)),
                }
            }
            fn v2w(fl: Flavour, p: Vec3<Q>, mv: Self, proj: Self, vp: Rect<Q, Q>) -> Vec3<Q> {
                match fl {
                    NO => with_v3_form!(p, |a| $M::<Q>::viewport_to_world_no(a, mv, proj, vp)),
                    ZO => with_v3_form!(p, |a| $M::<Q>::viewport_to_world_zo(a, mv, proj, vp)),
                }
            }
            fn pick(c: Vec2<Q>, d: Vec2<Q>, vp: Rect<Q, Q>) -> Self {
                with_v2_form!(c, d, |a, b| $M::<Q>::picking_region(a, b, vp))
            }
        }
    };
}
impl_vp!(Rows4);
impl_vp!(Cols4);

fn raw<M: MatX<Q>>(m: &M) -> M4 {
    let mut o = [[Q::ZERO; 4]; 4];
    for (i, row) in o.iter_mut().enumerate() {
        for (j, e) in row.iter_mut().enumerate() {
            *e = m.get(i, j);
        }
    }
    o
}
fn ty<M: MatX<Q>>() -> String {
    format!("{}<Q>", M::NAME)
}
fn v3(a: [Q; 3]) -> Vec3<Q> {
    Vec3 { x: a[0], y: a[1], z: a[2] }
}
fn un3(v: Vec3<Q>) -> [Q; 3] {
    [v.x, v.y, v.z]
}

// ------------------------------------------------------------------ inputs

#[derive(Clone, Debug)]
struct Scene {
    mv: M4,
    mv_desc: String,
    proj: M4,
    proj_desc: String,
    vp: [Q; 4], // x, y, w, h
    p: [Q; 3],
    mv_mixing: bool,
}
impl Scene {
    fn rect(&self) -> Rect<Q, Q> {
        Rect { x: self.vp[0], y: self.vp[1], w: self.vp[2], h: self.vp[3] }
    }
    fn describe(&self) -> String {
        format!("point={:?} modelview({})={:?} proj({})={:?} viewport(x,y,w,h)={:?}", self.p, self.mv_desc, self.mv, self.proj_desc, self.proj, self.vp)
    }
    fn hash(&self, h: &mut H64) {
        for q in self.mv.iter().flatten().chain(self.proj.iter().flatten()).chain(self.vp.iter()).chain(self.p.iter()) {
            h.u(q.hash64());
        }
    }
}

fn identity4() -> M4 {
    let mut m = [[Q::ZERO; 4]; 4];
    for (i, r) in m.iter_mut().enumerate() {
        r[i] = Q::ONE;
    }
    m
}

/// rational T*R*S from raw arrays
fn gen_mv(rng: &mut Rng) -> (M4, String, bool) {
    if rng.chance(1, 12) {
        return (identity4(), "identity".into(), false);
    }
    // the property quantifies over all invertible model-views, not only T*R*S: a quarter are general
    // affine maps (arbitrary invertible 3x3 block: shear, scale after rotation), a twelfth projective
    match rng.below(12) {
        0 | 1 | 2 => loop {
            let mut m = identity4();
            for i in 0..3 {
                for j in 0..3 {
                    m[i][j] = small_q(rng, 4, 3);
                }
                m[i][3] = if rng.chance(1, 3) { Q::ZERO } else { small_q(rng, 6, 4) };
            }
            if !det(m).is_zero() {
                return (m, format!("general affine {:?}", m), true);
            }
        },
        3 => loop {
            let mut m = [[Q::ZERO; 4]; 4];
            for r in m.iter_mut() {
                for e in r.iter_mut() {
                    *e = small_q(rng, 4, 3);
                }
            }
            if !det(m).is_zero() {
                return (m, format!("general projective {:?}", m), true);
            }
        },
        _ => {}
    }
    let r = rational_rotation(rng, 2);
    let s = if rng.chance(1, 3) { [Q::ONE; 3] } else { [small_q_nonzero(rng, 3, 2), small_q_nonzero(rng, 3, 2), small_q_nonzero(rng, 3, 2)] };
    // a quarter of the model-views have no translation at all (pure rotation / scale): matrices with
    // unit rows or columns are where "is this affine?" shortcuts go wrong
    let t = if rng.chance(1, 4) { [Q::ZERO; 3] } else { [small_q(rng, 6, 4), small_q(rng, 6, 4), small_q(rng, 6, 4)] };
    let mut m = identity4();
    let mut mixing = false;
    for i in 0..3 {
        for j in 0..3 {
            m[i][j] = r[i][j] * s[j];
            if i != j && !m[i][j].is_zero() {
                mixing = true;
            }
        }
        m[i][3] = t[i];
    }
    (m, format!("T{:?}*R*S{:?}", t, s), mixing)
}

fn gen_planes(rng: &mut Rng) -> FrustumPlanes<Q> {
    let pair = |rng: &mut Rng| loop {
        let a = small_q(rng, 6, 2);
        let b = small_q(rng, 6, 2);
        if a != b {
            return (a, b);
        }
    };
    let (left, right) = pair(rng);
    let (bottom, top) = pair(rng);
    let (near, far) = pair(rng);
    FrustumPlanes { left, right, bottom, top, near, far }
}

/// projection matrix: vek's own constructors (those C08 does not find defective) run here only
/// as a source of realistic inputs; the oracle works on the raw entries
fn gen_proj(rng: &mut Rng) -> (M4, String) {
    clear_angles();
    let fov = |rng: &mut Rng| {
        let q = rng.range_i64(2, 6);
        let p = rng.range_i64(1, q - 1);
        angle_from_quarter_tan(Q::frac(p, q))
    };
    match rng.below(13) {
        11 | 12 => loop {
            // a perspective-shaped matrix [a 0 b 0; 0 c d 0; . . . .; 0 0 g 0] whose depth row is free:
            // the oblique near clipping plane of reflections and portals (added after seeded change C10_P:
            // a closed-form "inverse of a perspective projection" must honour every entry the shape leaves free)
            let z = Q::ZERO;
            let (b, d) = if rng.bool() { (small_q(rng, 4, 3), small_q(rng, 4, 3)) } else { (z, z) };
            let g = if rng.bool() { Q::frac(-1, 1) } else { Q::frac(1, 1) };
            let row2 = if rng.bool() { [small_q(rng, 4, 3), small_q(rng, 4, 3), small_q_nonzero(rng, 4, 3), small_q_nonzero(rng, 4, 3)] } else { [z, z, small_q(rng, 4, 3), small_q_nonzero(rng, 4, 3)] };
            let m = [[small_q_nonzero(rng, 4, 3), z, b, z], [z, small_q_nonzero(rng, 4, 3), d, z], row2, [z, z, g, z]];
            if !det(m).is_zero() {
                return (m, format!("perspective-shaped with depth row {:?}: {:?}", row2, m));
            }
        },
        8 | 9 => loop {
            // sparse perturbation of the identity: 1..6 random entries (any row, the bottom row
            // included) replaced by small rationals; rows / columns that stay unit vectors are the point
            let mut m = identity4();
            let k = 1 + rng.usize_below(6);
            for _ in 0..k {
                let (i, j) = (rng.usize_below(4), rng.usize_below(4));
                m[i][j] = small_q(rng, 4, 3);
            }
            if !det(m).is_zero() {
                return (m, format!("identity with {} entries replaced: {:?}", k, m));
            }
        },
        10 => loop {
            // one/two/three-point perspective: identity (or a diagonal) whose bottom row is (a, b, c, d)
            let mut m = identity4();
            if rng.bool() {
                for i in 0..3 {
                    m[i][i] = small_q_nonzero(rng, 3, 2);
                }
            }
            for j in 0..3 {
                if rng.bool() {
                    m[3][j] = small_q(rng, 4, 3);
                }
            }
            if rng.chance(1, 3) {
                m[3][3] = small_q_nonzero(rng, 3, 2);
            }
            if !det(m).is_zero() {
                return (m, format!("diagonal with bottom row {:?}", m[3]));
            }
        },
        0 => {
            let pl = gen_planes(rng);
            (raw(&Rows4::<Q>::orthographic_rh_no(pl)), format!("orthographic_rh_no({:?})", pl))
        }
        1 => {
            let pl = gen_planes(rng);
            (raw(&Rows4::<Q>::orthographic_lh_zo(pl)), format!("orthographic_lh_zo({:?})", pl))
        }
        2 | 3 => {
            let a = fov(rng);
            let (aspect, n) = (small_q_pos(rng, 4, 3), small_q_pos(rng, 4, 2));
            let f = n + small_q_pos(rng, 6, 2);
            (raw(&Rows4::<Q>::perspective_rh_no(a.token, aspect, n, f)), format!("perspective_rh_no(fov~{:.3}, aspect {:?}, near {:?}, far {:?})", a.approx, aspect, n, f))
        }
        4 => {
            let a = fov(rng);
            let (aspect, n) = (small_q_pos(rng, 4, 3), small_q_pos(rng, 4, 2));
            let f = n + small_q_pos(rng, 6, 2);
            (raw(&Rows4::<Q>::perspective_rh_zo(a.token, aspect, n, f)), format!("perspective_rh_zo(fov~{:.3}, aspect {:?}, near {:?}, far {:?})", a.approx, aspect, n, f))
        }
        5 => {
            let a = fov(rng);
            let (w, h, n) = (small_q_pos(rng, 4, 2), small_q_pos(rng, 4, 2), small_q_pos(rng, 4, 2));
            let f = n + small_q_pos(rng, 6, 2);
            (raw(&Rows4::<Q>::perspective_fov_lh_zo(a.token, w, h, n, f)), format!("perspective_fov_lh_zo(fov~{:.3}, {:?}x{:?}, near {:?}, far {:?})", a.approx, w, h, n, f))
        }
        _ => loop {
            // random invertible rational matrix
            let mut m = [[Q::ZERO; 4]; 4];
            for r in m.iter_mut() {
                for e in r.iter_mut() {
                    *e = small_q(rng, 6, 4);
                }
            }
            if !det(m).is_zero() {
                return (m, "random invertible".into());
            }
        },
    }
}

fn gen_viewport(rng: &mut Rng) -> [Q; 4] {
    match rng.below(5) {
        0 => {
            let (w, h) = *rng.pick(&[(640, 480), (800, 600), (1920, 1080), (256, 256), (1, 1)]);
            [Q::ZERO, Q::ZERO, Q::int(w), Q::int(h)]
        }
        _ => [small_q(rng, 6, 4), small_q(rng, 6, 4), small_q_nonzero(rng, 8, 2), small_q_nonzero(rng, 8, 2)],
    }
}

fn gen_scene(rng: &mut Rng) -> Scene {
    let (mv, mv_desc, mv_mixing) = gen_mv(rng);
    let (proj, proj_desc) = gen_proj(rng);
    let vp = gen_viewport(rng);
    let mut p = [small_q(rng, 6, 4), small_q(rng, 6, 4), small_q(rng, 6, 4)];
    let (mut mv, mut mv_desc) = (mv, mv_desc);
    if rng.chance(1, 8) {
        // a microscopic scene: the point and the model-view translation scaled by 2^-54, so that a
        // perspective clip w is far below the element type's epsilon without being zero
        let k = Q::frac(1, 1i64 << 54);
        for x in p.iter_mut() {
            *x = *x * k;
        }
        for i in 0..3 {
            mv[i][3] = mv[i][3] * k;
        }
        mv_desc = format!("{} with the translation scaled by 2^-54 (microscopic scene)", mv_desc);
    }
    Scene { mv, mv_desc, proj, proj_desc, vp, p, mv_mixing }
}

/// the oracle: expected window position of `p`, or the reason why the case is outside the domain
fn expected_window(s: &Scene, fl: Flavour) -> Result<([Q; 3], [Q; 3]), &'static str> {
    let pm = matmul(s.proj, s.mv);
    let clip = matvec(pm, [s.p[0], s.p[1], s.p[2], Q::ONE]);
    if clip[3].is_zero() {
        return Err("outside_domain:clip_w_zero");
    }
    let ndc = [clip[0] / clip[3], clip[1] / clip[3], clip[2] / clip[3]];
    let two = Q::int(2);
    let wx = (ndc[0] + Q::ONE) / two * s.vp[2] + s.vp[0];
    let wy = (ndc[1] + Q::ONE) / two * s.vp[3] + s.vp[1];
    let depth = match fl {
        NO => (ndc[2] + Q::ONE) / two,
        ZO => ndc[2],
    };
    Ok(([wx, wy, depth], ndc))
}

fn invertible(s: &Scene) -> bool {
    !det(matmul(s.proj, s.mv)).is_zero()
}

fn nontrivial(s: &Scene, ndc: &[Q; 3]) -> bool {
    s.mv_mixing && s.vp[2] != s.vp[3] && !(s.vp[0].is_zero() && s.vp[1].is_zero()) && ndc[2] != Q::ONE
}

fn count_conclusive(sub: &mut Sub, hash: u64, nontrivial: bool) {
    if nontrivial {
        sub.nontrivial += 1;
        sub.distinct.insert(hash);
    }
}

fn scene_hash<M: MatX<Q>>(api: &str, s: &Scene) -> u64 {
    let mut h = H64::new();
    h.s(api).s(M::NAME);
    s.hash(&mut h);
    h.get()
}

// ------------------------------------------------------------------ sub-check: world_to_viewport

fn project_case<M: Vp>(sub: &mut Sub, cfg: &Config, idx: u64) {
    let mut rng = Rng::for_case("world_to_viewport", cfg.case_seed(), idx);
    set_arg_form(idx);
    let s = gen_scene(&mut rng);
    let _ = take_poison();
    let (mv, proj) = (M::from_fn(|i, j| s.mv[i][j]), M::from_fn(|i, j| s.proj[i][j]));
    for fl in [NO, ZO] {
        let api = format!("Mat4::world_to_viewport_{}", fl.sfx());
        sub.saw(&api);
        let exp = expected_window(&s, fl);
        if let Some(p) = take_poison() {
            sub.inconclusive(&format!("poison:{}", p));
            continue;
        }
        let (exp, ndc) = match exp {
            Ok(e) => e,
            Err(r) => {
                sub.inconclusive(r);
                continue;
            }
        };
        let got = guarded(|| M::w2v(fl, v3(s.p), mv, proj, s.rect()));
        let poison = take_poison();
        let hash = scene_hash::<M>(&api, &s);
        let nt = nontrivial(&s, &ndc);
        match got {
            Err(e) => {
                let v = violation(PROP, sub, &api, &ty::<M>(), "panic", "panic_in_domain", format!("{}: panicked: {}", s.describe(), e), cfg.case_seed(), idx);
                sub.violated(v);
            }
            Ok(_) if poison.is_some() => sub.inconclusive(&format!("poison:{}", poison.unwrap())),
            Ok(g) => {
                let g = un3(g);
                let bad = (0..3).find(|&i| g[i] != exp[i]);
                match bad {
                    None => {
                        sub.sample(|| format!("{} [{}] {} -> {:?} (ndc {:?})", api, ty::<M>(), s.describe(), g, ndc));
                        sub.held(hash, nt);
                    }
                    Some(i) => {
                        let what = ["window_x", "window_y", "window_depth"][i];
                        let v = violation(PROP, sub, &api, &ty::<M>(), "wrong_value", what, format!("{}: vek returned {:?}, expected {:?} (ndc after the divide = {:?}); component {} differs", s.describe(), g, exp, ndc, i), cfg.case_seed(), idx);
                        sub.violated(v);
                        count_conclusive(sub, hash, nt);
                    }
                }
            }
        }
    }
}

// ------------------------------------------------------------------ sub-check: viewport_to_world (from the oracle's window position) and the round trip

fn unproject_case<M: Vp>(sub: &mut Sub, cfg: &Config, idx: u64, round_trip: bool) {
    let name = if round_trip { "round_trip" } else { "viewport_to_world" };
    let mut rng = Rng::for_case(name, cfg.case_seed(), idx);
    set_arg_form(idx);
    let s = gen_scene(&mut rng);
    let _ = take_poison();
    let (mv, proj) = (M::from_fn(|i, j| s.mv[i][j]), M::from_fn(|i, j| s.proj[i][j]));
    for fl in [NO, ZO] {
        let api = format!("Mat4::viewport_to_world_{}", fl.sfx());
        let api_p = format!("Mat4::world_to_viewport_{}", fl.sfx());
        sub.saw(&api);
        let exp = expected_window(&s, fl);
        let inv = invertible(&s);
        if let Some(p) = take_poison() {
            sub.inconclusive(&format!("poison:{}", p));
            continue;
        }
        let (win, ndc) = match exp {
            Ok(e) => e,
            Err(r) => {
                sub.inconclusive(r);
                continue;
            }
        };
        if !inv {
            sub.inconclusive("outside_domain:singular_proj_times_modelview");
            continue;
        }
        let hash = scene_hash::<M>(&format!("{}/{}", name, api), &s);
        let nt = nontrivial(&s, &ndc);
        // window position fed to viewport_to_world: the oracle's, or vek's own projection
        let (win_in, from) = if round_trip {
            sub.saw(&api_p);
            match guarded(|| M::w2v(fl, v3(s.p), mv, proj, s.rect())) {
                Ok(w) => (un3(w), "vek's world_to_viewport"),
                Err(e) => {
                    let _ = take_poison();
                    let v = violation(PROP, sub, &api_p, &ty::<M>(), "panic", "panic_in_domain", format!("{}: panicked: {}", s.describe(), e), cfg.case_seed(), idx);
                    sub.violated(v);
                    continue;
                }
            }
        } else {
            (win, "the oracle")
        };
        let got = guarded(|| M::v2w(fl, v3(win_in), mv, proj, s.rect()));
        let poison = take_poison();
        match got {
            Err(e) => {
                let v = violation(PROP, sub, &api, &ty::<M>(), "panic", "panic_in_domain", format!("{} window={:?}: panicked: {}", s.describe(), win_in, e), cfg.case_seed(), idx);
                sub.violated(v);
            }
            Ok(_) if poison.is_some() => sub.inconclusive(&format!("poison:{}", poison.unwrap())),
            Ok(g) => {
                let g = un3(g);
                if g == s.p {
                    sub.sample(|| format!("{} [{}] {} window (from {}) {:?} -> {:?}", api, ty::<M>(), s.describe(), from, win_in, g));
                    sub.held(hash, nt);
                } else {
                    let what = if round_trip { "round_trip_not_identity" } else { "unprojected_point" };
                    let v = violation(PROP, sub, &api, &ty::<M>(), "wrong_value", what, format!("{}: window position (from {}) {:?} was unprojected to {:?}, expected the original point {:?}", s.describe(), from, win_in, g, s.p), cfg.case_seed(), idx);
                    sub.violated(v);
                    count_conclusive(sub, hash, nt);
                }
            }
        }
    }
}

// ------------------------------------------------------------------ sub-check: picking_region

fn picking_case<M: Vp>(sub: &mut Sub, cfg: &Config, idx: u64) {
    set_arg_form(idx);
    let mut rng = Rng::for_case("picking_region", cfg.case_seed(), idx);
    let vp = gen_viewport(&mut rng);
    let two = Q::int(2);
    let vc = [vp[0] + vp[2] / two, vp[1] + vp[3] / two];
    // 1/10: pick rectangle centred on the viewport centre; 1/10: delta = |viewport size|
    let mode = rng.below(10);
    let c = if mode == 0 { vc } else { [small_q(&mut rng, 8, 4), small_q(&mut rng, 8, 4)] };
    let d = if mode == 1 { [vp[2].abs_q(), vp[3].abs_q()] } else { [small_q_pos(&mut rng, 8, 4), small_q_pos(&mut rng, 8, 4)] };
    let zs = [small_q(&mut rng, 6, 4), small_q(&mut rng, 6, 4)];
    let wh = small_q_nonzero(&mut rng, 6, 4);
    let api = "Mat4::picking_region";
    let rect = Rect { x: vp[0], y: vp[1], w: vp[2], h: vp[3] };
    let inputs = || format!("center={:?} delta={:?} viewport(x,y,w,h)={:?}", c, d, vp);
    sub.saw(api);
    let got = guarded(|| M::pick(Vec2 { x: c[0], y: c[1] }, Vec2 { x: d[0], y: d[1] }, rect));
    let m = match got {
        Ok(m) => raw(&m),
        Err(e) => {
            let _ = take_poison();
            let v = violation(PROP, sub, api, &ty::<M>(), "panic", "panic_in_domain", format!("{}: panicked: {}", inputs(), e), cfg.case_seed(), idx);
            sub.violated(v);
            return;
        }
    };
    // the four corners of the pick rectangle in clip coordinates of the viewport
    let mut fail: Option<(&'static str, String)> = None;
    'outer: for (k, z) in zs.iter().enumerate() {
        // second probe: a homogeneous representative with w != 1 of the same clip point
        let w = if k == 0 { Q::ONE } else { wh };
        for sx in [-1i64, 1] {
            for sy in [-1i64, 1] {
                let wx = c[0] + Q::int(sx) * d[0] / two;
                let wy = c[1] + Q::int(sy) * d[1] / two;
                let nx = two * (wx - vp[0]) / vp[2] - Q::ONE;
                let ny = two * (wy - vp[1]) / vp[3] - Q::ONE;
                let out = matvec(m, [nx * w, ny * w, *z * w, w]);
                let desc = || format!("window corner ({:?},{:?}) = centre {}delta.x/2, {}delta.y/2 has viewport clip coordinates ({:?},{:?}); the matrix maps ({:?},{:?},{:?},{:?}) to {:?}", wx, wy, if sx < 0 { "-" } else { "+" }, if sy < 0 { "-" } else { "+" }, nx, ny, nx * w, ny * w, *z * w, w, out);
                if out[3].is_zero() {
                    fail = Some(("w_zero", desc()));
                    break 'outer;
                }
                let (ox, oy) = (out[0] / out[3], out[1] / out[3]);
                if ox != Q::int(sx) || oy != Q::int(sy) {
                    let what = if k == 0 { "corner_mapping" } else { "corner_mapping_homogeneous_w" };
                    fail = Some((what, format!("{} -> ({:?},{:?}) after the divide, expected ({},{})", desc(), ox, oy, sx, sy)));
                    break 'outer;
                }
            }
        }
    }
    if let Some(p) = take_poison() {
        sub.inconclusive(&format!("poison:{}", p));
        return;
    }
    let mut h = H64::new();
    h.s(api).s(M::NAME);
    for q in c.iter().chain(d.iter()).chain(vp.iter()) {
        h.u(q.hash64());
    }
    // non-trivial: off-centre pick rectangle whose size differs from the viewport's, in both axes
    let nt = c[0] != vc[0] && c[1] != vc[1] && d[0] != vp[2] && d[1] != vp[3];
    match fail {
        None => {
            sub.sample(|| format!("{} [{}] {} -> {:?}: the four corners map to (+-1,+-1)", api, ty::<M>(), inputs(), m));
            sub.held(h.get(), nt);
        }
        Some((what, detail)) => {
            let v = violation(PROP, sub, api, &ty::<M>(), "wrong_value", what, format!("{}; matrix (rows) = {:?}; {}", inputs(), m, detail), cfg.case_seed(), idx);
            sub.violated(v);
            count_conclusive(sub, h.get(), nt);
        }
    }
}

fn picking_panic_case<M: Vp>(sub: &mut Sub, cfg: &Config, idx: u64) {
    set_arg_form(idx);
    let mut rng = Rng::for_case("picking_region_panics", cfg.case_seed(), idx);
    let vp = gen_viewport(&mut rng);
    let c = [small_q(&mut rng, 8, 4), small_q(&mut rng, 8, 4)];
    let pos = |rng: &mut Rng| small_q_pos(rng, 8, 4);
    let nonpos = |rng: &mut Rng| if rng.bool() { Q::ZERO } else { -small_q_pos(rng, 8, 4) };
    let d = match idx % 3 {
        0 => [nonpos(&mut rng), pos(&mut rng)],
        1 => [pos(&mut rng), nonpos(&mut rng)],
        _ => [nonpos(&mut rng), nonpos(&mut rng)],
    };
    let api = "Mat4::picking_region";
    sub.saw(api);
    let rect = Rect { x: vp[0], y: vp[1], w: vp[2], h: vp[3] };
    let got = guarded(|| M::pick(Vec2 { x: c[0], y: c[1] }, Vec2 { x: d[0], y: d[1] }, rect));
    let _ = take_poison();
    let mut h = H64::new();
    h.s(api).s(M::NAME);
    for q in c.iter().chain(d.iter()).chain(vp.iter()) {
        h.u(q.hash64());
    }
    match got {
        Err(_) => {
            sub.sample(|| format!("{} [{}] center={:?} delta={:?} viewport={:?}: panicked as documented", api, ty::<M>(), c, d, vp));
            sub.held(h.get(), true);
        }
        Ok(m) => {
            let v = violation(PROP, sub, api, &ty::<M>(), "missing_panic", "non_positive_delta", format!("center={:?} delta={:?} viewport(x,y,w,h)={:?}: delta.x <= 0 or delta.y <= 0 must panic, but a matrix was returned: {:?}", c, d, vp, raw(&m)), cfg.case_seed(), idx);
            sub.violated(v);
            count_conclusive(sub, h.get(), true);
        }
    }
}

fn main() {
    let cfg = Config::from_args(PROP);
    let mut rep = Report::new(cfg.clone());
    let n = cfg.n(3_000, 300_000);
    let scene = "scene = model-view T*R*S (rational rotation from integer quaternions |.|<=2, scale entries n/d |n|<=3 d<=2 incl. negative, translation |n|<=6 d<=4; 1/12 identity), projection from orthographic_rh_no / orthographic_lh_zo / perspective_rh_no / perspective_rh_zo / perspective_fov_lh_zo (fov by angle token) or a random invertible rational matrix (3/8), viewport x,y n/d, w,h non-zero incl. negative (1/5 common integer sizes), point |n|<=6 d<=4; clip w = 0 or singular P*MV -> outside_domain, overflow of the exact representation -> poison (inconclusive)";
    {
        let proto = Sub::new(
            "world_to_viewport",
            &format!("{}; world_to_viewport_no/_zo in both layouts vs the from-scratch oracle clip = P*MV*(p,1) (naive products), ndc = clip/w, x = (ndc.x+1)/2*vw+vx, y likewise with vh, vy, depth = (ndc.z+1)/2 (_no) or ndc.z (_zo), compared exactly; non-trivial = model-view mixes axes, vw != vh, (vx,vy) != (0,0), ndc.z != 1; distinct by (entry point, layout, scene)", scene),
        )
        .with_floor(n * 4 * 2 / 10)
        .require(&["Mat4::world_to_viewport_no", "Mat4::world_to_viewport_zo"]);
        rep.push(run_cases(&cfg, proto, n, |s, i| {
            project_case::<Rows4<Q>>(s, &cfg, i);
            project_case::<Cols4<Q>>(s, &cfg, i);
        }));
    }
    {
        let proto = Sub::new(
            "viewport_to_world",
            &format!("{}; viewport_to_world_no/_zo in both layouts applied to the ORACLE's window position of p must return p exactly; non-trivial and distinct as in world_to_viewport", scene),
        )
        .with_floor(n * 4 * 2 / 10)
        .require(&["Mat4::viewport_to_world_no", "Mat4::viewport_to_world_zo"]);
        rep.push(run_cases(&cfg, proto, n, |s, i| {
            unproject_case::<Rows4<Q>>(s, &cfg, i, false);
            unproject_case::<Cols4<Q>>(s, &cfg, i, false);
        }));
    }
    {
        let proto = Sub::new(
            "round_trip",
            &format!("{}; viewport_to_world_X(world_to_viewport_X(p)) == p exactly for X in {{no,zo}}, both layouts (the two vek functions composed, as the property states); non-trivial and distinct as in world_to_viewport", scene),
        )
        .with_floor(n * 4 * 2 / 10)
        .require(&["Mat4::viewport_to_world_no", "Mat4::viewport_to_world_zo", "Mat4::world_to_viewport_no", "Mat4::world_to_viewport_zo"]);
        rep.push(run_cases(&cfg, proto, n, |s, i| {
            unproject_case::<Rows4<Q>>(s, &cfg, i, true);
            unproject_case::<Cols4<Q>>(s, &cfg, i, true);
        }));
    }
    {
        let proto = Sub::new(
            "picking_region",
            "per index a viewport (as above), a centre (n/d, |n|<=8, d<=4; 1/10 exactly the viewport centre) and a positive delta (1/10 exactly the viewport size); the four window corners centre +- delta/2 are expressed in clip coordinates of the viewport (nx = 2(wx-vx)/vw-1, ny likewise) and multiplied (naive product) by the returned matrix as (nx,ny,z,1) and as the homogeneous representative (nx*w,ny*w,z*w,w), w != 0; after the divide they must be (-1,-1),(-1,+1),(+1,-1),(+1,+1); non-trivial = pick rectangle off the viewport centre and of a different size in both axes; distinct by (layout, centre, delta, viewport)",
        )
        .with_floor(n * 2 * 4 / 10)
        .require(&["Mat4::picking_region"]);
        rep.push(run_cases(&cfg, proto, n, |s, i| {
            picking_case::<Rows4<Q>>(s, &cfg, i);
            picking_case::<Cols4<Q>>(s, &cfg, i);
        }));
    }
    {
        let np = cfg.n(600, 30_000);
        let proto = Sub::new(
            "picking_region_panics",
            "per index a viewport, a centre and a delta with delta.x <= 0 (index%3==0), delta.y <= 0 (1) or both (2), zero or negative: picking_region must panic (documented); distinct by (layout, centre, delta, viewport)",
        )
        .with_floor(np * 2 * 8 / 10)
        .require(&["Mat4::picking_region"]);
        rep.push(run_cases(&cfg, proto, np, |s, i| {
            picking_panic_case::<Rows4<Q>>(s, &cfg, i);
            picking_panic_case::<Cols4<Q>>(s, &cfg, i);
        }));
    }
    std::process::exit(rep.finish());
}

//! C09 — view and change-of-basis matrices are rigid and place eye, target and axes right.
//!
//! Exact tier (`Q`): cameras are generated *from* a rational orthonormal frame, so both
//! `normalized()` calls inside vek's look-at code stay rational; the returned matrix is read
//! through its raw fields and judged from the definition only (rigid, det +1, eye -> origin,
//! target -> forward axis at the eye-target distance, up in the upper vertical half-plane), with
//! the harness's own naive products.  The model look-at matrices are judged directly (origin ->
//! eye, forward axis -> target, ...) and against vek's view matrix (model*view = view*model = I).
//! `local_to_basis` / `basis_to_local` run on random rational orthonormal triples, proper and
//! improper.  Float tier (f32, f64): arbitrary cameras, derived tolerance, ill-conditioning guard.

use monitors::gen::{rational_rotation, small_q, small_q_pos};
use monitors::prng::{Rng, H64};
use monitors::report::{guarded, run_cases, take_poison, Config, Report, Sub};
use monitors::Q;
use props::*;
use std::fmt::Debug;
use std::ops::{Add, Mul, Neg, Sub as OpSub};
use vek::vec::repr_c::Vec3;

const PROP: &str = "C09";

// ------------------------------------------------------------------ entry points behind one interface

#[derive(Clone, Copy, Debug, PartialEq)]
enum Kind {
    ViewLh,
    ViewRh,
    ViewDeprecated,
    ModelLh,
    ModelRh,
    ModelDeprecated,
}
use Kind::*;
impl Kind {
    fn api(self) -> &'static str {
        match self {
            ViewLh => "Mat4::look_at_lh",
            ViewRh => "Mat4::look_at_rh",
            ViewDeprecated => "Mat4::look_at",
            ModelLh => "Mat4::model_look_at_lh",
            ModelRh => "Mat4::model_look_at_rh",
            ModelDeprecated => "Mat4::model_look_at",
        }
    }
    /// +1: the forward axis is +z (left-handed; the deprecated functions are documented as lh)
    fn left_handed(self) -> bool {
        !matches!(self, ViewRh | ModelRh)
    }
    fn is_view(self) -> bool {
        matches!(self, ViewLh | ViewRh | ViewDeprecated)
    }
    /// the view function a model matrix must invert
    fn view_of(self) -> Kind {
        match self {
            ModelLh => ViewLh,
            ModelRh => ViewRh,
            ModelDeprecated => ViewDeprecated,
            k => k,
        }
    }
}

trait Look<T>: MatX<T> + Copy {
    fn look(kind: Kind, eye: Vec3<T>, target: Vec3<T>, up: Vec3<T>) -> Self;
    fn b2l(o: Vec3<T>, i: Vec3<T>, j: Vec3<T>, k: Vec3<T>) -> Self;
    fn l2b(o: Vec3<T>, i: Vec3<T>, j: Vec3<T>, k: Vec3<T>) -> Self;
}

macro_rules! impl_look {
    ($M:ident, $T:ty) => {
        impl Look<$T> for $M<$T> {
            #[allow(deprecated)]
            fn look(kind: Kind, eye: Vec3<$T>, target: Vec3<$T>, up: Vec3<$T>) -> Self {
                match kind {
                    ViewLh => $M::<$T>::look_at_lh(eye, target, up),
                    ViewRh => $M::<$T>::look_at_rh(eye, target, up),
                    ViewDeprecated => $M::<$T>::look_at(eye, target, up),
                    ModelLh => $M::<$T>::model_look_at_lh(eye, target, up),
                    ModelRh => $M::<$T>::model_look_at_rh(eye, target, up),
                    ModelDeprecated => $M::<$T>::model_look_at(eye, target, up),
                }
            }
            fn b2l(o: Vec3<$T>, i: Vec3<$T>, j: Vec3<$T>, k: Vec3<$T>) -> Self {
                $M::<$T>::basis_to_local(o, i, j, k)
            }
            fn l2b(o: Vec3<$T>, i: Vec3<$T>, j: Vec3<$T>, k: Vec3<$T>) -> Self {
                $M::<$T>::local_to_basis(o, i, j, k)
            }
        }
    };
}
impl_look!(Rows4, Q);
impl_look!(Cols4, Q);
impl_look!(Rows4, f32);
impl_look!(Cols4, f32);
impl_look!(Rows4, f64);
impl_look!(Cols4, f64);

fn v3<T: Copy>(a: [T; 3]) -> Vec3<T> {
    Vec3 { x: a[0], y: a[1], z: a[2] }
}

// ------------------------------------------------------------------ the checker's own arithmetic

/// number type the oracle computes in: `Q` (exact; tolerances ignored) or `f64`
trait Ck: Copy + Debug + PartialOrd + Add<Output = Self> + OpSub<Output = Self> + Mul<Output = Self> + Neg<Output = Self> {
    fn zero() -> Self;
    fn one() -> Self;
    /// equal (exact tier) / within `tol` (float tier)
    fn near(self, o: Self, tol: f64) -> bool;
    fn det3(a: [[Self; 3]; 3]) -> Self;
}
impl Ck for Q {
    fn zero() -> Q {
        Q::ZERO
    }
    fn one() -> Q {
        Q::ONE
    }
    fn near(self, o: Q, _tol: f64) -> bool {
        self == o
    }
    fn det3(a: [[Q; 3]; 3]) -> Q {
        monitors::gen::det(a)
    }
}
impl Ck for f64 {
    fn zero() -> f64 {
        0.0
    }
    fn one() -> f64 {
        1.0
    }
    fn near(self, o: f64, tol: f64) -> bool {
        (self - o).abs() <= tol
    }
    fn det3(a: [[f64; 3]; 3]) -> f64 {
        a[0][0] * (a[1][1] * a[2][2] - a[1][2] * a[2][1]) - a[0][1] * (a[1][0] * a[2][2] - a[1][2] * a[2][0]) + a[0][2] * (a[1][0] * a[2][1] - a[1][1] * a[2][0])
    }
}

type M4<X> = [[X; 4]; 4];

fn mv<X: Ck>(m: &M4<X>, v: [X; 4]) -> [X; 4] {
    let mut o = [X::zero(); 4];
    for i in 0..4 {
        let mut s = X::zero();
        for k in 0..4 {
            s = s + m[i][k] * v[k];
        }
        o[i] = s;
    }
    o
}
fn mm<X: Ck>(a: &M4<X>, b: &M4<X>) -> M4<X> {
    let mut o = [[X::zero(); 4]; 4];
    for i in 0..4 {
        for j in 0..4 {
            let mut s = X::zero();
            for k in 0..4 {
                s = s + a[i][k] * b[k][j];
            }
            o[i][j] = s;
        }
    }
    o
}
fn pt<X: Ck>(p: [X; 3]) -> [X; 4] {
    [p[0], p[1], p[2], X::one()]
}
fn dir<X: Ck>(p: [X; 3]) -> [X; 4] {
    [p[0], p[1], p[2], X::zero()]
}
fn block3<X: Ck>(m: &M4<X>) -> [[X; 3]; 3] {
    [[m[0][0], m[0][1], m[0][2]], [m[1][0], m[1][1], m[1][2]], [m[2][0], m[2][1], m[2][2]]]
}

/// tolerances of the float tier (ignored by `Q`)
#[derive(Clone, Copy, Debug)]
struct Tol {
    /// on entries / products of the rotation block
    rot: f64,
    /// on positions (rot * coordinate scale)
    pos: f64,
    /// length of the up vector (scale of M * up)
    up_len: f64,
}
const EXACT: Tol = Tol { rot: 0.0, pos: 0.0, up_len: 1.0 };

type Fail = Option<(&'static str, String)>;

/// last row (0,0,0,1), upper 3x3 orthogonal with determinant +1
fn check_rigid<X: Ck>(m: &M4<X>, tol: Tol) -> Fail {
    let expect_last = [X::zero(), X::zero(), X::zero(), X::one()];
    for j in 0..4 {
        if !m[3][j].near(expect_last[j], tol.rot) {
            return Some(("last_row_not_0001", format!("last row is {:?}", m[3])));
        }
    }
    let a = block3(m);
    for i in 0..3 {
        for j in 0..3 {
            let mut s = X::zero();
            for k in 0..3 {
                s = s + a[i][k] * a[j][k];
            }
            let e = if i == j { X::one() } else { X::zero() };
            if !s.near(e, 4.0 * tol.rot) {
                return Some(("rotation_block_not_orthogonal", format!("row {} . row {} of the upper 3x3 block = {:?}, expected {:?}", i, j, s, e)));
            }
        }
    }
    let d = X::det3(a);
    if !d.near(X::one(), 8.0 * tol.rot) {
        return Some(("determinant_not_plus_one", format!("determinant of the upper 3x3 block = {:?}, expected 1", d)));
    }
    None
}

/// view matrix: eye -> 0, target -> (0,0,+-d), up -> x = 0, y > 0
fn check_view<X: Ck>(m: &M4<X>, eye: [X; 3], target: [X; 3], up: [X; 3], d: X, lh: bool, tol: Tol) -> Fail {
    if let Some(f) = check_rigid(m, tol) {
        return Some(f);
    }
    let e = mv(m, pt(eye));
    let origin = [X::zero(), X::zero(), X::zero(), X::one()];
    for i in 0..4 {
        if !e[i].near(origin[i], tol.pos) {
            return Some(("eye_not_sent_to_origin", format!("M * eye = {:?}, expected (0,0,0,1)", e)));
        }
    }
    let t = mv(m, pt(target));
    let want = [X::zero(), X::zero(), if lh { d } else { -d }, X::one()];
    for i in 0..4 {
        if !t[i].near(want[i], tol.pos) {
            return Some(("target_not_on_forward_axis", format!("M * target = {:?}, expected {:?} ({} forward axis at the eye-target distance)", t, want, if lh { "+z" } else { "-z" })));
        }
    }
    let u = mv(m, dir(up));
    if !u[0].near(X::zero(), tol.rot * tol.up_len) || !(u[1] > X::zero()) {
        return Some(("up_not_in_upper_vertical_half_plane", format!("M * up (as a direction) = {:?}, expected x = 0 and y > 0", u)));
    }
    None
}

/// model matrix, judged directly: origin -> eye, (0,0,+-d) -> target, and the up direction
/// expressed in local coordinates (A^T up for an orthogonal block A) has x = 0, y > 0
fn check_model<X: Ck>(w: &M4<X>, eye: [X; 3], target: [X; 3], up: [X; 3], d: X, lh: bool, tol: Tol) -> Fail {
    if let Some(f) = check_rigid(w, tol) {
        return Some(f);
    }
    let o = mv(w, [X::zero(), X::zero(), X::zero(), X::one()]);
    let want = pt(eye);
    for i in 0..4 {
        if !o[i].near(want[i], tol.pos) {
            return Some(("origin_not_sent_to_eye", format!("model * origin = {:?}, expected eye {:?}", o, want)));
        }
    }
    let t = mv(w, [X::zero(), X::zero(), if lh { d } else { -d }, X::one()]);
    let want = pt(target);
    for i in 0..4 {
        if !t[i].near(want[i], tol.pos) {
            return Some(("forward_axis_not_sent_to_target", format!("model * (0,0,{}d,1) = {:?}, expected target {:?}", if lh { "+" } else { "-" }, t, want)));
        }
    }
    let a = block3(w);
    let lx = a[0][0] * up[0] + a[1][0] * up[1] + a[2][0] * up[2];
    let ly = a[0][1] * up[0] + a[1][1] * up[1] + a[2][1] * up[2];
    if !lx.near(X::zero(), tol.rot * tol.up_len) || !(ly > X::zero()) {
        return Some(("up_not_in_upper_vertical_half_plane", format!("up in model-local coordinates has x = {:?}, y = {:?}, expected x = 0 and y > 0", lx, ly)));
    }
    None
}

fn check_inverse<X: Ck>(a: &M4<X>, an: &str, b: &M4<X>, bn: &str, tol: f64) -> Fail {
    check_inverse2(a, an, b, bn, tol, tol)
}

/// `tol_lin` for the linear part and the last row (numbers of size 1), `tol_pos` for the translation
/// column (numbers of the size of the scene)
fn check_inverse2<X: Ck>(a: &M4<X>, an: &str, b: &M4<X>, bn: &str, tol_lin: f64, tol_pos: f64) -> Fail {
    for (p, pn) in [(mm(a, b), format!("{}*{}", an, bn)), (mm(b, a), format!("{}*{}", bn, an))] {
        for i in 0..4 {
            for j in 0..4 {
                let e = if i == j { X::one() } else { X::zero() };
                let tol = if j == 3 && i < 3 { tol_pos } else { tol_lin };
                if !p[i][j].near(e, tol) {
                    return Some(("not_inverse_of_each_other", format!("{} = {:?} is not the identity (entry ({},{}))", pn, p, i, j)));
                }
            }
        }
    }
    None
}

// ------------------------------------------------------------------ plumbing

fn raw<T: Copy, M: MatX<T>>(m: &M) -> M4<T> {
    let z = m.get(0, 0);
    let mut o = [[z; 4]; 4];
    for (i, row) in o.iter_mut().enumerate() {
        for (j, e) in row.iter_mut().enumerate() {
            *e = m.get(i, j);
        }
    }
    o
}

/// run a vek entry point under `guarded`; a panic inside the domain is a violation
fn call<T: Copy, M: MatX<T>>(sub: &mut Sub, cfg: &Config, idx: u64, api: &str, ty: &str, inputs: &dyn Fn() -> String, f: impl FnOnce() -> M) -> Option<M4<T>> {
    sub.saw(api);
    match guarded(f) {
        Ok(m) => Some(raw(&m)),
        Err(e) => {
            let _ = take_poison();
            let v = violation(PROP, sub, api, ty, "panic", "panic_in_domain", format!("{}: panicked: {}", inputs(), e), cfg.case_seed(), idx);
            sub.violated(v);
            None
        }
    }
}

#[allow(clippy::too_many_arguments)]
fn conclude<X: Debug>(sub: &mut Sub, cfg: &Config, idx: u64, api: &str, ty: &str, inputs: &dyn Fn() -> String, m: &M4<X>, res: Fail, hash: u64, nontrivial: bool) {
    if let Some(p) = take_poison() {
        sub.inconclusive(&format!("poison:{}", p));
        return;
    }
    match res {
        None => {
            sub.sample(|| format!("{} [{}] {} -> {:?}: all conditions hold", api, ty, inputs(), m));
            sub.held(hash, nontrivial);
        }
        Some((what, detail)) => {
            let v = violation(PROP, sub, api, ty, "wrong_value", what, format!("{}; matrix (rows) = {:?}; {}", inputs(), m, detail), cfg.case_seed(), idx);
            sub.violated(v);
            // a violated case is conclusive too
            if nontrivial {
                sub.nontrivial += 1;
                sub.distinct.insert(hash);
            }
        }
    }
}

// ------------------------------------------------------------------ exact look-at

#[derive(Clone, Copy, Debug)]
struct Cam {
    eye: [Q; 3],
    target: [Q; 3],
    up: [Q; 3],
    d: Q,
}

/// camera from a rational orthonormal frame: rows (s,u,f) of a rational rotation,
/// target = eye + d*f, up = alpha*u + beta*f with alpha > 0.
fn gen_cam(rng: &mut Rng) -> Cam {
    let r = rational_rotation(rng, 3);
    let (u, f) = (r[1], r[2]);
    let eye = match rng.below(8) {
        0 => [Q::ZERO; 3],
        _ => [small_q(rng, 9, 4), small_q(rng, 9, 4), small_q(rng, 9, 4)],
    };
    let d = small_q_pos(rng, 9, 4);
    // only the direction of `up` matters: a sixth of the cameras have a very short or very long up
    // (|up x f|^2 far below the element type's epsilon, or huge); the matrices must not change
    let alpha = match rng.below(12) {
        0 => Q::frac(1, 1i64 << *rng.pick(&[20u32, 27, 30, 34])),
        1 => Q::int(1i64 << *rng.pick(&[12u32, 20, 24])),
        _ => small_q_pos(rng, 6, 3),
    };
    let beta = if rng.chance(1, 4) { Q::ZERO } else if alpha < Q::frac(1, 1000) { alpha * small_q(rng, 6, 3) } else { small_q(rng, 6, 3) };
    let mut target = [Q::ZERO; 3];
    let mut up = [Q::ZERO; 3];
    for i in 0..3 {
        target[i] = eye[i] + d * f[i];
        up[i] = alpha * u[i] + beta * f[i];
    }
    Cam { eye, target, up, d }
}

fn nonzeros(v: &[Q]) -> usize {
    v.iter().filter(|q| !q.is_zero()).count()
}

fn look_exact_case<M: Look<Q>>(sub: &mut Sub, cfg: &Config, idx: u64) {
    let mut rng = Rng::for_case("look_at_exact", cfg.case_seed(), idx);
    let c = gen_cam(&mut rng);
    let ty = format!("{}<Q>", M::NAME);
    let inputs = || format!("eye={:?} target={:?} up={:?} (eye-target distance {:?})", c.eye, c.target, c.up, c.d);
    // the distance by definition: sqrt(|target - eye|^2) must be the generated d
    let dv = [c.target[0] - c.eye[0], c.target[1] - c.eye[1], c.target[2] - c.eye[2]];
    let d2 = dv[0] * dv[0] + dv[1] * dv[1] + dv[2] * dv[2];
    assert!(d2 == c.d * c.d, "generator: distance");
    // non-trivial: the view direction lies in no coordinate plane and up is no coordinate axis
    let nontrivial = nonzeros(&dv) == 3 && nonzeros(&c.up) >= 2;
    for kind in [ViewLh, ViewRh, ViewDeprecated, ModelLh, ModelRh, ModelDeprecated] {
        let api = kind.api();
        let Some(m) = call::<Q, M>(sub, cfg, idx, api, &ty, &inputs, || M::look(kind, v3(c.eye), v3(c.target), v3(c.up))) else { continue };
        let lh = kind.left_handed();
        let mut res = if kind.is_view() { check_view(&m, c.eye, c.target, c.up, c.d, lh, EXACT) } else { check_model(&m, c.eye, c.target, c.up, c.d, lh, EXACT) };
        if res.is_none() && !kind.is_view() {
            // the model matrix is the inverse of vek's own view matrix of the same handedness
            let vk = kind.view_of();
            if let Ok(view) = guarded(|| M::look(vk, v3(c.eye), v3(c.target), v3(c.up))) {
                sub.saw(vk.api());
                res = check_inverse(&m, "model", &raw(&view), "view", 0.0);
            }
        }
        let mut h = H64::new();
        h.s(api).s(M::NAME);
        for q in c.eye.iter().chain(c.target.iter()).chain(c.up.iter()) {
            h.u(q.hash64());
        }
        conclude(sub, cfg, idx, api, &ty, &inputs, &m, res, h.get(), nontrivial);
    }
}

// ------------------------------------------------------------------ exact change of basis

fn basis_exact_case<M: Look<Q>>(sub: &mut Sub, cfg: &Config, idx: u64) {
    let mut rng = Rng::for_case("basis_exact", cfg.case_seed(), idx);
    let r = rational_rotation(&mut rng, 3);
    // basis vectors: rows or columns of the rotation
    let mut b: [[Q; 3]; 3] = if rng.bool() { r } else { [[r[0][0], r[1][0], r[2][0]], [r[0][1], r[1][1], r[2][1]], [r[0][2], r[1][2], r[2][2]]] };
    // improper bases: negate one vector and/or swap two
    let improper = rng.bool();
    if improper {
        let k = rng.usize_below(3);
        for e in b[k].iter_mut() {
            *e = -*e;
        }
    }
    if rng.chance(1, 4) {
        // swap two and negate one: still the same orientation class as before, another arrangement
        b.swap(0, 2);
        for e in b[1].iter_mut() {
            *e = -*e;
        }
    }
    let o = if rng.chance(1, 8) { [Q::ZERO; 3] } else { [small_q(&mut rng, 9, 4), small_q(&mut rng, 9, 4), small_q(&mut rng, 9, 4)] };
    let (i, j, k) = (b[0], b[1], b[2]);
    let ty = format!("{}<Q>", M::NAME);
    let inputs = || format!("origin={:?} i={:?} j={:?} k={:?} ({} basis)", o, i, j, k, if improper { "improper" } else { "proper" });
    let nontrivial = nonzeros(&o) >= 1 && nonzeros(&i) >= 2 && nonzeros(&j) >= 2 && nonzeros(&k) >= 2;
    let hash = |api: &str| {
        let mut h = H64::new();
        h.s(api).s(M::NAME);
        for q in o.iter().chain(i.iter()).chain(j.iter()).chain(k.iter()) {
            h.u(q.hash64());
        }
        h.get()
    };
    let one = Q::ONE;
    let zero = Q::ZERO;
    let add = |a: [Q; 3], b: [Q; 3]| [a[0] + b[0], a[1] + b[1], a[2] + b[2]];
    let local = [[zero, zero, zero], [one, zero, zero], [zero, one, zero], [zero, zero, one]];
    let world = [o, add(o, i), add(o, j), add(o, k)];
    let names = ["origin", "e1", "e2", "e3"];
    let wnames = ["o", "o+i", "o+j", "o+k"];

    let l2b = call::<Q, M>(sub, cfg, idx, "Mat4::local_to_basis", &ty, &inputs, || M::l2b(v3(o), v3(i), v3(j), v3(k)));
    let b2l = call::<Q, M>(sub, cfg, idx, "Mat4::basis_to_local", &ty, &inputs, || M::b2l(v3(o), v3(i), v3(j), v3(k)));
    if let Some(m) = l2b {
        // (that basis_to_local undoes it is judged, and blamed, on basis_to_local below)
        let mut res: Fail = None;
        for n in 0..4 {
            let got = mv(&m, pt(local[n]));
            if got != pt(world[n]) {
                res = Some(("local_to_basis_axes", format!("local_to_basis * {} = {:?}, expected {} = {:?}", names[n], got, wnames[n], pt(world[n]))));
                break;
            }
        }
        conclude(sub, cfg, idx, "Mat4::local_to_basis", &ty, &inputs, &m, res, hash("Mat4::local_to_basis"), nontrivial);
    }
    if let Some(m) = b2l {
        let mut res: Fail = None;
        for n in 0..4 {
            let got = mv(&m, pt(world[n]));
            if got != pt(local[n]) {
                res = Some(("basis_to_local_axes", format!("basis_to_local * ({}) = {:?}, expected {} = {:?}", wnames[n], got, names[n], pt(local[n]))));
                break;
            }
        }
        if res.is_none() {
            if let Some(inv) = l2b {
                res = check_inverse(&m, "basis_to_local", &inv, "local_to_basis", 0.0);
            }
        }
        conclude(sub, cfg, idx, "Mat4::basis_to_local", &ty, &inputs, &m, res, hash("Mat4::basis_to_local"), nontrivial);
    }
}

// ------------------------------------------------------------------ float tier

trait Fl: Copy + Debug + 'static {
    const NAME: &'static str;
    const EPS: f64;
    fn from_f64(x: f64) -> Self;
    fn to_f64(self) -> f64;
}
impl Fl for f32 {
    const NAME: &'static str = "f32";
    const EPS: f64 = f32::EPSILON as f64;
    fn from_f64(x: f64) -> f32 {
        x as f32
    }
    fn to_f64(self) -> f64 {
        self as f64
    }
}
impl Fl for f64 {
    const NAME: &'static str = "f64";
    const EPS: f64 = f64::EPSILON;
    fn from_f64(x: f64) -> f64 {
        x
    }
    fn to_f64(self) -> f64 {
        self
    }
}

fn norm3(v: [f64; 3]) -> f64 {
    (v[0] * v[0] + v[1] * v[1] + v[2] * v[2]).sqrt()
}
fn cross(a: [f64; 3], b: [f64; 3]) -> [f64; 3] {
    [a[1] * b[2] - a[2] * b[1], a[2] * b[0] - a[0] * b[2], a[0] * b[1] - a[1] * b[0]]
}

/// arbitrary cameras: 70% uniform, the rest structured (integer coordinates, camera in the
/// y = 0 plane with up = +Y as in the repo's tests, axis-aligned up, up nearly parallel to the
/// view direction to exercise the guard)
fn gen_float_cam<T: Fl>(rng: &mut Rng) -> ([T; 3], [T; 3], [T; 3]) {
    let mode = rng.below(20);
    let r3 = |rng: &mut Rng, a: f64| [rng.f64_in(-a, a), rng.f64_in(-a, a), rng.f64_in(-a, a)];
    let (eye, target, up): ([f64; 3], [f64; 3], [f64; 3]) = match mode {
        0 | 1 => {
            let i3 = |rng: &mut Rng| [rng.range_i64(-9, 9) as f64, rng.range_i64(-9, 9) as f64, rng.range_i64(-9, 9) as f64];
            (i3(rng), i3(rng), i3(rng))
        }
        2 => {
            let e = [rng.f64_in(-10.0, 10.0), 0.0, rng.f64_in(-10.0, 10.0)];
            let t = [rng.f64_in(-10.0, 10.0), 0.0, rng.f64_in(-10.0, 10.0)];
            (e, t, [0.0, 1.0, 0.0])
        }
        3 | 4 => {
            let mut u = [0.0; 3];
            u[rng.usize_below(3)] = if rng.bool() { 1.0 } else { -1.0 };
            (r3(rng, 10.0), r3(rng, 10.0), u)
        }
        5 => {
            // up almost parallel (or antiparallel) to the view direction
            let e = r3(rng, 10.0);
            let t = r3(rng, 10.0);
            let k = if rng.bool() { 1.0 } else { -1.0 } * rng.f64_in(0.5, 2.0);
            let tiny = 10f64.powf(rng.f64_in(-9.0, -1.0));
            let p = r3(rng, tiny);
            ([e[0], e[1], e[2]], t, [k * (t[0] - e[0]) + p[0], k * (t[1] - e[1]) + p[1], k * (t[2] - e[2]) + p[2]])
        }
        6 | 7 => {
            // very short / very long up vectors (only the direction of up matters), also with a
            // short or long eye-target distance
            let s = 10f64.powf(rng.f64_in(-6.0, 6.0));
            let e = r3(rng, 10.0);
            let dd = 10f64.powf(rng.f64_in(-1.0, 3.0));
            let dirv = r3(rng, 1.0);
            (e, [e[0] + dirv[0] * dd, e[1] + dirv[1] * dd, e[2] + dirv[2] * dd], r3(rng, s))
        }
        10 | 11 => {
            // unit inputs (added after seeded change C09_P): the eye at the origin or on small integers, the target
            // one unit away, `up` a unit vector that is not perpendicular to the view direction - after rounding
            // about half of these have a squared length of exactly 1, which is what an "already normalised, skip
            // the normalisation" shortcut tests (and the cross product of two unit vectors is not unit)
            let unit = |rng: &mut Rng| loop {
                let v = r3(rng, 1.0);
                let l = norm3(v);
                if l > 0.1 {
                    break [v[0] / l, v[1] / l, v[2] / l];
                }
            };
            let e = if rng.bool() { [0.0; 3] } else { [rng.range_i64(-2, 2) as f64, rng.range_i64(-2, 2) as f64, rng.range_i64(-2, 2) as f64] };
            let d = match rng.below(3) {
                0 => *rng.pick(&[[0.0, 0.6, 0.8], [0.6, 0.0, -0.8], [-0.8, 0.6, 0.0], [1.0 / 3.0, 2.0 / 3.0, 2.0 / 3.0], [2.0 / 7.0, 3.0 / 7.0, -6.0 / 7.0]]),
                _ => unit(rng),
            };
            let u = match rng.below(3) {
                0 => *rng.pick(&[[0.0, 1.0, 0.0], [0.0, 0.0, 1.0], [1.0, 0.0, 0.0], [0.0, 0.8, 0.6]]),
                _ => unit(rng),
            };
            (e, [e[0] + d[0], e[1] + d[1], e[2] + d[2]], u)
        }
        8 | 9 => {
            // the whole scene in astronomical or microscopic units (added after seeded change C09_M):
            // eye-target distances from 1e-15 to 1e15 in f32 (1e-100 .. 1e100 in f64), whose squares
            // and fourth powers leave the range of "ordinary" numbers long before the inputs do
            let span = if T::EPS > 1e-10 { 15.0 } else { 100.0 };
            let s = 10f64.powf(rng.f64_in(-span, span));
            let e = r3(rng, 10.0 * s);
            let dirv = r3(rng, 1.0);
            let dd = s * rng.f64_in(0.5, 20.0);
            let us = *rng.pick(&[0.1, 1.0, 10.0]);
            (e, [e[0] + dirv[0] * dd, e[1] + dirv[1] * dd, e[2] + dirv[2] * dd], r3(rng, us))
        }
        _ => {
            let s = *rng.pick(&[0.1, 1.0, 10.0]);
            (r3(rng, 10.0), r3(rng, 10.0), r3(rng, s))
        }
    };
    let c = |v: [f64; 3]| [T::from_f64(v[0]), T::from_f64(v[1]), T::from_f64(v[2])];
    (c(eye), c(target), c(up))
}

const K: f64 = 64.0;

fn look_float_case<T: Fl, M: Look<T>>(sub: &mut Sub, cfg: &Config, idx: u64, subname: &str) {
    let mut rng = Rng::for_case(subname, cfg.case_seed(), idx);
    let (eye_t, target_t, up_t) = gen_float_cam::<T>(&mut rng);
    let f = |v: [T; 3]| [v[0].to_f64(), v[1].to_f64(), v[2].to_f64()];
    let (eye, target, up) = (f(eye_t), f(target_t), f(up_t));
    let ty = format!("{}<{}>", M::NAME, T::NAME);
    let inputs = || format!("eye={:?} target={:?} up={:?}", eye, target, up);
    // conditioning, computed in f64 from the exact input values
    let dv = [target[0] - eye[0], target[1] - eye[1], target[2] - eye[2]];
    let d = norm3(dv);
    let ul = norm3(up);
    for kind in [ViewLh, ViewRh, ModelLh, ModelRh] {
        let api = kind.api();
        // the working range: squares of the distance must be normal numbers of the type
        let (dmin, dmax) = if T::EPS > 1e-10 { (1e-17, 1e17) } else { (1e-140, 1e140) };
        if !(d >= dmin && d <= dmax) || !(ul >= 1e-12) {
            sub.saw(api);
            sub.inconclusive("outside_domain:eye_equals_target_or_zero_up");
            continue;
        }
        let sin_t = norm3(cross(up, dv)) / (ul * d);
        let cos_t = (up[0] * dv[0] + up[1] * dv[1] + up[2] * dv[2]) / (ul * d);
        let angle = sin_t.atan2(cos_t.abs()); // angle between up and the view line, in [0, pi/2]
        // derived tolerance: the cross product up x f loses a factor 1/sin(angle); K = 64
        let rot = K * T::EPS / sin_t.max(1e-300);
        if angle < 1e-3 || rot > sin_t / 4.0 {
            sub.saw(api);
            sub.inconclusive("ill_conditioned:up_nearly_parallel_to_view_direction");
            continue;
        }
        // positions are judged relative to the size of the scene (no absolute term: a microscopic scene
        // must be as accurate, relatively, as an ordinary one)
        let scale = norm3(eye) + norm3(target) + d;
        let tol = Tol { rot, pos: rot * scale, up_len: ul };
        let Some(mt) = call::<T, M>(sub, cfg, idx, api, &ty, &inputs, || M::look(kind, v3(eye_t), v3(target_t), v3(up_t))) else { continue };
        let conv = |m: &M4<T>| {
            let mut o = [[0.0f64; 4]; 4];
            for i in 0..4 {
                for j in 0..4 {
                    o[i][j] = m[i][j].to_f64();
                }
            }
            o
        };
        let m = conv(&mt);
        let lh = kind.left_handed();
        let mut res = if m.iter().flatten().any(|x| !x.is_finite()) {
            Some(("non_finite_entry", "the matrix has a NaN or infinite entry".to_string()))
        } else if kind.is_view() {
            check_view(&m, eye, target, up, d, lh, tol)
        } else {
            check_model(&m, eye, target, up, d, lh, tol)
        };
        if res.is_none() && !kind.is_view() {
            let vk = kind.view_of();
            if let Ok(view) = guarded(|| M::look(vk, v3(eye_t), v3(target_t), v3(up_t))) {
                sub.saw(vk.api());
                res = check_inverse2(&m, "model", &conv(&raw(&view)), "view", 8.0 * tol.rot, 8.0 * tol.pos);
            }
        }
        let mut h = H64::new();
        h.s(api).s(M::NAME).s(T::NAME);
        for x in eye.iter().chain(target.iter()).chain(up.iter()) {
            h.f(*x);
        }
        // non-trivial: view direction in no coordinate plane, up no coordinate axis
        let nontrivial = dv.iter().all(|x| *x != 0.0) && up.iter().filter(|x| **x != 0.0).count() >= 2;
        let inputs2 = || format!("{} (angle between up and view line {:.3e} rad, tolerance rot={:.3e} pos={:.3e})", inputs(), angle, tol.rot, tol.pos);
        conclude(sub, cfg, idx, api, &ty, &inputs2, &m, res, h.get(), nontrivial);
    }
}

fn main() {
    let cfg = Config::from_args(PROP);
    let mut rep = Report::new(cfg.clone());
    let n = cfg.n(5_000, 500_000);

    {
        let proto = Sub::new(
            "look_at_exact",
            "per index one camera generated from a rational orthonormal frame (rows s,u,f of a rational rotation from integer quaternions |.|<=3), rational eye (|n|<=9, d<=4; 1/8 at the origin), distance d>0, target = eye + d*f, up = alpha*u + beta*f (alpha>0, beta 0 in 1/4) so vek's two normalisations stay rational; look_at_lh/_rh/look_at and model_look_at_lh/_rh/model_look_at in both layouts; view: last row (0,0,0,1), upper 3x3 orthogonal, det +1, M*eye = 0, M*target = (0,0,+d LH | -d RH), M*up has x = 0, y > 0; model: rigid, origin -> eye, (0,0,+-d) -> target, up in local coordinates x = 0, y > 0, model*view = view*model = I (naive products); non-trivial = view direction in no coordinate plane and up not a coordinate axis; distinct by (entry point, layout, eye, target, up)",
        )
        .with_floor(n * 12 * 3 / 10)
        .require(&["Mat4::look_at_lh", "Mat4::look_at_rh", "Mat4::look_at", "Mat4::model_look_at_lh", "Mat4::model_look_at_rh", "Mat4::model_look_at"]);
        rep.push(run_cases(&cfg, proto, n, |s, i| {
            look_exact_case::<Rows4<Q>>(s, &cfg, i);
            look_exact_case::<Cols4<Q>>(s, &cfg, i);
        }));
    }
    {
        let proto = Sub::new(
            "basis_exact",
            "per index one rational orthonormal triple (rows or columns of a rational rotation; half of them made improper by negating one vector; 1/4 rearranged) and a rational origin (1/8 zero); local_to_basis must map 0,e1,e2,e3 to o,o+i,o+j,o+k, basis_to_local must map o,o+i,o+j,o+k to 0,e1,e2,e3 and both naive products basis_to_local*local_to_basis, local_to_basis*basis_to_local must be the identity, in both layouts; non-trivial = origin != 0 and no basis vector is a coordinate axis; distinct by (entry point, layout, origin, basis)",
        )
        .with_floor(n * 4 * 3 / 10)
        .require(&["Mat4::basis_to_local", "Mat4::local_to_basis"]);
        rep.push(run_cases(&cfg, proto, n, |s, i| {
            basis_exact_case::<Rows4<Q>>(s, &cfg, i);
            basis_exact_case::<Cols4<Q>>(s, &cfg, i);
        }));
    }
    {
        let rule = |t: &str| {
            format!(
                "{t} tier: per index one arbitrary camera (70% uniform in [-10,10]^3 with |up| scale 0.1/1/10, the rest structured: integer coordinates, y = 0 plane with up = +Y, axis-aligned up, up nearly parallel to the view line) through look_at_lh/_rh and model_look_at_lh/_rh in both layouts; same conditions as look_at_exact evaluated in f64 on the raw entries with tolerance rot = 64*eps({t})/sin(angle(up, view line)), positions rot*(1+|eye|+|target|); eye-target distance < 0.1 or |up| < 1e-3 -> outside_domain; angle < 1e-3 rad or rot > sin/4 -> ill_conditioned; non-trivial = view direction in no coordinate plane and up not a coordinate axis; distinct by (entry point, layout, inputs)"
            )
        };
        let proto = Sub::new("look_at_f32", &rule("f32")).with_floor(n * 8 * 3 / 10).require(&["Mat4::look_at_lh", "Mat4::look_at_rh", "Mat4::model_look_at_lh", "Mat4::model_look_at_rh"]);
        rep.push(run_cases(&cfg, proto, n, |s, i| {
            look_float_case::<f32, Rows4<f32>>(s, &cfg, i, "look_at_f32");
            look_float_case::<f32, Cols4<f32>>(s, &cfg, i, "look_at_f32");
        }));
        let proto = Sub::new("look_at_f64", &rule("f64")).with_floor(n * 8 * 3 / 10).require(&["Mat4::look_at_lh", "Mat4::look_at_rh", "Mat4::model_look_at_lh", "Mat4::model_look_at_rh"]);
        rep.push(run_cases(&cfg, proto, n, |s, i| {
            look_float_case::<f64, Rows4<f64>>(s, &cfg, i, "look_at_f64");
            look_float_case::<f64, Cols4<f64>>(s, &cfg, i, "look_at_f64");
        }));
    }
    std::process::exit(rep.finish());
}

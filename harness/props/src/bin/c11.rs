//! C11 — spatial vector functions satisfy their geometric definitions.
//!
//! * `poly_trace`: vek's real code runs once on free `Sym` symbols; every logged output
//!   expression is compared (polynomial identity test over GF(2^61-1), `sqrt` as an
//!   uninterpreted function) with the textbook definition: dot, squared/plain magnitude and
//!   distance, the normalisation forms, `reflected`, `cross` (components, bilinearity,
//!   anticommutativity, orthogonality, Lagrange), `determine_side`, signed area, `homogenized`.
//! * `*_q`: exact rationals, true ordering: rational-length vectors, the five normalisation
//!   forms, RelativeEq bands hit exactly, mirror law, Snell (k > 0, k = 0, k < 0 exactly),
//!   `face_forward` incl. dot = 0, 2-D side/areas against a geometric construction, homogenisation.
//! * `*_float`: f32/f64 with derived tolerances: bands on exactly representable inputs,
//!   normalisation, `angle_between`, vector `slerp`; exactly parallel slerp inputs separately.

use approx::RelativeEq;
use monitors::fp::Fp;
use monitors::gen::{biased_q, rational_length_vec2, rational_length_vec3, small_q, small_q_nonzero, small_q_pos};
use monitors::prng::{Rng, H64};
use monitors::report::{guarded, run_cases, take_poison, Config, Report, Sub};
use monitors::sym::{sym_reset, EvalDom, Op, Sym};
use monitors::Q;
use num_traits::real::Real;
use props::*;
use vek::ops::{Clamp, Lerp, Slerp};
use vek::vec::repr_c::{Extent2, Extent3, Vec16, Vec2, Vec3, Vec32, Vec4, Vec64, Vec8};

const PROP: &str = "C11";

// ------------------------------------------------------------------ element / kind plumbing

trait Elt: Real + RelativeEq<Epsilon = Self> + Clamp + Lerp<Self, Output = Self> + std::fmt::Debug + 'static {}
impl<T> Elt for T where T: Real + RelativeEq<Epsilon = T> + Clamp + Lerp<T, Output = T> + std::fmt::Debug + 'static {}

/// Thin forwarding layer over vek's *inherent* spatial methods so that workloads can be
/// written once for the nine spatial kinds.
trait Sp<T: Elt>: VecX<T> + Copy {
    fn k_dot(self, v: Self) -> T;
    fn k_mag2(self) -> T;
    fn k_mag(self) -> T;
    fn k_dist2(self, v: Self) -> T;
    fn k_dist(self, v: Self) -> T;
    fn k_normalized(self) -> Self;
    fn k_try_normalized(self) -> Option<Self>;
    fn k_normalize(&mut self);
    fn k_normalize_get(&mut self) -> T;
    fn k_normalized_get(self) -> (Self, T);
    fn k_is_normalized(self) -> bool;
    fn k_is_approx_zero(self) -> bool;
    fn k_is_close_to(self, x: T) -> bool;
    fn k_angle(self, v: Self) -> T;
    fn k_angle_deg(self, v: Self) -> T;
    fn k_reflected(self, n: Self) -> Self;
    fn k_refracted(self, n: Self, eta: T) -> Self;
    fn k_face_forward(self, incident: Self, reference: Self) -> Self;
}

macro_rules! impl_sp {
    ($($V:ident),+) => {$(
        impl<T: Elt> Sp<T> for $V<T> {
            fn k_dot(self, v: Self) -> T { $V::dot(self, v) }
            fn k_mag2(self) -> T { $V::magnitude_squared(self) }
            fn k_mag(self) -> T { $V::magnitude(self) }
            fn k_dist2(self, v: Self) -> T { $V::distance_squared(self, v) }
            fn k_dist(self, v: Self) -> T { $V::distance(self, v) }
            fn k_normalized(self) -> Self { $V::normalized(self) }
            fn k_try_normalized(self) -> Option<Self> { $V::try_normalized(self) }
            fn k_normalize(&mut self) { $V::normalize(self) }
            fn k_normalize_get(&mut self) -> T { $V::normalize_and_get_magnitude(self) }
            fn k_normalized_get(self) -> (Self, T) { $V::normalized_and_get_magnitude(self) }
            fn k_is_normalized(self) -> bool { $V::is_normalized(self) }
            fn k_is_approx_zero(self) -> bool { $V::is_approx_zero(self) }
            fn k_is_close_to(self, x: T) -> bool { $V::is_magnitude_close_to(self, x) }
            fn k_angle(self, v: Self) -> T { $V::angle_between(self, v) }
            #[allow(deprecated)]
            fn k_angle_deg(self, v: Self) -> T { $V::angle_between_degrees(self, v) }
            fn k_reflected(self, n: Self) -> Self { $V::reflected(self, n) }
            fn k_refracted(self, n: Self, eta: T) -> Self { $V::refracted(self, n, eta) }
            fn k_face_forward(self, incident: Self, reference: Self) -> Self { $V::face_forward(self, incident, reference) }
        }
    )+};
}
impl_sp!(Vec2, Vec3, Vec4, Vec8, Vec16, Vec32, Vec64, Extent2, Extent3);

/// run `$f::<Kind<$T>>(args)` for all nine spatial kinds
macro_rules! all_kinds {
    ($f:ident, $T:ty, $($a:expr),*) => {
        $f::<Vec2<$T>>($($a),*); $f::<Vec3<$T>>($($a),*); $f::<Vec4<$T>>($($a),*); $f::<Vec8<$T>>($($a),*);
        $f::<Vec16<$T>>($($a),*); $f::<Vec32<$T>>($($a),*); $f::<Vec64<$T>>($($a),*);
        $f::<Extent2<$T>>($($a),*); $f::<Extent3<$T>>($($a),*);
    };
}
/// the kinds used by the float tiers (Vec16/32/64 only run on Sym and Q)
macro_rules! small_kinds {
    ($f:ident, $T:ty, $($a:expr),*) => {
        $f::<$T, Vec2<$T>>($($a),*); $f::<$T, Vec3<$T>>($($a),*); $f::<$T, Vec4<$T>>($($a),*);
        $f::<$T, Vec8<$T>>($($a),*); $f::<$T, Extent2<$T>>($($a),*); $f::<$T, Extent3<$T>>($($a),*);
    };
}
const ALL_KINDS: [&str; 9] = ["Vec2", "Vec3", "Vec4", "Vec8", "Vec16", "Vec32", "Vec64", "Extent2", "Extent3"];
const SMALL_KINDS: [&str; 6] = ["Vec2", "Vec3", "Vec4", "Vec8", "Extent2", "Extent3"];

fn req(sub: Sub, kinds: &[&str], methods: &[&str]) -> Sub {
    let names: Vec<String> = kinds.iter().flat_map(|k| methods.iter().map(move |m| format!("{}::{}", k, m))).collect();
    let refs: Vec<&str> = names.iter().map(|s| s.as_str()).collect();
    sub.require(&refs)
}

// ------------------------------------------------------------------ verdict plumbing

struct Fail {
    api: String,
    class: &'static str,
    what: &'static str,
    detail: String,
}
enum Stop {
    Fail(Fail),
    Inc(String),
}
/// Ok(nontrivial) = held
type Verdict = Result<bool, Stop>;

struct Cx<'a> {
    sub: &'a mut Sub,
    cfg: &'a Config,
    idx: u64,
    ty: &'static str,
    kind: &'static str,
}
impl<'a> Cx<'a> {
    fn api(&self, m: &str) -> String {
        match m.split_once("::") {
            Some((tr, f)) => format!("<{} as {}>::{}", self.kind, tr, f),
            None => format!("{}::{}", self.kind, m),
        }
    }
    /// one guarded call into vek
    fn call<R>(&mut self, m: &str, inputs: &dyn Fn() -> String, f: impl FnOnce() -> R) -> Result<R, Stop> {
        let api = self.api(m);
        self.sub.saw(&api);
        guarded(f).map_err(|e| Stop::Fail(Fail { api, class: "panic", what: "unexpected_panic", detail: format!("{} panicked: {}", inputs(), e) }))
    }
    fn fail(&self, m: &str, what: &'static str, detail: String) -> Stop {
        Stop::Fail(Fail { api: self.api(m), class: "wrong_value", what, detail })
    }
    fn conclude(&mut self, hash: u64, v: Verdict) {
        // poison anywhere (vek side or oracle side) makes the case inconclusive, whatever was concluded
        if let Some(p) = take_poison() {
            if std::env::var_os("C11_DEBUG").is_some() {
                eprintln!("poison {} {} {} idx {} pat {}", self.sub.name, self.kind, self.ty, self.idx, self.idx % NPAT);
            }
            self.sub.inconclusive(&format!("poison:{}", p));
            return;
        }
        match v {
            Ok(nt) => self.sub.held(hash, nt),
            Err(Stop::Inc(r)) => self.sub.inconclusive(&r),
            Err(Stop::Fail(f)) => {
                let vio = violation(PROP, self.sub, &f.api, self.ty, f.class, f.what, f.detail, self.cfg.case_seed(), self.idx);
                self.sub.violated(vio);
            }
        }
    }
}

macro_rules! ensure {
    ($cx:expr, $cond:expr, $m:expr, $what:expr, $($fmt:tt)+) => {
        if !($cond) {
            return Err($cx.fail($m, $what, format!($($fmt)+)));
        }
    };
}

fn drive(sub: &mut Sub, cfg: &Config, idx: u64, subname: &str, ty: &'static str, kind: &'static str, body: impl FnOnce(&mut Cx, &mut Rng, &mut H64) -> Verdict) {
    let _ = take_poison();
    monitors::q::clear_angles();
    let mut rng = Rng::for_case(&format!("{}/{}/{}", subname, kind, ty), cfg.case_seed(), idx);
    let mut h = H64::new();
    h.s(kind).s(ty);
    let mut cx = Cx { sub, cfg, idx, ty, kind };
    let v = match guarded(|| body(&mut cx, &mut rng, &mut h)) {
        Ok(v) => v,
        Err(e) => {
            if monitors::report::poisoned().is_none() {
                eprintln!("C11 harness panic in {}/{}/{} index {}: {}", subname, kind, ty, idx, e);
            }
            Err(Stop::Inc("harness_panic".into()))
        }
    };
    cx.conclude(h.get(), v);
}

// ------------------------------------------------------------------ exact helpers (oracle side)

fn p2(e: i32) -> Q {
    if e >= 0 {
        Q::new(1i128 << e, 1)
    } else {
        Q::new(1, 1i128 << (-e))
    }
}
fn dotq(a: &[Q], b: &[Q]) -> Q {
    let mut s = Q::ZERO;
    for i in 0..a.len() {
        s = s + a[i] * b[i];
    }
    s
}
fn hq(h: &mut H64, xs: &[Q]) {
    for x in xs {
        h.u(x.hash64());
    }
}
fn vfrom<T: Copy, V: VecX<T>>(xs: &[T]) -> V {
    V::from_fn(|i| xs[i])
}
fn nonzero_count(xs: &[Q]) -> usize {
    xs.iter().filter(|x| !x.is_zero()).count()
}
fn rand_vec_q(rng: &mut Rng, n: usize) -> Vec<Q> {
    let (m, d) = if n <= 8 { (9, 6) } else { (5, 3) };
    (0..n).map(|_| biased_q(rng, m, d)).collect()
}

/// the algorithm `approx` documents for `relative_eq`, evaluated exactly
fn rel_eq_exact(a: Q, b: Q, eps: Q, max_rel: Q) -> bool {
    if a == b {
        return true;
    }
    let d = (a - b).abs_q();
    if d <= eps {
        return true;
    }
    let l = a.abs_q().max_q(b.abs_q());
    d <= l * max_rel
}

/// rational point on the unit sphere S^(n-1) by inverse stereographic projection
fn unit_n(rng: &mut Rng, n: usize) -> Vec<Q> {
    let m = if n <= 4 { 4 } else if n <= 8 { 2 } else { 1 };
    let t: Vec<i64> = (0..n - 1).map(|_| rng.range_i64(-m, m)).collect();
    let tt: i64 = t.iter().map(|x| x * x).sum();
    let d = 1 + tt;
    let mut u: Vec<Q> = t.iter().map(|x| Q::frac(2 * x, d)).collect();
    u.push(Q::frac(tt - 1, d));
    rng.shuffle(&mut u);
    if rng.bool() {
        for x in u.iter_mut() {
            *x = -*x;
        }
    }
    debug_assert!(dotq(&u, &u) == Q::ONE);
    u
}

/// n-vector of rational length (Pythagorean tuples; for n = 2, 3 also the shared generators)
fn rational_len_n(rng: &mut Rng, n: usize) -> (Vec<Q>, Q) {
    if n == 2 && rng.bool() {
        let (v, l) = rational_length_vec2(rng, 6);
        return (v.to_vec(), l);
    }
    if n == 3 && rng.bool() {
        let (v, l) = rational_length_vec3(rng, 4);
        return (v.to_vec(), l);
    }
    let len = small_q_pos(rng, 6, 3);
    let mut u = unit_n(rng, n);
    // sometimes a lower-dimensional tuple extended with zeros
    if n > 2 && rng.chance(1, 4) {
        let k = 2 + rng.usize_below(n - 2);
        let w = unit_n(rng, k);
        let mut pos: Vec<usize> = (0..n).collect();
        rng.shuffle(&mut pos);
        u = vec![Q::ZERO; n];
        for (j, x) in w.iter().enumerate() {
            u[pos[j]] = *x;
        }
    }
    (u.iter().map(|x| *x * len).collect(), len)
}

/// rational orthonormal pair in n dimensions: two columns of a Householder reflection
fn ortho_pair(rng: &mut Rng, n: usize) -> (Vec<Q>, Vec<Q>) {
    let mut u = vec![0i64; n];
    let cnt = 1 + rng.usize_below(4.min(n));
    for _ in 0..cnt {
        let j = rng.usize_below(n);
        u[j] = rng.range_i64(-3, 3);
    }
    let uu: i64 = u.iter().map(|x| x * x).sum();
    let a = rng.usize_below(n);
    let mut b = rng.usize_below(n - 1);
    if b >= a {
        b += 1;
    }
    let col = |j: usize| -> Vec<Q> {
        (0..n)
            .map(|i| {
                let delta = if i == j { Q::ONE } else { Q::ZERO };
                if uu == 0 {
                    delta
                } else {
                    delta - Q::frac(2 * u[j] * u[i], uu)
                }
            })
            .collect()
    };
    let (nv, tv) = (col(a), col(b));
    debug_assert!(dotq(&nv, &nv) == Q::ONE && dotq(&tv, &tv) == Q::ONE && dotq(&nv, &tv).is_zero());
    (nv, tv)
}

/// rational point (c, s) of the unit circle, boundary-biased
fn circle_point(rng: &mut Rng) -> (Q, Q) {
    match rng.below(12) {
        0 => (Q::int(-1), Q::ZERO),
        1 => (Q::ONE, Q::ZERO),
        2 => (Q::ZERO, Q::ONE),
        _ => {
            let p = rng.range_i64(1, 7);
            let q = rng.range_i64(1, 7);
            let d = p * p + q * q;
            let mut c = Q::frac(q * q - p * p, d);
            let mut s = Q::frac(2 * p * q, d);
            if rng.bool() {
                c = -c;
            }
            if rng.bool() {
                s = -s;
            }
            (c, s)
        }
    }
}

// ------------------------------------------------------------------ exactly-representable element types

trait Exact: Elt {
    const TY: &'static str;
    const IS_FLOAT: bool;
    /// exact conversion or None
    fn from_q(q: Q) -> Option<Self>;
    fn repr(q: Q) -> bool {
        Self::from_q(q).is_some()
    }
    /// the type's RelativeEq default epsilon (= default max_relative), as an exact rational
    fn eps_q() -> Q;
}
impl Exact for Q {
    const TY: &'static str = "Q";
    const IS_FLOAT: bool = false;
    fn from_q(q: Q) -> Option<Q> {
        Some(q)
    }
    fn eps_q() -> Q {
        p2(-52)
    }
}
impl Exact for f64 {
    const TY: &'static str = "f64";
    const IS_FLOAT: bool = true;
    fn from_q(q: Q) -> Option<f64> {
        let f = q.to_f64();
        if f.is_finite() && (f == 0.0 || f.abs() >= f64::MIN_POSITIVE) && Q::from_f64_exact(f) == Some(q) {
            Some(f)
        } else {
            None
        }
    }
    fn eps_q() -> Q {
        p2(-52)
    }
}
impl Exact for f32 {
    const TY: &'static str = "f32";
    const IS_FLOAT: bool = true;
    fn from_q(q: Q) -> Option<f32> {
        let f = q.to_f64() as f32;
        if f.is_finite() && (f == 0.0 || f.abs() >= f32::MIN_POSITIVE) && Q::from_f64_exact(f as f64) == Some(q) {
            Some(f)
        } else {
            None
        }
    }
    fn eps_q() -> Q {
        p2(-23)
    }
}

trait Fl: Exact {
    const EPS: f64;
    const PI_T: f64;
    fn f(self) -> f64;
    fn of(x: f64) -> Self;
}
impl Fl for f32 {
    const EPS: f64 = f32::EPSILON as f64;
    const PI_T: f64 = std::f32::consts::PI as f64;
    fn f(self) -> f64 {
        self as f64
    }
    fn of(x: f64) -> f32 {
        x as f32
    }
}
impl Fl for f64 {
    const EPS: f64 = f64::EPSILON;
    const PI_T: f64 = std::f64::consts::PI;
    fn f(self) -> f64 {
        self
    }
    fn of(x: f64) -> f64 {
        x
    }
}

// ------------------------------------------------------------------ poly_trace (Sym)

fn symv<V: VecX<Sym>>(base: usize) -> V {
    V::from_fn(|i| Sym::var((base + i) as u32))
}
fn fsqrt(x: Fp) -> Fp {
    <Fp as EvalDom>::func(Op::Sqrt, x).expect("Fp sqrt model")
}
fn fv(f: &dyn Fn(u32) -> Fp, base: usize, n: usize) -> Vec<Fp> {
    (0..n).map(|i| f((base + i) as u32)).collect()
}
fn fdot(a: &[Fp], b: &[Fp]) -> Fp {
    let mut s = Fp::ZERO;
    for i in 0..a.len() {
        s = s.add(a[i].mul(b[i]));
    }
    s
}
fn fsub(a: &[Fp], b: &[Fp]) -> Vec<Fp> {
    (0..a.len()).map(|i| a[i].sub(b[i])).collect()
}
fn fcross(a: &[Fp], b: &[Fp]) -> Vec<Fp> {
    // (a x b)_i = sum_jk eps_ijk a_j b_k
    let mut out = vec![Fp::ZERO; 3];
    for i in 0..3 {
        let (j, k) = ((i + 1) % 3, (i + 2) % 3);
        out[i] = a[j].mul(b[k]).sub(a[k].mul(b[j]));
    }
    out
}

/// one traced execution: `run` builds the symbolic inputs, calls vek and returns the logged outputs
fn trace(sub: &mut Sub, cfg: &Config, api: &str, case: &str, nvars: usize, run: impl FnOnce() -> Vec<Sym>, reference: &dyn Fn(&dyn Fn(u32) -> Fp) -> Vec<Fp>) {
    sym_reset();
    let _ = take_poison();
    match guarded(run) {
        Ok(o) => {
            decide_pit(PROP, sub, api, "Sym", case, &o, nvars, cfg.case_seed(), 0, reference);
        }
        Err(e) => {
            sub.saw(api);
            if let Some(p) = take_poison() {
                sub.inconclusive(&format!("poison:{}", p));
            } else {
                let v = violation(PROP, sub, api, "Sym", "panic", "unexpected_panic", format!("{} on free symbols panicked: {}", api, e), cfg.case_seed(), 0);
                sub.violated(v);
            }
        }
    }
}

fn trace_generic<V: Sp<Sym>>(sub: &mut Sub, cfg: &Config) {
    let n = V::DIM;
    let k = V::NAME;
    trace(sub, cfg, &format!("{k}::dot"), "dot_is_sum_of_products", 2 * n, || { let a = symv::<V>(0); let b = symv::<V>(n); vec![a.k_dot(b)] },
        &move |f| vec![fdot(&fv(f, 0, n), &fv(f, n, n))]);
    trace(sub, cfg, &format!("{k}::magnitude_squared"), "sum_of_squares", n, || vec![symv::<V>(0).k_mag2()],
        &move |f| { let a = fv(f, 0, n); vec![fdot(&a, &a)] });
    trace(sub, cfg, &format!("{k}::magnitude"), "sqrt_of_sum_of_squares", n, || vec![symv::<V>(0).k_mag()],
        &move |f| { let a = fv(f, 0, n); vec![fsqrt(fdot(&a, &a))] });
    trace(sub, cfg, &format!("{k}::distance_squared"), "sum_of_squared_differences", 2 * n, || { let a = symv::<V>(0); let b = symv::<V>(n); vec![a.k_dist2(b)] },
        &move |f| { let d = fsub(&fv(f, 0, n), &fv(f, n, n)); vec![fdot(&d, &d)] });
    trace(sub, cfg, &format!("{k}::distance"), "sqrt_of_sum_of_squared_differences", 2 * n, || { let a = symv::<V>(0); let b = symv::<V>(n); vec![a.k_dist(b)] },
        &move |f| { let d = fsub(&fv(f, 0, n), &fv(f, n, n)); vec![fsqrt(fdot(&d, &d))] });
    let norm_ref = move |f: &dyn Fn(u32) -> Fp, with_mag: bool| -> Vec<Fp> {
        let a = fv(f, 0, n);
        let m = fsqrt(fdot(&a, &a));
        let mut o: Vec<Fp> = a.iter().map(|x| x.div(m).unwrap_or(Fp::ZERO)).collect();
        if with_mag {
            o.push(m);
        }
        o
    };
    trace(sub, cfg, &format!("{k}::normalized"), "components_over_magnitude", n, || symv::<V>(0).k_normalized().to_vec(), &move |f| norm_ref(f, false));
    trace(sub, cfg, &format!("{k}::normalize"), "components_over_magnitude", n, || { let mut a = symv::<V>(0); a.k_normalize(); a.to_vec() }, &move |f| norm_ref(f, false));
    trace(sub, cfg, &format!("{k}::normalize_and_get_magnitude"), "components_over_magnitude_and_magnitude", n,
        || { let mut a = symv::<V>(0); let m = a.k_normalize_get(); let mut o = a.to_vec(); o.push(m); o }, &move |f| norm_ref(f, true));
    trace(sub, cfg, &format!("{k}::normalized_and_get_magnitude"), "components_over_magnitude_and_magnitude", n,
        || { let (u, m) = symv::<V>(0).k_normalized_get(); let mut o = u.to_vec(); o.push(m); o }, &move |f| norm_ref(f, true));
    trace(sub, cfg, &format!("{k}::reflected"), "v_minus_2_v_dot_n_n", 2 * n, || { let v = symv::<V>(0); let nn = symv::<V>(n); v.k_reflected(nn).to_vec() },
        &move |f| {
            let v = fv(f, 0, n);
            let nn = fv(f, n, n);
            let d2 = fdot(&v, &nn).mul(Fp::from_i64(2));
            (0..n).map(|i| v[i].sub(d2.mul(nn[i]))).collect()
        });
}

fn trace_special(sub: &mut Sub, cfg: &Config) {
    type V3 = Vec3<Sym>;
    let zeros3 = |_: &dyn Fn(u32) -> Fp| vec![Fp::ZERO; 3];
    let zero1 = |_: &dyn Fn(u32) -> Fp| vec![Fp::ZERO];
    let add = |a: Sym, b: Sym| Sym::bin(Op::Add, a, b);
    let sub_ = |a: Sym, b: Sym| Sym::bin(Op::Sub, a, b);
    let mul = |a: Sym, b: Sym| Sym::bin(Op::Mul, a, b);
    trace(sub, cfg, "Vec3::cross", "determinant_components", 6, || symv::<V3>(0).cross(symv::<V3>(3)).to_vec(), &|f| fcross(&fv(f, 0, 3), &fv(f, 3, 3)));
    trace(sub, cfg, "Vec3::cross", "anticommutative", 6, || {
        let (a, b) = (symv::<V3>(0), symv::<V3>(3));
        let (l, r) = (a.cross(b), b.cross(a));
        (0..3).map(|i| add(l.get(i), r.get(i))).collect()
    }, &zeros3);
    trace(sub, cfg, "Vec3::cross", "bilinear_add_left", 9, || {
        let (a, b, c) = (symv::<V3>(0), symv::<V3>(3), symv::<V3>(6));
        let ab = V3::from_fn(|i| add(a.get(i), b.get(i)));
        let (l, r1, r2) = (ab.cross(c), a.cross(c), b.cross(c));
        (0..3).map(|i| sub_(l.get(i), add(r1.get(i), r2.get(i)))).collect()
    }, &zeros3);
    trace(sub, cfg, "Vec3::cross", "bilinear_add_right", 9, || {
        let (a, b, c) = (symv::<V3>(0), symv::<V3>(3), symv::<V3>(6));
        let bc = V3::from_fn(|i| add(b.get(i), c.get(i)));
        let (l, r1, r2) = (a.cross(bc), a.cross(b), a.cross(c));
        (0..3).map(|i| sub_(l.get(i), add(r1.get(i), r2.get(i)))).collect()
    }, &zeros3);
    trace(sub, cfg, "Vec3::cross", "bilinear_scale_left", 7, || {
        let (a, b, s) = (symv::<V3>(0), symv::<V3>(3), Sym::var(6));
        let sa = V3::from_fn(|i| mul(s, a.get(i)));
        let (l, r) = (sa.cross(b), a.cross(b));
        (0..3).map(|i| sub_(l.get(i), mul(s, r.get(i)))).collect()
    }, &zeros3);
    trace(sub, cfg, "Vec3::cross", "bilinear_scale_right", 7, || {
        let (a, b, s) = (symv::<V3>(0), symv::<V3>(3), Sym::var(6));
        let sb = V3::from_fn(|i| mul(s, b.get(i)));
        let (l, r) = (a.cross(sb), a.cross(b));
        (0..3).map(|i| sub_(l.get(i), mul(s, r.get(i)))).collect()
    }, &zeros3);
    trace(sub, cfg, "Vec3::cross", "orthogonal_to_first_operand", 6, || { let (a, b) = (symv::<V3>(0), symv::<V3>(3)); vec![a.dot(a.cross(b))] }, &zero1);
    trace(sub, cfg, "Vec3::cross", "orthogonal_to_second_operand", 6, || { let (a, b) = (symv::<V3>(0), symv::<V3>(3)); vec![b.dot(a.cross(b))] }, &zero1);
    trace(sub, cfg, "Vec3::cross", "lagrange_identity", 6, || { let (a, b) = (symv::<V3>(0), symv::<V3>(3)); vec![a.cross(b).magnitude_squared()] }, &|f| {
        let (a, b) = (fv(f, 0, 3), fv(f, 3, 3));
        let ab = fdot(&a, &b);
        vec![fdot(&a, &a).mul(fdot(&b, &b)).sub(ab.mul(ab))]
    });
    // Vec2: point c = self, segment a -> b; variables c = v0,v1  a = v2,v3  b = v4,v5
    type V2 = Vec2<Sym>;
    let cross2 = |f: &dyn Fn(u32) -> Fp, c: usize, a: usize, b: usize| -> Fp {
        let (c, a, b) = (fv(f, c, 2), fv(f, a, 2), fv(f, b, 2));
        b[0].sub(a[0]).mul(c[1].sub(a[1])).sub(b[1].sub(a[1]).mul(c[0].sub(a[0])))
    };
    trace(sub, cfg, "Vec2::determine_side", "cross2d_of_ab_and_ac", 6, || vec![symv::<V2>(0).determine_side(symv::<V2>(2), symv::<V2>(4))], &move |f| vec![cross2(f, 0, 2, 4)]);
    // signed_triangle_area(a, b, c) with a = v0,v1 b = v2,v3 c = v4,v5
    trace(sub, cfg, "Vec2::signed_triangle_area", "half_cross2d", 6, || vec![V2::signed_triangle_area(symv::<V2>(0), symv::<V2>(2), symv::<V2>(4))],
        &move |f| vec![cross2(f, 4, 0, 2).div(Fp::from_i64(2)).unwrap()]);
    type V4 = Vec4<Sym>;
    let hom_ref = |f: &dyn Fn(u32) -> Fp| -> Vec<Fp> { let v = fv(f, 0, 4); v.iter().map(|x| x.div(v[3]).unwrap_or(Fp::ZERO)).collect() };
    trace(sub, cfg, "Vec4::homogenized", "components_over_w", 4, || symv::<V4>(0).homogenized().to_vec(), &hom_ref);
    trace(sub, cfg, "Vec4::homogenize", "components_over_w", 4, || { let mut v = symv::<V4>(0); v.homogenize(); v.to_vec() }, &hom_ref);
}

// ------------------------------------------------------------------ exact tiers (Q)

fn identities_q<V: Sp<Q>>(sub: &mut Sub, cfg: &Config, idx: u64) {
    drive(sub, cfg, idx, "identities_q", "Q", V::NAME, |cx, rng, h| {
        let n = V::DIM;
        let a = rand_vec_q(rng, n);
        let b = rand_vec_q(rng, n);
        hq(h, &a);
        hq(h, &b);
        let (va, vb): (V, V) = (vfrom(&a), vfrom(&b));
        let inp = || format!("a={:?} b={:?}", a, b);
        let d = cx.call("dot", &inp, || va.k_dot(vb))?;
        let e = dotq(&a, &b);
        ensure!(cx, d == e, "dot", "not_sum_of_products", "{}: dot = {:?}, expected {:?}", inp(), d, e);
        let m2 = cx.call("magnitude_squared", &inp, || va.k_mag2())?;
        let e = dotq(&a, &a);
        ensure!(cx, m2 == e, "magnitude_squared", "not_sum_of_squares", "{}: magnitude_squared(a) = {:?}, expected {:?}", inp(), m2, e);
        let d2 = cx.call("distance_squared", &inp, || va.k_dist2(vb))?;
        let diff: Vec<Q> = (0..n).map(|i| a[i] - b[i]).collect();
        let e = dotq(&diff, &diff);
        ensure!(cx, d2 == e, "distance_squared", "not_sum_of_squared_differences", "{}: distance_squared = {:?}, expected {:?}", inp(), d2, e);
        let r = cx.call("reflected", &inp, || va.k_reflected(vb))?.to_vec();
        let two_d = dotq(&a, &b) * Q::int(2);
        let e: Vec<Q> = (0..n).map(|i| a[i] - two_d * b[i]).collect();
        ensure!(cx, r == e, "reflected", "not_v_minus_2_v_dot_n_n", "v={:?} n={:?}: reflected = {:?}, expected v - 2(v.n)n = {:?}", a, b, r, e);
        Ok(nonzero_count(&a) >= 2 && nonzero_count(&b) >= 2)
    });
}

fn cross3q(a: &[Q], b: &[Q]) -> Vec<Q> {
    // Levi-Civita form of the determinant definition
    (0..3).map(|i| { let (j, k) = ((i + 1) % 3, (i + 2) % 3); a[j] * b[k] - a[k] * b[j] }).collect()
}

fn cross_q(sub: &mut Sub, cfg: &Config, idx: u64) {
    drive(sub, cfg, idx, "cross_q", "Q", "Vec3", |cx, rng, h| {
        let a = rand_vec_q(rng, 3);
        let b = rand_vec_q(rng, 3);
        let c = rand_vec_q(rng, 3);
        let s = small_q(rng, 9, 4);
        hq(h, &a);
        hq(h, &b);
        hq(h, &c);
        h.u(s.hash64());
        let v = |x: &[Q]| -> Vec3<Q> { vfrom(x) };
        let inp = || format!("a={:?} b={:?} c={:?} s={:?}", a, b, c, s);
        let ab = cx.call("cross", &inp, || v(&a).cross(v(&b)))?.to_vec();
        let e = cross3q(&a, &b);
        ensure!(cx, ab == e, "cross", "determinant_components", "a={:?} b={:?}: cross = {:?}, determinant definition gives {:?}", a, b, ab, e);
        let ba = cx.call("cross", &inp, || v(&b).cross(v(&a)))?.to_vec();
        ensure!(cx, (0..3).all(|i| ab[i] == -ba[i]), "cross", "anticommutative", "a={:?} b={:?}: a x b = {:?}, b x a = {:?}", a, b, ab, ba);
        ensure!(cx, dotq(&a, &ab).is_zero() && dotq(&b, &ab).is_zero(), "cross", "orthogonal_to_operands", "a={:?} b={:?}: a x b = {:?}, a.(a x b) = {:?}, b.(a x b) = {:?}", a, b, ab, dotq(&a, &ab), dotq(&b, &ab));
        let lag = dotq(&a, &a) * dotq(&b, &b) - dotq(&a, &b).sq();
        ensure!(cx, dotq(&ab, &ab) == lag, "cross", "lagrange_identity", "a={:?} b={:?}: |a x b|^2 = {:?}, |a|^2|b|^2-(a.b)^2 = {:?}", a, b, dotq(&ab, &ab), lag);
        // bilinearity, vek against vek
        let apb: Vec<Q> = (0..3).map(|i| a[i] + b[i]).collect();
        let l = cx.call("cross", &inp, || v(&apb).cross(v(&c)))?.to_vec();
        let ac = cx.call("cross", &inp, || v(&a).cross(v(&c)))?.to_vec();
        let bc = cx.call("cross", &inp, || v(&b).cross(v(&c)))?.to_vec();
        ensure!(cx, (0..3).all(|i| l[i] == ac[i] + bc[i]), "cross", "bilinear_add_left", "{}: (a+b) x c = {:?}, a x c + b x c = {:?} + {:?}", inp(), l, ac, bc);
        let bpc: Vec<Q> = (0..3).map(|i| b[i] + c[i]).collect();
        let l = cx.call("cross", &inp, || v(&a).cross(v(&bpc)))?.to_vec();
        ensure!(cx, (0..3).all(|i| l[i] == ab[i] + ac[i]), "cross", "bilinear_add_right", "{}: a x (b+c) = {:?}, a x b + a x c = {:?} + {:?}", inp(), l, ab, ac);
        let sa: Vec<Q> = a.iter().map(|x| s * *x).collect();
        let sb: Vec<Q> = b.iter().map(|x| s * *x).collect();
        let l1 = cx.call("cross", &inp, || v(&sa).cross(v(&b)))?.to_vec();
        let l2 = cx.call("cross", &inp, || v(&a).cross(v(&sb)))?.to_vec();
        ensure!(cx, (0..3).all(|i| l1[i] == s * ab[i] && l2[i] == s * ab[i]), "cross", "bilinear_scale", "{}: (s a) x b = {:?}, a x (s b) = {:?}, s (a x b) = {:?}", inp(), l1, l2, ab.iter().map(|x| s * *x).collect::<Vec<_>>());
        Ok(nonzero_count(&e) >= 1)
    });
}

fn magnitude_q<V: Sp<Q>>(sub: &mut Sub, cfg: &Config, idx: u64) {
    drive(sub, cfg, idx, "magnitude_q", "Q", V::NAME, |cx, rng, h| {
        let n = V::DIM;
        let (v, len) = rational_len_n(rng, n);
        let p: Vec<Q> = (0..n).map(|_| small_q(rng, 5, 2)).collect();
        let pv: Vec<Q> = (0..n).map(|i| p[i] + v[i]).collect();
        hq(h, &v);
        hq(h, &p);
        assert!(dotq(&v, &v) == len.sq(), "generator: not a rational-length vector");
        let (vv, vp, vpv): (V, V, V) = (vfrom(&v), vfrom(&p), vfrom(&pv));
        let inp = || format!("v={:?} (length {:?} by construction) p={:?}", v, len, p);
        let m = cx.call("magnitude", &inp, || vv.k_mag())?;
        let m2 = cx.call("magnitude_squared", &inp, || vv.k_mag2())?;
        let d1 = cx.call("distance", &inp, || vpv.k_dist(vp))?;
        let d2 = cx.call("distance", &inp, || vp.k_dist(vpv))?;
        let ds = cx.call("distance_squared", &inp, || vpv.k_dist2(vp))?;
        ensure!(cx, m == len, "magnitude", "not_euclidean_length", "{}: magnitude = {:?}", inp(), m);
        ensure!(cx, m2 == len.sq(), "magnitude_squared", "not_squared_length", "{}: magnitude_squared = {:?}, expected {:?}", inp(), m2, len.sq());
        ensure!(cx, m * m == m2, "magnitude", "square_disagrees_with_magnitude_squared", "{}: magnitude = {:?}, magnitude_squared = {:?}", inp(), m, m2);
        ensure!(cx, d1 == len && d2 == len, "distance", "not_length_of_difference", "{}: distance(p+v, p) = {:?}, distance(p, p+v) = {:?}, expected {:?}", inp(), d1, d2, len);
        ensure!(cx, ds == len.sq() && d1 * d1 == ds, "distance_squared", "not_squared_length_of_difference", "{}: distance_squared(p+v, p) = {:?}, expected {:?}", inp(), ds, len.sq());
        Ok(nonzero_count(&v) >= 2)
    });
}

/// `u` is `v` scaled to unit length: positive proportionality with the exact factor, unit length
fn unit_parallel(u: &[Q], v: &[Q], len: Q) -> bool {
    (0..v.len()).all(|i| u[i] * len == v[i]) && dotq(u, u) == Q::ONE
}

fn normalize_q<V: Sp<Q>>(sub: &mut Sub, cfg: &Config, idx: u64) {
    drive(sub, cfg, idx, "normalize_q", "Q", V::NAME, |cx, rng, h| {
        let n = V::DIM;
        let (v, len) = rational_len_n(rng, n);
        hq(h, &v);
        let vv: V = vfrom(&v);
        let inp = || format!("v={:?} (length {:?} by construction)", v, len);
        let n1 = cx.call("normalized", &inp, || vv.k_normalized())?;
        let n2 = cx.call("try_normalized", &inp, || vv.k_try_normalized())?;
        let n3 = cx.call("normalize", &inp, || { let mut w = vv; w.k_normalize(); w })?;
        let (n4, m4) = cx.call("normalize_and_get_magnitude", &inp, || { let mut w = vv; let m = w.k_normalize_get(); (w, m) })?;
        let (n5, m5) = cx.call("normalized_and_get_magnitude", &inp, || vv.k_normalized_get())?;
        let isn_u = cx.call("is_normalized", &inp, || n1.k_is_normalized())?;
        let isn_v = cx.call("is_normalized", &inp, || vv.k_is_normalized())?;
        let close = cx.call("is_magnitude_close_to", &inp, || vv.k_is_close_to(len))?;
        let far = cx.call("is_magnitude_close_to", &inp, || vv.k_is_close_to(len + Q::ONE))?;
        let az = cx.call("is_approx_zero", &inp, || vv.k_is_approx_zero())?;
        ensure!(cx, unit_parallel(&n1.to_vec(), &v, len), "normalized", "not_unit_parallel", "{}: normalized = {:?}", inp(), n1.to_vec());
        let Some(n2) = n2 else {
            return Err(cx.fail("try_normalized", "refuses_non_zero_vector", format!("{}: try_normalized = None", inp())));
        };
        ensure!(cx, unit_parallel(&n2.to_vec(), &v, len), "try_normalized", "not_unit_parallel", "{}: try_normalized = {:?}", inp(), n2.to_vec());
        ensure!(cx, unit_parallel(&n3.to_vec(), &v, len), "normalize", "not_unit_parallel", "{}: after normalize: {:?}", inp(), n3.to_vec());
        ensure!(cx, unit_parallel(&n4.to_vec(), &v, len), "normalize_and_get_magnitude", "not_unit_parallel", "{}: after normalize_and_get_magnitude: {:?}", inp(), n4.to_vec());
        ensure!(cx, m4 == len, "normalize_and_get_magnitude", "returned_magnitude_wrong", "{}: returned {:?}", inp(), m4);
        ensure!(cx, unit_parallel(&n5.to_vec(), &v, len), "normalized_and_get_magnitude", "not_unit_parallel", "{}: normalized_and_get_magnitude.0 = {:?}", inp(), n5.to_vec());
        ensure!(cx, m5 == len, "normalized_and_get_magnitude", "returned_magnitude_wrong", "{}: returned {:?}", inp(), m5);
        ensure!(cx, isn_u, "is_normalized", "rejects_exact_unit_vector", "{}: is_normalized(normalized(v)) = false, normalized = {:?}", inp(), n1.to_vec());
        let e4 = Q::eps_q() * Q::int(4);
        let exp_v = rel_eq_exact(len.sq(), Q::ONE, e4, e4);
        ensure!(cx, isn_v == exp_v, "is_normalized", "normalized_band", "{}: is_normalized(v) = {}, expected {}", inp(), isn_v, exp_v);
        ensure!(cx, close, "is_magnitude_close_to", "rejects_exact_magnitude", "{}: is_magnitude_close_to({:?}) = false", inp(), len);
        ensure!(cx, !far, "is_magnitude_close_to", "accepts_wrong_magnitude", "{}: is_magnitude_close_to({:?}) = true", inp(), len + Q::ONE);
        ensure!(cx, !az, "is_approx_zero", "approx_zero_band", "{}: is_approx_zero = true", inp());
        Ok(nonzero_count(&v) >= 2)
    });
}

// ------------------------------------------------------------------ RelativeEq bands (Q, f32, f64 on exactly representable inputs)

const NPAT: u64 = 30;

/// (non-zero components, x, label): the vector is the components placed at random positions
fn band_pattern<T: Exact>(rng: &mut Rng, pat: u64, dim: usize) -> Option<(Vec<Q>, Q, String)> {
    let e = T::eps_q();
    let p = (e.den() as u128).trailing_zeros() as i32; // eps = 2^-p
    let k = p - 2; // 4 eps = 2^-k
    // components whose squares sum to exactly 4 eps
    let base: Vec<Q> = if k % 2 == 0 { vec![p2(-k / 2)] } else { vec![p2(-(k + 1) / 2); 2] };
    let one = Q::ONE;
    let scaled = |f: Q| -> Vec<Q> { base.iter().map(|b| *b * f).collect() };
    let (nz, x, label): (Vec<Q>, Q, String) = match pat {
        0 => (vec![], Q::ZERO, "zero_vector".into()),
        1..=9 => {
            // heights are kept small enough for Q's i128 comparisons: "just above" uses 1 + 2^-4
            let f = [one, one - p2(-8), one + p2(-4), p2(-1), Q::int(2), p2(-20), p2(10), one + p2(-2), one - p2(-30)][(pat - 1) as usize];
            (scaled(f), Q::ZERO, format!("m2=4eps*({:?})^2 vs 0", f))
        }
        10 => (vec![one], one, "axis_unit vs 1".into()),
        11..=15 => {
            let f = [one, p2(-1), Q::int(2), one + p2(-4), Q::int(4)][(pat - 11) as usize];
            let mut v = vec![one];
            v.extend(scaled(f));
            (v, one, format!("m2=1+4eps*({:?})^2 vs 1", f))
        }
        16..=18 => {
            let j = p - 1 - (pat - 16) as i32;
            (vec![one - p2(-j)], one, format!("axis*(1-2^-{}) vs 1", j))
        }
        19..=21 => {
            if T::IS_FLOAT {
                return None;
            }
            let u: Vec<Q> = unit_n(rng, dim).into_iter().filter(|c| !c.is_zero()).collect();
            let f = [one, one + p2(-(p + 1)), one + p2(-16)][(pat - 19) as usize];
            (u.iter().map(|c| *c * f).collect(), one, format!("rational_unit*({:?}) vs 1", f))
        }
        27 | 28 => {
            // relative branch of RelativeEq: x = 2^a > 1, |v|^2 = x^2 + d with d = x^2 * 4eps / 4 (inside)
            // or x^2 * 4eps * 4 (outside); d > 4 eps so the absolute test cannot decide
            let a = rng.range_i64(1, 3) as i32;
            let shift = if pat == 27 { 0 } else { 2 };
            let ys: Vec<Q> = if (k + 2) % 2 == 0 { vec![p2(a - (k + 2) / 2 + shift)] } else { vec![p2(a - (k + 3) / 2 + shift); 2] };
            let mut v = vec![p2(a)];
            v.extend(ys);
            (v, p2(a), format!("relative_branch_{} x=2^{}", if pat == 27 { "inside" } else { "outside" }, a))
        }
        _ => {
            let f = [one, one + p2(-4), one - p2(-4), one + p2(-(p + 1)), one + p2(-16), one, one, Q::int(2)][(pat - 22) as usize];
            let x = if T::IS_FLOAT { Q::frac(rng.range_i64(1, 8), 8) } else if pat == 25 { Q::frac(rng.range_i64(1, 16), 8) } else { Q::frac(rng.range_i64(1, 64), 8) };
            let dir: Vec<Q> = if !T::IS_FLOAT && dim >= 2 && rng.bool() { vec![Q::frac(3, 5), Q::frac(-4, 5)] } else { vec![one] };
            (dir.iter().map(|c| *c * x * f).collect(), x, format!("direction*x*({:?}) vs x", f))
        }
    };
    if nz.len() > dim || nz.len() > 8 && T::IS_FLOAT {
        return None;
    }
    if nz.iter().any(|c| !T::repr(*c)) || !T::repr(x) {
        return None;
    }
    Some((nz, x, label))
}

/// float decision rule for a RelativeEq band: Some(expected) or None = too close to an edge to judge
fn float_band_expectation<T: Exact>(a_terms: &[Q], a: Q, b: Q, eps: Q, max_rel: Q) -> Result<bool, &'static str> {
    let d = (a - b).abs_q();
    // exact in the float type: every subset sum of the terms, the target and the difference
    let mut exact = T::repr(b) && T::repr(d) && a_terms.len() <= 4;
    if exact {
        for mask in 1u32..(1 << a_terms.len()) {
            let mut s = Q::ZERO;
            for (i, t) in a_terms.iter().enumerate() {
                if mask >> i & 1 == 1 {
                    s = s + *t;
                }
            }
            exact &= T::repr(s);
        }
    }
    if exact {
        if d <= eps {
            return Ok(true);
        }
        let thr_rel = a.abs_q().max_q(b.abs_q()) * max_rel;
        if d * Q::int(2) > thr_rel && d < thr_rel * Q::int(2) {
            return Err("float_rel_edge");
        }
        Ok(rel_eq_exact(a, b, eps, max_rel))
    } else {
        // rounding inside vek can move |v|^2 by a few ulps: only decide far outside the band
        // (the margin of 16 bands makes an f64 estimate of the thresholds sufficient)
        let thr = eps.to_f64().max(a.to_f64().abs().max(b.to_f64().abs()) * max_rel.to_f64());
        if d.to_f64() >= 16.0 * thr {
            Ok(false)
        } else {
            Err("float_inexact_near_band")
        }
    }
}

fn band_case<T: Lossy, V: Sp<T>>(sub: &mut Sub, cfg: &Config, idx: u64) {
    drive(sub, cfg, idx, "bands", T::TY, V::NAME, |cx, rng, h| {
        let dim = V::DIM;
        let e4 = T::eps_q() * Q::int(4);
        let mut chosen = None;
        for attempt in 0..12u64 {
            let pat = (idx + attempt * 7) % NPAT;
            if let Some(p) = band_pattern::<T>(rng, pat, dim) {
                chosen = Some(p);
                break;
            }
        }
        let Some((nz, x, label)) = chosen else {
            return Err(Stop::Inc("no_representable_pattern".into()));
        };
        let mut pos: Vec<usize> = (0..dim).collect();
        rng.shuffle(&mut pos);
        let mut comps = vec![Q::ZERO; dim];
        for (j, c) in nz.iter().enumerate() {
            comps[pos[j]] = if rng.bool() { *c } else { -*c };
        }
        h.s(&label);
        hq(h, &comps);
        h.u(x.hash64());
        let tv: Vec<T> = comps.iter().map(|c| T::from_q(*c).unwrap()).collect();
        let v: V = vfrom(&tv);
        let xt = T::from_q(x).unwrap();
        let m2 = dotq(&comps, &comps);
        let x2 = x.sq();
        let expected = if T::IS_FLOAT {
            let terms: Vec<Q> = nz.iter().map(|c| c.sq()).collect();
            match float_band_expectation::<T>(&terms, m2, x2, e4, e4) {
                Ok(b) => b,
                Err(r) => return Err(Stop::Inc(r.into())),
            }
        } else {
            rel_eq_exact(m2, x2, e4, e4)
        };
        let inp = || format!("pattern [{}] v={:?} x={:?} (|v|^2 = {:?}, x^2 = {:?}, 4*eps = {:?})", label, comps, x, m2, x2, e4);
        let close = cx.call("is_magnitude_close_to", &inp, || v.k_is_close_to(xt))?;
        ensure!(cx, close == expected, "is_magnitude_close_to", "magnitude_band", "{}: is_magnitude_close_to = {}, RelativeEq(4 eps, 4 eps) on the squares gives {}", inp(), close, expected);
        if x.is_zero() {
            let z = cx.call("is_approx_zero", &inp, || v.k_is_approx_zero())?;
            ensure!(cx, z == expected, "is_approx_zero", "approx_zero_band", "{}: is_approx_zero = {}, expected {}", inp(), z, expected);
            let tn = cx.call("try_normalized", &inp, || v.k_try_normalized())?;
            ensure!(cx, tn.is_none() == z, "try_normalized", "disagrees_with_is_approx_zero", "{}: try_normalized is {}, is_approx_zero = {}", inp(), if tn.is_none() { "None" } else { "Some" }, z);
            if let Some(u) = tn {
                let u = u.to_vec();
                if !T::IS_FLOAT {
                    // exact: unit, proportional, same orientation
                    let uq: Vec<Q> = u.iter().map(|c| T::to_q_lossy(*c)).collect();
                    let j = (0..dim).find(|i| !comps[*i].is_zero()).unwrap();
                    let ok = dotq(&uq, &uq) == Q::ONE && (0..dim).all(|i| uq[i] * comps[j] == uq[j] * comps[i]) && uq[j] * comps[j] > Q::ZERO;
                    ensure!(cx, ok, "try_normalized", "not_unit_parallel", "{}: try_normalized = Some({:?})", inp(), uq);
                } else {
                    let uf: Vec<f64> = u.iter().map(|c| T::to_f64_lossy(*c)).collect();
                    let l2: f64 = uf.iter().map(|c| c * c).sum();
                    ensure!(cx, (l2 - 1.0).abs() <= 64.0 * T::eps_q().to_f64(), "try_normalized", "not_unit_parallel", "{}: try_normalized = Some({:?}), squared length {}", inp(), uf, l2);
                }
            }
        }
        if x == Q::ONE {
            let nrm = cx.call("is_normalized", &inp, || v.k_is_normalized())?;
            ensure!(cx, nrm == expected, "is_normalized", "normalized_band", "{}: is_normalized = {}, expected {}", inp(), nrm, expected);
        }
        Ok(!nz.is_empty())
    });
}

trait Lossy: Exact {
    fn to_q_lossy(self) -> Q;
    fn to_f64_lossy(self) -> f64;
}
impl Lossy for Q {
    fn to_q_lossy(self) -> Q { self }
    fn to_f64_lossy(self) -> f64 { self.to_f64() }
}
impl Lossy for f32 {
    fn to_q_lossy(self) -> Q { Q::from_f64_exact(self as f64).unwrap_or(Q::ZERO) }
    fn to_f64_lossy(self) -> f64 { self as f64 }
}
impl Lossy for f64 {
    fn to_q_lossy(self) -> Q { Q::from_f64_exact(self).unwrap_or(Q::ZERO) }
    fn to_f64_lossy(self) -> f64 { self }
}

fn homog_bands<T: Exact>(sub: &mut Sub, cfg: &Config, idx: u64) {
    drive(sub, cfg, idx, "homog_bands", T::TY, "Vec4", |cx, rng, h| {
        let e = T::eps_q();
        let one = Q::ONE;
        let ws = [
            Q::ZERO, one, one + e, one - e, one - e * p2(-1), one + e * p2(-1), one + e * Q::int(4), one - e * Q::int(4), one + e * Q::int(2),
            e, -e, e * p2(-1), -e * p2(-1), e * Q::int(4), -e * Q::int(4), e * Q::int(2), Q::int(2), Q::int(-1), p2(-1),
            e * (one + p2(-8)), one + e * (one + p2(-8)), one - e * (one + p2(-8)), e * (one - p2(-8)),
        ];
        let w = ws[(idx % ws.len() as u64) as usize];
        if !T::repr(w) {
            return Err(Stop::Inc("w_not_representable".into()));
        }
        let xyz: Vec<Q> = (0..3).map(|_| Q::frac(rng.range_i64(-40, 40), 4)).collect();
        let comps = vec![xyz[0], xyz[1], xyz[2], w];
        hq(h, &comps);
        let v: Vec4<T> = vfrom(&comps.iter().map(|c| T::from_q(*c).unwrap()).collect::<Vec<T>>());
        let expect = |target: Q| -> Result<bool, Stop> {
            if T::IS_FLOAT {
                float_band_expectation::<T>(&[w], w, target, e, e).map_err(|r| Stop::Inc(r.into()))
            } else {
                Ok(rel_eq_exact(w, target, e, e))
            }
        };
        let ep = expect(one)?;
        let ed = expect(Q::ZERO)?;
        let inp = || format!("v={:?} (eps = {:?})", comps, e);
        let ip = cx.call("is_point", &inp, || v.is_point())?;
        let id = cx.call("is_direction", &inp, || v.is_direction())?;
        let ih = cx.call("is_homogeneous", &inp, || v.is_homogeneous())?;
        ensure!(cx, ip == ep, "is_point", "w_band_around_one", "{}: is_point = {}, RelativeEq(w, 1) gives {}", inp(), ip, ep);
        ensure!(cx, id == ed, "is_direction", "w_band_around_zero", "{}: is_direction = {}, RelativeEq(w, 0) gives {}", inp(), id, ed);
        ensure!(cx, ih == (ep || ed), "is_homogeneous", "not_point_or_direction", "{}: is_homogeneous = {}, expected {}", inp(), ih, ep || ed);
        Ok(true)
    });
}

// ------------------------------------------------------------------ reflection / refraction / face_forward (Q)

fn mirror_q<V: Sp<Q>>(sub: &mut Sub, cfg: &Config, idx: u64) {
    drive(sub, cfg, idx, "mirror_q", "Q", V::NAME, |cx, rng, h| {
        let n = V::DIM;
        let nn = unit_n(rng, n);
        let v = rand_vec_q(rng, n);
        hq(h, &nn);
        hq(h, &v);
        let inp = || format!("v={:?} unit n={:?}", v, nn);
        let r = cx.call("reflected", &inp, || vfrom::<Q, V>(&v).k_reflected(vfrom(&nn)))?.to_vec();
        let (vn, rn) = (dotq(&v, &nn), dotq(&r, &nn));
        ensure!(cx, rn == -vn, "reflected", "normal_component_not_negated", "{}: reflected = {:?}, r.n = {:?}, v.n = {:?}", inp(), r, rn, vn);
        let tan_v: Vec<Q> = (0..n).map(|i| v[i] - vn * nn[i]).collect();
        let tan_r: Vec<Q> = (0..n).map(|i| r[i] - rn * nn[i]).collect();
        ensure!(cx, tan_v == tan_r, "reflected", "tangential_component_changed", "{}: reflected = {:?}, tangential part {:?} became {:?}", inp(), r, tan_v, tan_r);
        ensure!(cx, dotq(&r, &r) == dotq(&v, &v), "reflected", "length_changed", "{}: reflected = {:?}", inp(), r);
        Ok(!vn.is_zero() && nonzero_count(&tan_v) >= 1)
    });
}

fn snell_q<V: Sp<Q>>(sub: &mut Sub, cfg: &Config, idx: u64) {
    drive(sub, cfg, idx, "snell_q", "Q", V::NAME, |cx, rng, h| {
        let n = V::DIM;
        let (nv, tv) = ortho_pair(rng, n);
        let (c, s) = circle_point(rng);
        // unit incident vector with n.i = c and tangential part s*t
        let iv: Vec<Q> = (0..n).map(|i| c * nv[i] + s * tv[i]).collect();
        let mode = idx % 5;
        let sa = s.abs_q();
        let (eta, mode_name) = if s.is_zero() {
            (small_q_pos(rng, 9, 4), "normal_incidence")
        } else {
            match mode {
                0 | 1 => {
                    // eta*|s| = P with (P, M) on the unit circle, so k = M^2
                    let (pp, _m) = loop {
                        let (a, b) = circle_point(rng);
                        if !a.is_zero() {
                            break (a.abs_q(), b);
                        }
                    };
                    (pp / sa, "k_positive_square")
                }
                2 => ((Q::ONE + small_q_pos(rng, 9, 8)) / sa, "total_internal_reflection"),
                3 => (Q::ONE / sa, "k_exactly_zero"),
                _ => (Q::ONE, "eta_one"),
            }
        };
        hq(h, &nv);
        hq(h, &tv);
        h.u(c.hash64()).u(s.hash64()).u(eta.hash64());
        let sin2_t = eta.sq() * s.sq(); // squared sine of the refraction angle by Snell's law
        let tir = sin2_t > Q::ONE;
        let inp = || format!("[{}] unit i={:?} unit n={:?} eta={:?} (n.i = {:?}, sin(theta_i) = {:?}, eta^2 sin^2 = {:?})", mode_name, iv, nv, eta, c, s, sin2_t);
        let r = cx.call("refracted", &inp, || vfrom::<Q, V>(&iv).k_refracted(vfrom(&nv), eta))?.to_vec();
        if tir {
            ensure!(cx, nonzero_count(&r) == 0, "refracted", "total_internal_reflection_not_zero_vector", "{}: refracted = {:?}, expected the zero vector", inp(), r);
            return Ok(true);
        }
        let what_zero: &'static str = if sin2_t == Q::ONE { "zero_vector_at_critical_angle" } else { "zero_vector_without_total_internal_reflection" };
        ensure!(cx, nonzero_count(&r) > 0, "refracted", what_zero, "{}: refracted = zero vector", inp());
        let rn = dotq(&r, &nv);
        let tan_r: Vec<Q> = (0..n).map(|i| r[i] - rn * nv[i]).collect();
        let tan_i: Vec<Q> = (0..n).map(|i| eta * (iv[i] - c * nv[i])).collect();
        ensure!(cx, tan_r == tan_i, "refracted", "tangential_component_not_scaled_by_eta", "{}: refracted = {:?}, tangential part {:?}, expected eta*(i-(i.n)n) = {:?}", inp(), r, tan_r, tan_i);
        ensure!(cx, dotq(&r, &r) == Q::ONE, "refracted", "result_not_unit", "{}: refracted = {:?}, squared length {:?}", inp(), r, dotq(&r, &r));
        if c <= Q::ZERO {
            // normal facing the incident ray: the refracted ray continues through the surface
            ensure!(cx, rn <= Q::ZERO, "refracted", "refracted_ray_on_incident_side", "{}: refracted = {:?}, r.n = {:?} > 0", inp(), r, rn);
            if eta == Q::ONE {
                ensure!(cx, r == iv, "refracted", "eta_one_changes_direction", "{}: refracted = {:?}, expected i", inp(), r);
            }
        }
        Ok(!s.is_zero() && !c.is_zero())
    });
}

fn face_forward_q<V: Sp<Q>>(sub: &mut Sub, cfg: &Config, idx: u64) {
    drive(sub, cfg, idx, "face_forward_q", "Q", V::NAME, |cx, rng, h| {
        let n = V::DIM;
        let sv = rand_vec_q(rng, n);
        let mut rf = rand_vec_q(rng, n);
        let mut inc = rand_vec_q(rng, n);
        let mode = idx % 3;
        if mode == 1 {
            // force reference . incident = 0 exactly
            let j = match (0..n).find(|i| !rf[*i].is_zero()) {
                Some(j) => j,
                None => {
                    rf[0] = Q::ONE;
                    0
                }
            };
            let mut s = Q::ZERO;
            for i in 0..n {
                if i != j {
                    s = s + rf[i] * inc[i];
                }
            }
            inc[j] = -s / rf[j];
        }
        hq(h, &sv);
        hq(h, &rf);
        hq(h, &inc);
        let d = dotq(&rf, &inc);
        let inp = || format!("self={:?} incident={:?} reference={:?} (reference.incident = {:?})", sv, inc, rf, d);
        let out = cx.call("face_forward", &inp, || vfrom::<Q, V>(&sv).k_face_forward(vfrom(&inc), vfrom(&rf)))?.to_vec();
        let exp: Vec<Q> = if d <= Q::ZERO { sv.clone() } else { sv.iter().map(|x| -*x).collect() };
        let what: &'static str = if d.is_zero() { "zero_dot_boundary" } else { "sign_of_reference_dot" };
        ensure!(cx, out == exp, "face_forward", what, "{}: face_forward = {:?}, expected {:?}", inp(), out, exp);
        Ok(nonzero_count(&sv) >= 1)
    });
}

// ------------------------------------------------------------------ 2-D side / areas, homogenisation (Q)

fn side_area_q(sub: &mut Sub, cfg: &Config, idx: u64) {
    drive(sub, cfg, idx, "side_area_q", "Q", "Vec2", |cx, rng, h| {
        let a = [small_q(rng, 9, 4), small_q(rng, 9, 4)];
        let mut b = [small_q(rng, 9, 4), small_q(rng, 9, 4)];
        if a[0] == b[0] && a[1] == b[1] {
            b[0] = b[0] + Q::ONE;
        }
        let alpha = small_q(rng, 6, 4);
        let beta = if idx % 4 == 0 { Q::ZERO } else { small_q(rng, 6, 4) };
        let d = [b[0] - a[0], b[1] - a[1]];
        // c = a + alpha*d + beta*left(d), left(d) = d rotated by +90 degrees
        let c = [a[0] + alpha * d[0] - beta * d[1], a[1] + alpha * d[1] + beta * d[0]];
        hq(h, &a);
        hq(h, &b);
        hq(h, &c);
        let dd = d[0].sq() + d[1].sq();
        let e_side = beta * dd;
        let shoelace = (a[0] * (b[1] - c[1]) + b[0] * (c[1] - a[1]) + c[0] * (a[1] - b[1])).half();
        assert!(shoelace == e_side.half(), "oracle: geometric construction and shoelace formula disagree");
        let v = |p: &[Q; 2]| -> Vec2<Q> { vfrom(&p[..]) };
        let inp = || format!("a={:?} b={:?} c={:?} (c = a + {:?}(b-a) + {:?} left(b-a))", a, b, c, alpha, beta);
        let ds = cx.call("determine_side", &inp, || v(&c).determine_side(v(&a), v(&b)))?;
        let sa = cx.call("signed_triangle_area", &inp, || Vec2::signed_triangle_area(v(&a), v(&b), v(&c)))?;
        let ta = cx.call("triangle_area", &inp, || Vec2::triangle_area(v(&a), v(&b), v(&c)))?;
        ensure!(cx, ds == e_side, "determine_side", "not_cross2d_left_positive", "{}: determine_side = {:?}, (b-a)x(c-a) = {:?} (> 0 means left of ab)", inp(), ds, e_side);
        ensure!(cx, sa == shoelace, "signed_triangle_area", "not_half_cross2d", "{}: signed_triangle_area = {:?}, expected {:?}", inp(), sa, shoelace);
        ensure!(cx, ta == shoelace.abs_q(), "triangle_area", "not_abs_half_cross2d", "{}: triangle_area = {:?}, expected {:?}", inp(), ta, shoelace.abs_q());
        Ok(!beta.is_zero())
    });
}

/// areas on native element types: integer-valued vertices far from the origin (every difference and
/// product of differences exact in the type), so the result must be exactly half the cross product
/// of the edge vectors, for floats and for signed integers; the two windings must agree
macro_rules! area_native_case {
    ($sub:expr, $cfg:expr, $idx:expr, $T:ty, $ty:expr, $off:expr, $edge:expr, $conv:expr, $back:expr) => {{
        let mut rng = Rng::for_case(concat!("area_native/", $ty), $cfg.case_seed(), $idx);
        let off: i64 = $off;
        let ed: i64 = $edge;
        let o = [rng.range_i64(-off, off), rng.range_i64(-off, off)];
        let a = [o[0], o[1]];
        let b = [o[0] + rng.range_i64(-ed, ed), o[1] + rng.range_i64(-ed, ed)];
        let c = if rng.chance(1, 6) { let k = rng.range_i64(-3, 3); [a[0] + k * (b[0] - a[0]), a[1] + k * (b[1] - a[1])] } else { [o[0] + rng.range_i64(-ed, ed), o[1] + rng.range_i64(-ed, ed)] };
        // twice the signed area, exactly; vek: determine_side(a, b) of c = (b-a) x (c-a)
        let cr: i128 = ((b[0] - a[0]) as i128) * ((c[1] - a[1]) as i128) - ((b[1] - a[1]) as i128) * ((c[0] - a[0]) as i128);
        let conv = $conv;
        let back = $back;
        let v = |p: [i64; 2]| -> Vec2<$T> { Vec2 { x: conv(p[0]), y: conv(p[1]) } };
        let mut h = H64::new();
        h.s($ty);
        for p in [a, b, c] {
            h.i(p[0] as i128).i(p[1] as i128);
        }
        let inp = format!("a={:?} b={:?} c={:?} (integer-valued, exact in {})", a, b, c, $ty);
        $sub.saw("Vec2::signed_triangle_area");
        $sub.saw("Vec2::triangle_area");
        $sub.saw("Vec2::determine_side");
        let got = guarded(|| (Vec2::<$T>::signed_triangle_area(v(a), v(b), v(c)), Vec2::<$T>::triangle_area(v(a), v(b), v(c)), Vec2::<$T>::triangle_area(v(a), v(c), v(b)), v(c).determine_side(v(a), v(b))));
        match got {
            Err(e) => {
                let vio = violation(PROP, $sub, "Vec2::signed_triangle_area", $ty, "panic", "area_of_representable_triangle", format!("{}: panicked: {}", inp, e), $cfg.case_seed(), $idx);
                $sub.violated(vio);
            }
            Ok((sa, ta, tb, side)) => {
                let (sa, ta, tb, side): (f64, f64, f64, f64) = (back(sa), back(ta), back(tb), back(side));
                // integer types halve by integer division (truncation), floats exactly
                let half = |x: i128| -> f64 { if <$T as IsInt>::INT { (x / 2) as f64 } else { x as f64 / 2.0 } };
                let mut bad = None;
                if side != cr as f64 { bad = Some(("Vec2::determine_side", "not_cross2d", format!("determine_side = {}, (b-a) x (c-a) = {}", side, cr))); }
                else if sa != half(cr) { bad = Some(("Vec2::signed_triangle_area", "not_half_cross2d", format!("signed_triangle_area = {}, half of (b-a) x (c-a) = {} is {}", sa, cr, half(cr)))); }
                else if ta != half(cr).abs() || tb != half(-cr).abs() { bad = Some(("Vec2::triangle_area", "not_abs_half_cross2d", format!("triangle_area(a,b,c) = {}, triangle_area(a,c,b) = {}, |half cross| = {}", ta, tb, half(cr).abs()))); }
                match bad {
                    None => { $sub.sample(|| format!("[{}] {} -> signed area {}", $ty, inp, sa)); $sub.held(h.get(), cr != 0); }
                    Some((api, what, msg)) => { let vio = violation(PROP, $sub, api, $ty, "wrong_value", what, format!("{}: {}", inp, msg), $cfg.case_seed(), $idx); $sub.violated(vio); }
                }
            }
        }
    }};
}
/// the same on unsigned element types (pixel / grid coordinates): everything is measured from the
/// corner `a` (b >= a and c >= a componentwise) and c is left of or on ab, so the edge vectors, both
/// products and the cross product itself are natural numbers that fit the type: the documented value
/// is computable, and must come back (in a build with overflow checks a refusal shows as a panic)
macro_rules! area_unsigned_case {
    ($sub:expr, $cfg:expr, $idx:expr, $T:ty, $ty:expr, $off:expr, $edge:expr) => {{
        let mut rng = Rng::for_case(concat!("area_unsigned/", $ty), $cfg.case_seed(), $idx);
        let off: i64 = $off;
        let ed: i64 = $edge;
        let a = [rng.range_i64(0, off), rng.range_i64(0, off)];
        let (dx, dy) = (rng.range_i64(0, ed), rng.range_i64(0, ed));
        let (mut ex, mut ey) = (rng.range_i64(0, ed), rng.range_i64(0, ed));
        if rng.chance(1, 6) { let k = rng.range_i64(0, 1); ex = k * dx; ey = k * dy; }
        // keep c left of (or on) ab: dx*ey >= dy*ex; otherwise swap the roles of the two offsets' cross terms
        if dx * ey < dy * ex { std::mem::swap(&mut ex, &mut ey); }
        if dx * ey < dy * ex { ex = 0; }
        let b = [a[0] + dx, a[1] + dy];
        let c = [a[0] + ex, a[1] + ey];
        let cr: i128 = (dx as i128) * (ey as i128) - (dy as i128) * (ex as i128);
        assert!(cr >= 0 && (dx as i128) * (ey as i128) <= <$T>::MAX as i128 && b.iter().chain(c.iter()).all(|&k| (k as i128) <= <$T>::MAX as i128));
        let v = |p: [i64; 2]| -> Vec2<$T> { Vec2 { x: p[0] as $T, y: p[1] as $T } };
        let mut h = H64::new();
        h.s($ty);
        for p in [a, b, c] {
            h.i(p[0] as i128).i(p[1] as i128);
        }
        let inp = format!("a={:?} b={:?} c={:?} (b >= a, c >= a, c left of or on ab; every edge, product and the result fit {})", a, b, c, $ty);
        $sub.saw("Vec2::signed_triangle_area");
        $sub.saw("Vec2::determine_side");
        let got = guarded(|| (v(c).determine_side(v(a), v(b)), Vec2::<$T>::signed_triangle_area(v(a), v(b), v(c))));
        match got {
            Err(e) => {
                let vio = violation(PROP, $sub, "Vec2::determine_side", $ty, "panic", "cross2d_of_representable_unsigned_triangle", format!("{}: panicked: {}", inp, e), $cfg.case_seed(), $idx);
                $sub.violated(vio);
            }
            Ok((side, sa)) => {
                let (side, sa) = (side as i128, sa as i128);
                if side != cr {
                    let vio = violation(PROP, $sub, "Vec2::determine_side", $ty, "wrong_value", "not_cross2d", format!("{}: determine_side = {}, (b-a) x (c-a) = {}", inp, side, cr), $cfg.case_seed(), $idx);
                    $sub.violated(vio);
                } else if sa != cr / 2 {
                    let vio = violation(PROP, $sub, "Vec2::signed_triangle_area", $ty, "wrong_value", "not_half_cross2d", format!("{}: signed_triangle_area = {}, half of {} (truncating) = {}", inp, sa, cr, cr / 2), $cfg.case_seed(), $idx);
                    $sub.violated(vio);
                } else {
                    $sub.sample(|| format!("[{}] {} -> side {}", $ty, inp, side));
                    $sub.held(h.get(), cr != 0);
                }
            }
        }
    }};
}
/// signed integer triangles whose cross product sits at the very end of the type's range: exactly
/// T::MIN (whose absolute value halved, the area, IS representable), MIN + k, and MAX - k.  Every
/// intermediate of the documented formula (edge vectors, the two products, their difference, the
/// halved value and its negation) is representable, so the documented values must come back in both
/// profiles; the other winding is left out where its cross product (+2^(bits-1)) does not exist.
macro_rules! area_extreme_case {
    ($sub:expr, $cfg:expr, $idx:expr, $T:ty, $ty:expr) => {{
        let bits = <$T>::BITS as u64;
        let per = (bits - 1) * 4 + 4;
        let i = $idx % per;
        // (a, b, c, cross)
        let (a, b, c, cr): ([i128; 2], [i128; 2], [i128; 2], i128) = if i < (bits - 1) * 4 {
            let (p, k) = (i / 4, (i % 4) as i128);
            let q = bits - 1 - p;
            // d1 = 2^p * -(2^q) = MIN, d2 = dy * ex = 1 * -k  ->  cross = MIN + k
            let a = [-3i128, 5];
            let b = [a[0] + (1i128 << p), a[1] + if k == 0 { 0 } else { 1 }];
            let c = [a[0] - k, a[1] - (1i128 << q)];
            (a, b, c, <$T>::MIN as i128 + k)
        } else {
            let k = (i - (bits - 1) * 4) as i128;
            // d1 = MAX * 1, d2 = 1 * k  ->  cross = MAX - k
            let a = [0i128, -2];
            let b = [<$T>::MAX as i128, a[1] + 1];
            let c = [k, a[1] + 1];
            (a, b, c, <$T>::MAX as i128 - k)
        };
        let fits = |x: i128| x >= <$T>::MIN as i128 && x <= <$T>::MAX as i128;
        let (dx, dy, ex, ey) = (b[0] - a[0], b[1] - a[1], c[0] - a[0], c[1] - a[1]);
        assert!([a[0], a[1], b[0], b[1], c[0], c[1], dx, dy, ex, ey, dx * ey, dy * ex, dx * ey - dy * ex].iter().all(|x| fits(*x)) && dx * ey - dy * ex == cr, "harness: extreme triangle out of range");
        let v = |p: [i128; 2]| -> Vec2<$T> { Vec2 { x: p[0] as $T, y: p[1] as $T } };
        let inp = format!("a={:?} b={:?} c={:?}: (b-a) x (c-a) = {} ({}::MIN = {}, MAX = {})", a, b, c, cr, $ty, <$T>::MIN, <$T>::MAX);
        $sub.saw("Vec2::signed_triangle_area");
        $sub.saw("Vec2::triangle_area");
        $sub.saw("Vec2::determine_side");
        let got = guarded(|| (v(c).determine_side(v(a), v(b)), Vec2::<$T>::signed_triangle_area(v(a), v(b), v(c)), Vec2::<$T>::triangle_area(v(a), v(b), v(c))));
        match got {
            Err(e) => {
                let vio = violation(PROP, $sub, "Vec2::triangle_area", $ty, "panic", "area_at_the_end_of_the_range", format!("{}: panicked: {}", inp, e), $cfg.case_seed(), $idx);
                $sub.violated(vio);
            }
            Ok((side, sa, ta)) => {
                let (side, sa, ta) = (side as i128, sa as i128, ta as i128);
                let bad = if side != cr {
                    Some(("Vec2::determine_side", "not_cross2d", format!("determine_side = {}", side)))
                } else if sa != cr / 2 {
                    Some(("Vec2::signed_triangle_area", "not_half_cross2d", format!("signed_triangle_area = {}, half of the cross product (truncating) = {}", sa, cr / 2)))
                } else if ta != (cr / 2).abs() {
                    Some(("Vec2::triangle_area", "not_abs_half_cross2d", format!("triangle_area = {}, |half cross| = {}", ta, (cr / 2).abs())))
                } else {
                    None
                };
                match bad {
                    None => { $sub.sample(|| format!("[{}] {} -> area {}", $ty, inp, ta)); $sub.held_enumerated(true); }
                    Some((api, what, msg)) => { let vio = violation(PROP, $sub, api, $ty, "wrong_value", what, format!("{}: {}", inp, msg), $cfg.case_seed(), $idx); $sub.violated(vio); }
                }
            }
        }
    }};
}
trait IsInt {
    const INT: bool;
}
impl IsInt for f32 { const INT: bool = false; }
impl IsInt for f64 { const INT: bool = false; }
impl IsInt for i16 { const INT: bool = true; }
impl IsInt for i32 { const INT: bool = true; }
impl IsInt for i64 { const INT: bool = true; }

fn homog_q(sub: &mut Sub, cfg: &Config, idx: u64) {
    drive(sub, cfg, idx, "homog_q", "Q", "Vec4", |cx, rng, h| {
        let mut v = rand_vec_q(rng, 4);
        v[3] = match idx % 5 {
            0 => Q::ONE,
            1 => Q::int(-1),
            _ => small_q_nonzero(rng, 9, 6),
        };
        hq(h, &v);
        let w = v[3];
        let inp = || format!("v={:?}", v);
        let h1 = cx.call("homogenized", &inp, || vfrom::<Q, Vec4<Q>>(&v).homogenized())?.to_vec();
        let h2 = cx.call("homogenize", &inp, || { let mut x: Vec4<Q> = vfrom(&v); x.homogenize(); x })?.to_vec();
        for (m, o) in [("homogenized", &h1), ("homogenize", &h2)] {
            ensure!(cx, o[3] == Q::ONE, m, "w_not_one", "{}: result {:?}", inp(), o);
            ensure!(cx, (0..3).all(|i| o[i] * w == v[i]), m, "components_not_divided_by_w", "{}: result {:?}, expected v/w", inp(), o);
        }
        let ip = cx.call("is_point", &inp, || vfrom::<Q, Vec4<Q>>(&h1).is_point())?;
        ensure!(cx, ip, "is_point", "rejects_homogenized_point", "{}: is_point(homogenized) = false", inp());
        Ok(w != Q::ONE)
    });
}

/// homogenisation on native element types with inputs whose quotients are exact in the type:
/// (a w, b w, c w, w) -> (a, b, c, 1) exactly, for integers (any w != 0) and floats
macro_rules! homog_native_case {
    ($sub:expr, $cfg:expr, $idx:expr, $T:ty, $ty:expr, $conv:expr) => {{
        let mut rng = Rng::for_case(concat!("homog_native/", $ty), $cfg.case_seed(), $idx);
        let conv = $conv;
        let w: i64 = match $idx % 6 { 0 => 1, 1 => -1, 2 => rng.range_i64(2, 120), 3 => -rng.range_i64(2, 120), _ => rng.nonzero_i64(1000) };
        let abc = [rng.range_i64(-900, 900), rng.range_i64(-900, 900), rng.range_i64(-900, 900)];
        let v: Vec4<$T> = Vec4 { x: conv(abc[0] * w), y: conv(abc[1] * w), z: conv(abc[2] * w), w: conv(w) };
        let want: [$T; 4] = [conv(abc[0]), conv(abc[1]), conv(abc[2]), conv(1)];
        let mut h = H64::new();
        h.s($ty).i(w as i128).i(abc[0] as i128).i(abc[1] as i128).i(abc[2] as i128);
        $sub.saw("Vec4::homogenized");
        $sub.saw("Vec4::homogenize");
        let got = guarded(|| { let a = v.homogenized(); let mut b = v; b.homogenize(); ([a.x, a.y, a.z, a.w], [b.x, b.y, b.z, b.w]) });
        match got {
            Err(e) => { let vio = violation(PROP, $sub, "Vec4::homogenized", $ty, "panic", "exact_quotients", format!("v = {:?}: panicked: {}", v, e), $cfg.case_seed(), $idx); $sub.violated(vio); }
            Ok((a, b)) => {
                if a != want || b != want {
                    let (api, g) = if a != want { ("Vec4::homogenized", a) } else { ("Vec4::homogenize", b) };
                    let vio = violation(PROP, $sub, api, $ty, "wrong_value", "exact_quotients", format!("v = {:?} (= ({}, {}, {}, 1) * {}): result {:?}, expected {:?}", v, abc[0], abc[1], abc[2], w, g, want), $cfg.case_seed(), $idx);
                    $sub.violated(vio);
                } else {
                    $sub.sample(|| format!("[{}] {:?} -> {:?}", $ty, v, a));
                    $sub.held(h.get(), w != 1);
                }
            }
        }
    }};
}

// ------------------------------------------------------------------ float tiers

fn fdotf(a: &[f64], b: &[f64]) -> f64 {
    a.iter().zip(b.iter()).map(|(x, y)| x * y).sum()
}
fn fnorm(a: &[f64]) -> f64 {
    fdotf(a, a).sqrt()
}
fn to_f<T: Fl>(v: &[T]) -> Vec<f64> {
    v.iter().map(|x| x.f()).collect()
}
fn hf(h: &mut H64, xs: &[f64]) {
    for x in xs {
        h.f(*x);
    }
}
fn max_abs_diff(a: &[f64], b: &[f64]) -> f64 {
    let mut m = 0.0f64;
    for i in 0..a.len() {
        let d = (a[i] - b[i]).abs();
        if !(d <= m) {
            m = d; // NaN propagates: (NaN <= m) is false
        }
    }
    m
}

fn normalize_float<T: Fl, V: Sp<T>>(sub: &mut Sub, cfg: &Config, idx: u64) {
    drive(sub, cfg, idx, "normalize_float", T::TY, V::NAME, |cx, rng, h| {
        let n = V::DIM;
        let eps = T::EPS;
        let mode = idx % 8;
        let scale = match mode {
            0 => 0.0,
            1 => (4.0 * eps).sqrt() * rng.f64_in(0.25, 4.0),
            _ => 10f64.powf(rng.f64_in(-10.0, 10.0)),
        };
        let mut x: Vec<T> = (0..n).map(|_| T::of(scale * rng.f64_in(-1.0, 1.0))).collect();
        if mode == 2 {
            let j = rng.usize_below(n);
            for i in 0..n {
                if i != j {
                    x[i] = T::of(0.0);
                }
            }
        }
        let y: Vec<T> = (0..n).map(|_| T::of(scale * rng.f64_in(-1.0, 1.0))).collect();
        let (xs, ys) = (to_f(&x), to_f(&y));
        hf(h, &xs);
        hf(h, &ys);
        let m2 = fdotf(&xs, &xs);
        let mag = m2.sqrt();
        let (vx, vy): (V, V) = (vfrom(&x), vfrom(&y));
        let inp = || format!("v={:?} other={:?}", xs, ys);
        let z = cx.call("is_approx_zero", &inp, || vx.k_is_approx_zero())?;
        let tn = cx.call("try_normalized", &inp, || vx.k_try_normalized())?;
        ensure!(cx, tn.is_none() == z, "try_normalized", "disagrees_with_is_approx_zero", "{}: try_normalized is {}, is_approx_zero = {}", inp(), if tn.is_none() { "None" } else { "Some" }, z);
        let band = 4.0 * eps;
        if m2 > band * (1.0 + 1e-6) {
            ensure!(cx, !z, "is_approx_zero", "approx_zero_band", "{}: |v|^2 = {:e} > 4 eps but is_approx_zero = true", inp(), m2);
        } else if m2 < band * (1.0 - 1e-6) {
            ensure!(cx, z, "is_approx_zero", "approx_zero_band", "{}: |v|^2 = {:e} < 4 eps but is_approx_zero = false", inp(), m2);
        }
        let tol_unit = 64.0 * eps;
        let unit_par = |u: &[f64]| -> bool { (fdotf(u, u) - 1.0).abs() <= tol_unit && (0..n).all(|i| (u[i] * mag - xs[i]).abs() <= 64.0 * eps * mag) };
        if let Some(u) = tn {
            let u = to_f(&u.to_vec());
            ensure!(cx, unit_par(&u), "try_normalized", "not_unit_parallel", "{}: try_normalized = Some({:?}), |v| = {:e}", inp(), u, mag);
        }
        let mv = cx.call("magnitude", &inp, || vx.k_mag())?.f();
        let m2v = cx.call("magnitude_squared", &inp, || vx.k_mag2())?.f();
        ensure!(cx, (mv - mag).abs() <= 64.0 * eps * mag, "magnitude", "not_euclidean_length", "{}: magnitude = {:e}, expected {:e}", inp(), mv, mag);
        ensure!(cx, (m2v - m2).abs() <= 64.0 * eps * m2, "magnitude_squared", "not_squared_length", "{}: magnitude_squared = {:e}, expected {:e}", inp(), m2v, m2);
        let diff: Vec<f64> = (0..n).map(|i| xs[i] - ys[i]).collect();
        let (dr, lsum) = (fnorm(&diff), mag + fnorm(&ys));
        let dv = cx.call("distance", &inp, || vx.k_dist(vy))?.f();
        let d2v = cx.call("distance_squared", &inp, || vx.k_dist2(vy))?.f();
        ensure!(cx, (dv - dr).abs() <= 64.0 * eps * lsum, "distance", "not_length_of_difference", "{}: distance = {:e}, expected {:e}", inp(), dv, dr);
        ensure!(cx, (d2v - dr * dr).abs() <= 64.0 * eps * lsum * lsum, "distance_squared", "not_squared_length_of_difference", "{}: distance_squared = {:e}, expected {:e}", inp(), d2v, dr * dr);
        if m2 > band * 4.0 {
            let n1 = to_f(&cx.call("normalized", &inp, || vx.k_normalized())?.to_vec());
            let n3 = to_f(&cx.call("normalize", &inp, || { let mut w = vx; w.k_normalize(); w })?.to_vec());
            let (n4, m4) = cx.call("normalize_and_get_magnitude", &inp, || { let mut w = vx; let m = w.k_normalize_get(); (w, m) })?;
            let (n5, m5) = cx.call("normalized_and_get_magnitude", &inp, || vx.k_normalized_get())?;
            let (n4, n5) = (to_f(&n4.to_vec()), to_f(&n5.to_vec()));
            ensure!(cx, unit_par(&n1), "normalized", "not_unit_parallel", "{}: normalized = {:?}", inp(), n1);
            ensure!(cx, unit_par(&n3), "normalize", "not_unit_parallel", "{}: after normalize {:?}", inp(), n3);
            ensure!(cx, unit_par(&n4), "normalize_and_get_magnitude", "not_unit_parallel", "{}: after normalize_and_get_magnitude {:?}", inp(), n4);
            ensure!(cx, unit_par(&n5), "normalized_and_get_magnitude", "not_unit_parallel", "{}: normalized_and_get_magnitude.0 = {:?}", inp(), n5);
            ensure!(cx, (m4.f() - mag).abs() <= 64.0 * eps * mag, "normalize_and_get_magnitude", "returned_magnitude_wrong", "{}: returned {:e}, expected {:e}", inp(), m4.f(), mag);
            ensure!(cx, (m5.f() - mag).abs() <= 64.0 * eps * mag, "normalized_and_get_magnitude", "returned_magnitude_wrong", "{}: returned {:e}, expected {:e}", inp(), m5.f(), mag);
        }
        Ok(mode != 0)
    });
}

/// one lane of one operand is NaN or an infinity (the other operand is finite): the lengths,
/// distances, their squares and the dot product must still be what their defining sums evaluate to —
/// NaN stays NaN, an infinite lane gives an infinite length — in both operand orders, so that
/// "distance and its square agree" holds for these inputs too
fn nonfinite_float<T: Fl, V: Sp<T>>(sub: &mut Sub, cfg: &Config, idx: u64) {
    drive(sub, cfg, idx, "nonfinite_float", T::TY, V::NAME, |cx, rng, h| {
        let n = V::DIM;
        let mut x: Vec<T> = (0..n).map(|_| T::of(rng.range_i64(-64, 64) as f64 / 8.0)).collect();
        let mut y: Vec<T> = (0..n).map(|_| T::of(rng.range_i64(-64, 64) as f64 / 8.0)).collect();
        let j = rng.usize_below(n);
        let special = match idx % 3 {
            0 => f64::NAN,
            1 => f64::INFINITY,
            _ => f64::NEG_INFINITY,
        };
        let in_x = rng.bool();
        if in_x {
            x[j] = T::of(special);
        } else {
            y[j] = T::of(special);
        }
        let (xs, ys) = (to_f(&x), to_f(&y));
        h.u(idx % 3).u(in_x as u64).u(j as u64);
        for v in xs.iter().chain(ys.iter()) {
            h.f(if v.is_finite() { *v } else { 0.0 });
        }
        let (vx, vy): (V, V) = (vfrom(&x), vfrom(&y));
        let inp = || format!("a={:?} b={:?}", xs, ys);
        let diff: Vec<f64> = (0..n).map(|i| xs[i] - ys[i]).collect();
        let same = |got: f64, exp: f64| -> bool { (got.is_nan() && exp.is_nan()) || got == exp || (got.is_finite() && exp.is_finite() && (got - exp).abs() <= 64.0 * T::EPS * exp.abs().max(1.0)) };
        let m2 = cx.call("magnitude_squared", &inp, || vx.k_mag2())?.f();
        ensure!(cx, same(m2, fdotf(&xs, &xs)), "magnitude_squared", "non_finite_lane", "{}: a.magnitude_squared() = {:?}, the sum of squares is {:?}", inp(), m2, fdotf(&xs, &xs));
        let m = cx.call("magnitude", &inp, || vx.k_mag())?.f();
        ensure!(cx, same(m, fnorm(&xs)), "magnitude", "non_finite_lane", "{}: a.magnitude() = {:?}, the root of the sum of squares is {:?}", inp(), m, fnorm(&xs));
        let dt = cx.call("dot", &inp, || vx.k_dot(vy))?.f();
        ensure!(cx, same(dt, fdotf(&xs, &ys)), "dot", "non_finite_lane", "{}: a.dot(b) = {:?}, the sum of products is {:?}", inp(), dt, fdotf(&xs, &ys));
        let (e2, e1) = (fdotf(&diff, &diff), fnorm(&diff));
        let d2ab = cx.call("distance_squared", &inp, || vx.k_dist2(vy))?.f();
        let d2ba = cx.call("distance_squared", &inp, || vy.k_dist2(vx))?.f();
        let dab = cx.call("distance", &inp, || vx.k_dist(vy))?.f();
        let dba = cx.call("distance", &inp, || vy.k_dist(vx))?.f();
        ensure!(cx, same(d2ab, e2), "distance_squared", "non_finite_lane", "{}: a.distance_squared(b) = {:?}, the sum of squared differences is {:?} (a.distance(b) = {:?})", inp(), d2ab, e2, dab);
        ensure!(cx, same(d2ba, e2), "distance_squared", "non_finite_lane_swapped", "{}: b.distance_squared(a) = {:?}, the sum of squared differences is {:?}", inp(), d2ba, e2);
        ensure!(cx, same(dab, e1), "distance", "non_finite_lane", "{}: a.distance(b) = {:?}, expected {:?}", inp(), dab, e1);
        ensure!(cx, same(dba, e1), "distance", "non_finite_lane_swapped", "{}: b.distance(a) = {:?}, expected {:?}", inp(), dba, e1);
        Ok(true)
    });
}

fn angle_float<T: Fl, V: Sp<T>>(sub: &mut Sub, cfg: &Config, idx: u64) {
    drive(sub, cfg, idx, "angle_float", T::TY, V::NAME, |cx, rng, h| {
        let n = V::DIM;
        let eps = T::EPS;
        // a third of the pairs have extreme magnitudes (each squared length still far from the
        // type's overflow / underflow limits): the angle does not depend on the lengths
        let e = if rng.chance(1, 3) { if eps > 1e-10 { 17.0 } else { 150.0 } } else { 6.0 };
        let su = 10f64.powf(rng.f64_in(-e, e));
        let sv = 10f64.powf(rng.f64_in(-e, e));
        let u: Vec<T> = (0..n).map(|_| T::of(su * rng.f64_in(-1.0, 1.0))).collect();
        let mode = idx % 8;
        let v: Vec<T> = match mode {
            0 => { let k = *rng.pick(&[2.0, 0.5, 3.0, 1.0, 7.0]); u.iter().map(|x| T::of(x.f() * k)).collect() }
            1 => { let k = *rng.pick(&[-2.0, -0.5, -3.0, -1.0]); u.iter().map(|x| T::of(x.f() * k)).collect() }
            2 => { let mut w = vec![T::of(0.0); n]; w[0] = T::of(-u[1].f()); w[1] = u[0]; w }
            3 => { let d = 10f64.powf(rng.f64_in(-9.0, -2.0)); u.iter().map(|x| T::of(x.f() + su * d * rng.f64_in(-1.0, 1.0))).collect() }
            4 => vec![T::of(0.0); n],
            _ => (0..n).map(|_| T::of(sv * rng.f64_in(-1.0, 1.0))).collect(),
        };
        let (us, vs) = (to_f(&u), to_f(&v));
        hf(h, &us);
        hf(h, &vs);
        let inp = || format!("u={:?} v={:?}", us, vs);
        let a = cx.call("angle_between", &inp, || vfrom::<T, V>(&u).k_angle(vfrom(&v)))?.f();
        let (lu, lv) = (fnorm(&us), fnorm(&vs));
        if lu == 0.0 || lv == 0.0 {
            return Err(Stop::Inc("outside_domain:zero_length".into()));
        }
        let c_ref = (fdotf(&us, &vs) / (lu * lv)).clamp(-1.0, 1.0);
        let class: &'static str = match mode { 0 => "parallel", 1 => "antiparallel", _ => "general" };
        ensure!(cx, a.is_finite(), "angle_between", if mode == 0 { "parallel_not_finite" } else if mode == 1 { "antiparallel_not_finite" } else { "not_finite" }, "{}: angle_between = {} ({})", inp(), a, class);
        ensure!(cx, a >= 0.0 && a <= T::PI_T, "angle_between", "outside_0_pi", "{}: angle_between = {:e}", inp(), a);
        let tol = 128.0 * eps;
        ensure!(cx, (a.cos() - c_ref).abs() <= tol, "angle_between", "cosine_mismatch", "{}: angle_between = {:e} (cos = {:e}), u^.v^ = {:e}, tolerance {:e} ({})", inp(), a, a.cos(), c_ref, tol, class);
        // the deprecated degrees alias is the same angle, converted
        let ad = cx.call("angle_between_degrees", &inp, || vfrom::<T, V>(&u).k_angle_deg(vfrom(&v)))?.f();
        ensure!(cx, ad.is_finite() && (ad - a.to_degrees()).abs() <= 256.0 * eps * 180.0, "angle_between_degrees", "not_the_angle_in_degrees", "{}: angle_between_degrees = {:e}, angle_between = {:e} rad = {:e} degrees ({})", inp(), ad, a, a.to_degrees(), class);
        Ok(true)
    });
}

fn cross3f(a: &[f64], b: &[f64]) -> Vec<f64> {
    vec![a[1] * b[2] - a[2] * b[1], a[2] * b[0] - a[0] * b[2], a[0] * b[1] - a[1] * b[0]]
}
fn angle3f(a: &[f64], b: &[f64]) -> f64 {
    fnorm(&cross3f(a, b)).atan2(fdotf(a, b))
}
fn rand_unit3(rng: &mut Rng) -> Vec<f64> {
    loop {
        let v: Vec<f64> = (0..3).map(|_| rng.f64_in(-1.0, 1.0)).collect();
        let l = fnorm(&v);
        if l > 0.1 && l <= 1.0 {
            return v.iter().map(|x| x / l).collect();
        }
    }
}

const SLERP_APIS: [&str; 4] = ["slerp_unclamped", "slerp", "Slerp::slerp_unclamped", "Slerp::slerp"];
fn slerp_call<T: Fl>(cx: &mut Cx, which: usize, from: Vec3<T>, to: Vec3<T>, t: T, inp: &dyn Fn() -> String) -> Result<Vec<f64>, Stop> {
    let r = match which {
        0 => cx.call(SLERP_APIS[0], inp, || Vec3::slerp_unclamped(from, to, t))?,
        1 => cx.call(SLERP_APIS[1], inp, || Vec3::slerp(from, to, t))?,
        2 => cx.call(SLERP_APIS[2], inp, || <Vec3<T> as Slerp<T>>::slerp_unclamped(from, to, t))?,
        _ => cx.call(SLERP_APIS[3], inp, || <Vec3<T> as Slerp<T>>::slerp(from, to, t))?,
    };
    Ok(to_f(&r.to_vec()))
}

fn slerp_float<T: Fl>(sub: &mut Sub, cfg: &Config, idx: u64) {
    drive(sub, cfg, idx, "slerp_float", T::TY, "Vec3", |cx, rng, h| {
        let eps = T::EPS;
        let fh = rand_unit3(rng);
        let ph = loop {
            let r = rand_unit3(rng);
            let c = cross3f(&fh, &r);
            let l = fnorm(&c);
            if l > 0.1 {
                break c.iter().map(|x| x / l).collect::<Vec<f64>>();
            }
        };
        let alpha0 = match idx % 10 {
            0 => 10f64.powf(rng.f64_in(-5.0, -2.0)),
            1 => std::f64::consts::PI - 10f64.powf(rng.f64_in(-5.0, -1.0)),
            2 => std::f64::consts::FRAC_PI_2,
            _ => rng.f64_in(0.05, 3.0),
        };
        let lf = 10f64.powf(rng.f64_in(-1.0, 1.0));
        let lt = 10f64.powf(rng.f64_in(-1.0, 1.0));
        let from: Vec<T> = (0..3).map(|i| T::of(fh[i] * lf)).collect();
        let to: Vec<T> = (0..3).map(|i| T::of((fh[i] * alpha0.cos() + ph[i] * alpha0.sin()) * lt)).collect();
        let (fs, ts) = (to_f(&from), to_f(&to));
        hf(h, &fs);
        hf(h, &ts);
        // reference quantities from the values vek actually receives
        let (lf, lt) = (fnorm(&fs), fnorm(&ts));
        let alpha = angle3f(&fs, &ts);
        let s = alpha.sin();
        if s < 1e-3 {
            return Err(Stop::Inc("ill_conditioned:sin_alpha_below_1e-3".into()));
        }
        let scale = lf.max(lt);
        let cond = if alpha.cos() < 0.0 { 1.0 + 1.0 / (s * s) } else { 1.0 + 1.0 / s };
        let tol = 64.0 * eps * scale * cond;
        let (vf, vt): (Vec3<T>, Vec3<T>) = (vfrom(&from), vfrom(&to));
        let mut factors = vec![0.0, 1.0, 0.5, rng.f64_in(0.0, 1.0), rng.f64_in(0.0, 1.0)];
        for t in factors.iter_mut() {
            *t = T::of(*t).f();
        }
        h.f(factors[3]).f(factors[4]);
        for &t in &factors {
            let inp = || format!("from={:?} to={:?} factor={:e} (|from| = {:e}, |to| = {:e}, alpha = {:e}, tolerance {:e})", fs, ts, t, lf, lt, alpha, tol);
            let len_exp = lf + (lt - lf) * t;
            for which in [0usize, 2] {
                let m = SLERP_APIS[which];
                let r = slerp_call::<T>(cx, which, vf, vt, T::of(t), &inp)?;
                if t == 0.0 {
                    ensure!(cx, max_abs_diff(&r, &fs) <= tol, m, "factor_0_is_not_from", "{}: result {:?}", inp(), r);
                }
                if t == 1.0 {
                    ensure!(cx, max_abs_diff(&r, &ts) <= tol, m, "factor_1_is_not_to", "{}: result {:?}", inp(), r);
                }
                let lr = fnorm(&r);
                ensure!(cx, (lr - len_exp).abs() <= tol, m, "length_not_linearly_interpolated", "{}: result {:?} has length {:e}, lerp of the lengths = {:e}", inp(), r, lr, len_exp);
                let tol_a = 2.0 * tol / len_exp + 64.0 * eps;
                let (a1, a2) = (angle3f(&fs, &r), angle3f(&r, &ts));
                ensure!(cx, (a1 - t * alpha).abs() <= tol_a && (a2 - (1.0 - t) * alpha).abs() <= tol_a, m, "angle_not_proportional_to_factor",
                    "{}: result {:?}: angle(from, r) = {:e} (expected {:e}), angle(r, to) = {:e} (expected {:e}), tolerance {:e}", inp(), r, a1, t * alpha, a2, (1.0 - t) * alpha, tol_a);
            }
        }
        // extrapolation: the unclamped forms at factors outside [0, 1] continue the arc (rotation of
        // from's direction by t*alpha in the plane of the two vectors) and the length keeps following
        // the straight line through (0,|from|) and (1,|to|) -- "interpolates lengths linearly"
        {
            let fdir: Vec<f64> = fs.iter().map(|x| x / lf).collect();
            let tdir: Vec<f64> = ts.iter().map(|x| x / lt).collect();
            let c = alpha.cos();
            // unit vector orthogonal to fdir in the plane, on to's side
            let mut pdir: Vec<f64> = (0..3).map(|i| tdir[i] - c * fdir[i]).collect();
            let pl = fnorm(&pdir);
            for x in pdir.iter_mut() {
                *x /= pl;
            }
            for t in [-0.5, 1.5, rng.f64_in(-1.0, 0.0), rng.f64_in(1.0, 2.0)] {
                let t = T::of(t).f();
                let len_exp = lf + (lt - lf) * t;
                let expected: Vec<f64> = (0..3).map(|i| (fdir[i] * (t * alpha).cos() + pdir[i] * (t * alpha).sin()) * len_exp).collect();
                let tol_x = 8.0 * tol * (1.0 + t.abs()) * (1.0 + (len_exp.abs() / scale));
                let inp = || format!("from={:?} to={:?} factor={:e} outside [0,1] (|from| = {:e}, |to| = {:e}, alpha = {:e}, tolerance {:e})", fs, ts, t, lf, lt, alpha, tol_x);
                for which in [0usize, 2] {
                    let m = SLERP_APIS[which];
                    let r = slerp_call::<T>(cx, which, vf, vt, T::of(t), &inp)?;
                    let lr = fnorm(&r);
                    ensure!(cx, (lr - len_exp.abs()).abs() <= tol_x, m, "extrapolated_length_not_linear", "{}: result {:?} has length {:e}, the line through the endpoint lengths gives {:e}", inp(), r, lr, len_exp);
                    ensure!(cx, max_abs_diff(&r, &expected) <= tol_x, m, "extrapolated_point_off_the_arc", "{}: result {:?}, continuing the arc gives {:?}", inp(), r, expected);
                }
            }
        }
        // clamped forms at factors outside [0, 1] and inside
        for t in [-0.5, 1.75, rng.f64_in(-2.0, 0.0), rng.f64_in(1.0, 3.0), rng.f64_in(0.0, 1.0)] {
            let t = T::of(t).f();
            let tc = t.clamp(0.0, 1.0);
            let inp = || format!("from={:?} to={:?} factor={:e} (clamped {:e}, tolerance {:e})", fs, ts, t, tc, tol);
            let reference = slerp_call::<T>(cx, 0, vf, vt, T::of(tc), &inp)?;
            for which in [1usize, 3] {
                let r = slerp_call::<T>(cx, which, vf, vt, T::of(t), &inp)?;
                ensure!(cx, max_abs_diff(&r, &reference) <= tol, SLERP_APIS[which], "clamped_differs_from_unclamped_at_clamped_factor", "{}: clamped form gives {:?}, slerp_unclamped at the clamped factor gives {:?}", inp(), r, reference);
            }
        }
        Ok(true)
    });
}

/// exactly parallel inputs: the arc is degenerate, the property still promises the endpoints and
/// linearly interpolated lengths (candidate defect P12)
fn parallel_inputs<T: Fl>(idx: u64) -> (&'static str, Vec<f64>, Vec<f64>) {
    let axes: [[f64; 3]; 6] = [[1., 0., 0.], [0., 1., 0.], [0., 0., 1.], [-1., 0., 0.], [0., -1., 0.], [0., 0., -1.]];
    let bases: [[f64; 3]; 10] = [[1., 2., 2.], [2., 3., 6.], [3., 4., 0.], [1., 1., 1.], [1., 2., 3.], [-1., 4., 8.], [0.5, 0.25, 2.], [5., -7., 11.], [0.375, 0.75, 1.5], [0.0078125, 2048., 7.]];
    let ks = [2.0, 0.5, 3.0, 4.0, 1.5, 10.0];
    let j = (idx / 4) as usize;
    let q = |v: &[f64; 3], k: f64| -> Vec<f64> { v.iter().map(|x| T::of(T::of(*x).f() * k).f()).collect() };
    match idx % 4 {
        0 => ("equal_unit_axis", q(&axes[j % 6], 1.0), q(&axes[j % 6], 1.0)),
        1 => ("equal_vectors", q(&bases[j % 10], 1.0), q(&bases[j % 10], 1.0)),
        2 => ("parallel_non_unit", q(&bases[j % 10], 1.0), q(&bases[j % 10], ks[(j / 10) % 6])),
        _ => ("unit_axis_scaled", q(&axes[j % 6], 1.0), q(&axes[j % 6], ks[(j / 6) % 6])),
    }
}

fn slerp_parallel<T: Fl>(sub: &mut Sub, cfg: &Config, idx: u64) {
    drive(sub, cfg, idx, "slerp_parallel", T::TY, "Vec3", |cx, _rng, h| {
        let (pattern, fs, ts) = parallel_inputs::<T>(idx);
        h.s(pattern);
        hf(h, &fs);
        hf(h, &ts);
        let (lf, lt) = (fnorm(&fs), fnorm(&ts));
        let dir: Vec<f64> = fs.iter().map(|x| x / lf).collect();
        let tol = 256.0 * T::EPS * lf.max(lt);
        let (vf, vt): (Vec3<T>, Vec3<T>) = (vfrom(&fs.iter().map(|x| T::of(*x)).collect::<Vec<T>>()), vfrom(&ts.iter().map(|x| T::of(*x)).collect::<Vec<T>>()));
        let mut lines = Vec::new();
        let mut nan: Option<&'static str> = None;
        let mut wrong: Option<&'static str> = None;
        for t in [0.0, 1.0, 0.5, 0.25] {
            let exp: Vec<f64> = dir.iter().map(|d| d * (lf + (lt - lf) * t)).collect();
            for which in [0usize, 1] {
                let inp = || format!("[{}] from={:?} to={:?} factor={}", pattern, fs, ts, t);
                let r = slerp_call::<T>(cx, which, vf, vt, T::of(t), &inp)?;
                lines.push(format!("{}(factor {}) = {:?} (expected {:?})", SLERP_APIS[which], t, r, exp));
                if r.iter().any(|x| !x.is_finite()) {
                    nan.get_or_insert(SLERP_APIS[which]);
                } else if !(max_abs_diff(&r, &exp) <= tol) {
                    wrong.get_or_insert(SLERP_APIS[which]);
                }
            }
        }
        let detail = format!("[{}] from={:?} to={:?} (exactly parallel, |from| = {}, |to| = {}): {}", pattern, fs, ts, lf, lt, lines.join("; "));
        if let Some(m) = nan {
            return Err(cx.fail(m, "parallel_inputs_nan", detail));
        }
        if let Some(m) = wrong {
            return Err(cx.fail(m, "parallel_inputs_wrong", detail));
        }
        Ok(true)
    });
}

/// per-pattern account of what vek returns for exactly parallel slerp inputs (for the report notes)
fn parallel_summary<T: Fl>(n: u64) -> Vec<String> {
    let mut acc: std::collections::BTreeMap<&'static str, (u64, u64, u64, String)> = Default::default();
    for idx in 0..n {
        let (pattern, fs, ts) = parallel_inputs::<T>(idx);
        let (vf, vt): (Vec3<T>, Vec3<T>) = (vfrom(&fs.iter().map(|x| T::of(*x)).collect::<Vec<T>>()), vfrom(&ts.iter().map(|x| T::of(*x)).collect::<Vec<T>>()));
        let e = acc.entry(pattern).or_insert((0, 0, 0, String::new()));
        for t in [0.0, 1.0, 0.5] {
            match guarded(|| Vec3::slerp_unclamped(vf, vt, T::of(t))) {
                Ok(r) => {
                    let r = to_f(&r.to_vec());
                    if r.iter().any(|x| !x.is_finite()) {
                        e.0 += 1;
                        if e.3.is_empty() {
                            e.3 = format!("first: from={:?} to={:?} factor={} -> {:?}", fs, ts, t, r);
                        }
                    } else {
                        e.1 += 1;
                    }
                }
                Err(_) => e.2 += 1,
            }
        }
    }
    acc.into_iter().map(|(k, v)| format!("slerp_parallel {} [{}]: {} calls non-finite, {} finite, {} panicked; {}", T::TY, k, v.0, v.1, v.2, v.3)).collect()
}

fn band_case_q<V: Sp<Q>>(sub: &mut Sub, cfg: &Config, idx: u64) {
    band_case::<Q, V>(sub, cfg, idx);
}

const NORM_METHODS: [&str; 5] = ["normalized", "try_normalized", "normalize", "normalize_and_get_magnitude", "normalized_and_get_magnitude"];

/// A sub-check that already reports violations is decided: its cases stop at the first failing
/// assertion, so later entry points of the same case are not reached and few cases are "held".
/// The coverage floor and the required-entry-point list only guard *passing* runs; keeping them
/// would turn exit 1 (violations) into exit 2 (harness problem).
fn push_sub(rep: &mut Report, mut s: Sub) {
    if s.violations_total > 0 && (s.floor > 0 || !s.required.is_empty()) {
        rep.note(format!("{}: {} violations; coverage floor {} and required-entry-point list not enforced for this run", s.name, s.violations_total, s.floor));
        s.floor = 0;
        s.required.clear();
    }
    rep.push(s);
}

fn main() {
    let cfg = Config::from_args(PROP);
    let mut rep = Report::new(cfg.clone());
    for (name, ok) in [("f32", f32::from_q(f32::eps_q()) == Some(<f32 as approx::AbsDiffEq>::default_epsilon()) && <f32 as RelativeEq>::default_max_relative() == f32::EPSILON),
                       ("f64", f64::from_q(f64::eps_q()) == Some(<f64 as approx::AbsDiffEq>::default_epsilon()) && <f64 as RelativeEq>::default_max_relative() == f64::EPSILON),
                       ("Q", <Q as approx::AbsDiffEq>::default_epsilon() == Q::eps_q() && <Q as RelativeEq>::default_max_relative() == Q::eps_q())] {
        assert!(ok, "RelativeEq defaults of {} are not what the band oracles assume", name);
    }

    // ---- Sym traces: deterministic, one execution per (kind, method, law)
    {
        let mut s = Sub::new("poly_trace", "one Sym-traced execution of vek's real code on free symbols per (kind, method, law): 9 spatial kinds x {dot, magnitude_squared, magnitude, distance_squared, distance, normalized, normalize, normalize_and_get_magnitude, normalized_and_get_magnitude, reflected}, Vec3::cross (determinant components, bilinear in both arguments for + and scalar *, anticommutative, orthogonal to both operands, Lagrange), Vec2::determine_side / signed_triangle_area, Vec4::homogenized / homogenize; every logged output expression is compared with the definition by polynomial identity testing at 6 random points of GF(2^61-1), sqrt as an uninterpreted function; distinct = distinct (method, law) pairs")
            .with_floor(100);
        s = req(s, &ALL_KINDS, &["dot", "magnitude_squared", "magnitude", "distance_squared", "distance", "normalized", "normalize", "normalize_and_get_magnitude", "normalized_and_get_magnitude", "reflected"]);
        s = s.require(&["Vec3::cross", "Vec2::determine_side", "Vec2::signed_triangle_area", "Vec4::homogenized", "Vec4::homogenize"]);
        if cfg.wants("poly_trace") {
            all_kinds!(trace_generic, Sym, &mut s, &cfg);
            trace_special(&mut s, &cfg);
        } else {
            s.floor = 0;
            s.required.clear();
        }
        push_sub(&mut rep, s);
    }

    // ---- exact tiers
    let nk = ALL_KINDS.len() as u64;
    {
        let n = cfg.n(1000, 40_000);
        let proto = req(Sub::new("identities_q", "random boundary-biased exact rational vectors (0, +-1, small integers, small fractions) through dot, magnitude_squared, distance_squared, reflected (arbitrary, non-unit normal) for all 9 kinds, compared exactly with the component formulas; non-trivial = both operands have >= 2 non-zero components; distinct by hash of (kind, all components)").with_floor(n * nk / 3), &ALL_KINDS, &["dot", "magnitude_squared", "distance_squared", "reflected"]);
        push_sub(&mut rep, run_cases(&cfg, proto, n, |s, i| { all_kinds!(identities_q, Q, s, &cfg, i); }));
    }
    {
        let n = cfg.n(10_000, 300_000);
        let proto = Sub::new("cross_q", "random exact rational triples a, b, c and scalar s: Vec3::cross against the determinant (Levi-Civita) components, anticommutativity, orthogonality to both operands, Lagrange identity, additivity and homogeneity in each argument (vek against vek); non-trivial = a x b != 0; distinct by hash of the inputs").with_floor(n / 4).require(&["Vec3::cross"]);
        push_sub(&mut rep, run_cases(&cfg, proto, n, |s, i| cross_q(s, &cfg, i)));
    }
    {
        let n = cfg.n(1000, 40_000);
        let proto = req(Sub::new("magnitude_q", "vectors of rational length in every kind (stereographic rational points of the unit sphere scaled by a rational, shared Pythagorean generators for 2-D/3-D, lower-dimensional tuples extended with zeros): magnitude = length, magnitude_squared = length^2, magnitude^2 = magnitude_squared, distance(p+v, p) = distance(p, p+v) = length, distance_squared consistent; non-trivial = >= 2 non-zero components; distinct by hash of (kind, v, p)").with_floor(n * nk / 3), &ALL_KINDS, &["magnitude", "magnitude_squared", "distance", "distance_squared"]);
        push_sub(&mut rep, run_cases(&cfg, proto, n, |s, i| { all_kinds!(magnitude_q, Q, s, &cfg, i); }));
    }
    {
        let n = cfg.n(1000, 40_000);
        let mut ms: Vec<&str> = NORM_METHODS.to_vec();
        ms.extend(["is_normalized", "is_magnitude_close_to", "is_approx_zero"]);
        let proto = req(Sub::new("normalize_q", "vectors of rational length L: the five normalisation forms each return u with u_i * L = v_i exactly (parallel, same orientation) and sum u_i^2 = 1, returned magnitudes = L, try_normalized is Some, is_normalized(u), is_normalized(v) per the exact RelativeEq band, is_magnitude_close_to(L) and not (L+1), not is_approx_zero; non-trivial = >= 2 non-zero components").with_floor(n * nk / 3), &ALL_KINDS, &ms);
        push_sub(&mut rep, run_cases(&cfg, proto, n, |s, i| { all_kinds!(normalize_q, Q, s, &cfg, i); }));
    }
    {
        let n = cfg.n(1500, 30_000);
        let proto = req(Sub::new("bands_q", "30 patterns per kind hitting the RelativeEq(4 eps, 4 eps) band of the squared magnitude exactly: zero vector; |v|^2 = 4 eps * f^2 for f in {1, 1-+2^-8, 1/2, 2, 2^-20, 2^10, 1+-2^-30} against 0 (is_approx_zero, try_normalized None exactly when is_approx_zero, Some is unit and parallel); |v|^2 = 1 + 4 eps f^2, axis*(1 - 2^-51..49), rational unit vectors scaled by 1, 1+2^-53, 1+2^-40 against 1 (is_normalized); direction * x * f against rational x (is_magnitude_close_to); expected value = the documented relative_eq algorithm evaluated exactly; components at random positions with random signs; non-trivial = non-zero vector; distinct by hash of (pattern, components, x); the pattern space is finite, hence the capped floor").with_floor((n * nk / 4).min(30_000)), &ALL_KINDS, &["is_magnitude_close_to", "is_approx_zero", "try_normalized", "is_normalized"]);
        push_sub(&mut rep, run_cases(&cfg, proto, n, |s, i| { all_kinds!(band_case_q, Q, s, &cfg, i); }));
    }
    {
        let n = cfg.n(1000, 40_000);
        let proto = req(Sub::new("mirror_q", "random rational v and an exact rational unit normal n in every kind: reflected(v, n).n = -(v.n), tangential part r - (r.n)n unchanged, length unchanged; non-trivial = v.n != 0 and tangential part != 0").with_floor(n * nk / 3), &ALL_KINDS, &["reflected"]);
        push_sub(&mut rep, run_cases(&cfg, proto, n, |s, i| { all_kinds!(mirror_q, Q, s, &cfg, i); }));
    }
    {
        let n = cfg.n(1500, 50_000);
        let proto = req(Sub::new("snell_q", "exact unit normal n and tangent t (two columns of a rational Householder reflection), unit incident i = c n + s t with (c, s) a rational point of the circle (incl. normal and grazing incidence, both signs of n.i), eta constructed so that k = 1 - eta^2 s^2 is a rational square (> 0), exactly 0 (critical angle), negative (total internal reflection), or eta = 1: zero vector exactly when eta^2 s^2 > 1; otherwise non-zero, unit, tangential part = eta * tangential part of i, r.n <= 0 when n faces the incident ray, eta = 1 returns i; non-trivial = oblique incidence (s != 0, c != 0); distinct by hash of (kind, n, t, c, s, eta)").with_floor(n * nk / 4), &ALL_KINDS, &["refracted"]);
        push_sub(&mut rep, run_cases(&cfg, proto, n, |s, i| { all_kinds!(snell_q, Q, s, &cfg, i); }));
    }
    {
        let n = cfg.n(1000, 40_000);
        let proto = req(Sub::new("face_forward_q", "random rational self/incident/reference in every kind, one third of the cases with reference.incident forced to exactly 0: result = self when the dot product is <= 0, -self otherwise; non-trivial = self != 0").with_floor(n * nk / 3), &ALL_KINDS, &["face_forward"]);
        push_sub(&mut rep, run_cases(&cfg, proto, n, |s, i| { all_kinds!(face_forward_q, Q, s, &cfg, i); }));
    }
    {
        let na = cfg.n(400, 40_000);
        let proto = Sub::new("area_native", "Vec2<f32> (vertices near +-7e6, edges up to 2000), Vec2<f64> (near +-2^50, edges up to 2^20), Vec2<i16> (near +-400, edges up to 100), Vec2<i32> (near +-2e6, edges up to 3000), Vec2<i64>: integer-valued vertices so that the edge vectors and their cross product are exact in the type; determine_side = (b-a) x (c-a), signed_triangle_area = half of it (integer types: truncating division), triangle_area = its absolute value for both windings; a panic is a violation; non-trivial = not collinear").with_floor(na * 3).require(&["Vec2::signed_triangle_area", "Vec2::triangle_area", "Vec2::determine_side"]);
        push_sub(&mut rep, run_cases(&cfg, proto, na, |s, i| {
            area_native_case!(s, &cfg, i, f32, "f32", 7_000_000, 2000, |k: i64| k as f32, |x: f32| x as f64);
            area_native_case!(s, &cfg, i, f64, "f64", 1i64 << 50, 1i64 << 20, |k: i64| k as f64, |x: f64| x);
            area_native_case!(s, &cfg, i, i16, "i16", 400, 100, |k: i64| k as i16, |x: i16| x as f64);
            area_native_case!(s, &cfg, i, i32, "i32", 2_000_000, 3000, |k: i64| k as i32, |x: i32| x as f64);
            area_native_case!(s, &cfg, i, i64, "i64", 1i64 << 40, 1i64 << 20, |k: i64| k, |x: i64| x as f64);
        }));
    }
    {
        let na = cfg.n(400, 40_000);
        let proto = Sub::new("area_unsigned", "Vec2<u8> (corner up to 100, edges up to 12), Vec2<u16> (corner up to 30000, edges up to 180), Vec2<u32> (corner up to 2^31, edges up to 46000), Vec2<u64> (corner up to 2^62, edges up to 2^31): b >= a and c >= a componentwise with c left of or on ab, so that b-a, c-a, both products and the cross product are natural numbers that fit the type; determine_side = (b-a) x (c-a) and signed_triangle_area = half of it (truncating); a panic (the `checked` profile has overflow checks) is a violation; non-trivial = not collinear").with_floor(na * 2).require(&["Vec2::signed_triangle_area", "Vec2::determine_side"]);
        push_sub(&mut rep, run_cases(&cfg, proto, na, |s, i| {
            area_unsigned_case!(s, &cfg, i, u8, "u8", 100, 12);
            area_unsigned_case!(s, &cfg, i, u16, "u16", 30_000, 180);
            area_unsigned_case!(s, &cfg, i, u32, "u32", 1i64 << 31, 46_000);
            area_unsigned_case!(s, &cfg, i, u64, "u64", 1i64 << 62, 1i64 << 31);
        }));
    }
    {
        // enumerated: per type (bits-1) splits of MIN into 2^p * -2^q, k = 0..3, plus MAX - k, k = 0..3
        let n = (63 * 4 + 4) as u64;
        let mut proto = Sub::new("area_extreme", "Vec2<i8/i16/i32/i64> triangles whose cross product (b-a) x (c-a) is exactly T::MIN (= 2^p * -(2^q) for every split p+q = bits-1), MIN + k and MAX - k for k = 0..3, with every coordinate, edge, product, the difference, the halved value and its negation representable: determine_side = the cross product, signed_triangle_area = half of it (truncating), triangle_area = its absolute value (2^(bits-2) for MIN); release and overflow-checked profiles, a panic is a violation; the opposite winding is not called (its cross product does not exist in the type); enumerated").with_floor(200).require(&["Vec2::signed_triangle_area", "Vec2::triangle_area", "Vec2::determine_side"]);
        proto.exhaustive = true;
        push_sub(&mut rep, run_cases(&cfg, proto, n, |s, i| {
            if i < 7 * 4 + 4 { area_extreme_case!(s, &cfg, i, i8, "i8"); }
            if i < 15 * 4 + 4 { area_extreme_case!(s, &cfg, i, i16, "i16"); }
            if i < 31 * 4 + 4 { area_extreme_case!(s, &cfg, i, i32, "i32"); }
            area_extreme_case!(s, &cfg, i, i64, "i64");
        }));
    }
    {
        let n = cfg.n(10_000, 300_000);
        let proto = Sub::new("side_area_q", "rational segment a != b and c = a + alpha (b-a) + beta left(b-a) (left = rotated +90 degrees; beta = 0 in a quarter of the cases): determine_side = beta |b-a|^2 (positive = left of ab as documented), signed_triangle_area = half of it (cross-checked with the shoelace formula), triangle_area = absolute value; non-trivial = beta != 0").with_floor(n / 4).require(&["Vec2::determine_side", "Vec2::signed_triangle_area", "Vec2::triangle_area"]);
        push_sub(&mut rep, run_cases(&cfg, proto, n, |s, i| side_area_q(s, &cfg, i)));
    }
    {
        let n = cfg.n(10_000, 300_000);
        let proto = Sub::new("homog_q", "random rational Vec4 with w != 0 (w = 1, -1, random): homogenized / homogenize give w = 1 exactly and x,y,z with out_i * w = v_i; the result is_point; non-trivial = w != 1").with_floor(n / 4).require(&["Vec4::homogenized", "Vec4::homogenize", "Vec4::is_point"]);
        push_sub(&mut rep, run_cases(&cfg, proto, n, |s, i| homog_q(s, &cfg, i)));
    }
    {
        let nh = cfg.n(400, 40_000);
        let proto = Sub::new("homog_native", "Vec4<i32>, Vec4<i64>, Vec4<f32>, Vec4<f64> of the form (a w, b w, c w, w) with integers |a|,|b|,|c| <= 900 and w in {1, -1, +-2..120, +-1..1000} (every product exact in the type): homogenized / homogenize must return (a, b, c, 1) exactly; non-trivial = w != 1").with_floor(nh * 3).require(&["Vec4::homogenized", "Vec4::homogenize"]);
        push_sub(&mut rep, run_cases(&cfg, proto, nh, |s, i| {
            homog_native_case!(s, &cfg, i, i32, "i32", |k: i64| k as i32);
            homog_native_case!(s, &cfg, i, i64, "i64", |k: i64| k);
            homog_native_case!(s, &cfg, i, f32, "f32", |k: i64| k as f32);
            homog_native_case!(s, &cfg, i, f64, "f64", |k: i64| k as f64);
        }));
    }
    {
        let n = cfg.n(2300, 23_000);
        let proto = Sub::new("homog_bands", "Vec4 is_point / is_direction / is_homogeneous for Q, f32, f64 with w enumerated over {0, 1, 1+-eps, 1+-eps/2, 1+-2eps, 1+-4eps, +-eps, +-eps/2, +-2eps, +-4eps, 2, -1, 1/2, eps(1+-2^-8), 1+-eps(1+2^-8)} (only exactly representable values per type), x,y,z random; expected = documented relative_eq(eps, eps) evaluated exactly; float cases within a factor 2 of the relative edge are inconclusive").with_floor(n / 2).require(&["Vec4::is_point", "Vec4::is_direction", "Vec4::is_homogeneous"]);
        push_sub(&mut rep, run_cases(&cfg, proto, n, |s, i| { homog_bands::<Q>(s, &cfg, i); homog_bands::<f32>(s, &cfg, i); homog_bands::<f64>(s, &cfg, i); }));
    }

    // ---- float tiers
    let nsk = SMALL_KINDS.len() as u64;
    {
        let n = cfg.n(1500, 15_000);
        let proto = req(Sub::new("bands_float", "the band patterns of bands_q on f32 and f64 (Vec2/3/4/8, Extent2/3) restricted to inputs for which every square, partial sum and difference is exactly representable (then judged by the exact algorithm, except within a factor 2 of the relative edge) or which are at least 16 bands away (expected false); everything else inconclusive; the pattern space is finite (pattern x positions x signs), hence the fixed floor").with_floor(1500), &SMALL_KINDS, &["is_magnitude_close_to", "is_approx_zero", "try_normalized", "is_normalized"]);
        push_sub(&mut rep, run_cases(&cfg, proto, n, |s, i| { small_kinds!(band_case, f32, s, &cfg, i); small_kinds!(band_case, f64, s, &cfg, i); }));
    }
    {
        let n = cfg.n(4000, 400_000);
        let mut ms: Vec<&str> = NORM_METHODS.to_vec();
        ms.extend(["is_approx_zero", "magnitude", "magnitude_squared", "distance", "distance_squared"]);
        let proto = req(Sub::new("normalize_float", "f32/f64 vectors (Vec2/3/4/8, Extent2/3) with magnitudes 1e-10..1e10, the zero vector, single-component vectors and vectors with |v|^2 within a factor 16 of 4 eps: try_normalized is None exactly when is_approx_zero; is_approx_zero = (|v|^2 <= 4 eps) unless within 1e-6 of the edge; every normalisation form unit within 64 eps and parallel (u_i |v| = v_i within 64 eps |v|); magnitudes and distances within 64 eps relative to an f64 reference; non-trivial = non-zero vector").with_floor(n * nsk), &SMALL_KINDS, &ms);
        push_sub(&mut rep, run_cases(&cfg, proto, n, |s, i| { small_kinds!(normalize_float, f32, s, &cfg, i); small_kinds!(normalize_float, f64, s, &cfg, i); }));
    }
    {
        let n = cfg.n(2000, 200_000);
        let proto = req(Sub::new("nonfinite_float", "f32/f64 pairs (Vec2/3/4/8, Extent2/3) of short dyadic vectors in which ONE lane of ONE operand is NaN, +inf or -inf: magnitude_squared, magnitude, dot, distance_squared and distance, the last two in both operand orders, must equal (NaN = NaN) what the defining sums over the lanes evaluate to in the type, so that a distance and its square agree for these inputs too; distinct by hash of kind of special value, lane, operand and the finite lanes"), &SMALL_KINDS, &["magnitude", "magnitude_squared", "dot", "distance", "distance_squared"]).with_floor(n * 6);
        push_sub(&mut rep, run_cases(&cfg, proto, n, |s, i| { small_kinds!(nonfinite_float, f32, s, &cfg, i); small_kinds!(nonfinite_float, f64, s, &cfg, i); }));
    }
    {
        let n = cfg.n(4000, 400_000);
        let proto = req(Sub::new("angle_float", "f32/f64 pairs (Vec2/3/4/8, Extent2/3), magnitudes 1e-6..1e6 (a third 1e-17..1e17 for f32, 1e-150..1e150 for f64): general, exactly parallel (v = k u), antiparallel, orthogonal by construction, nearly parallel (relative perturbation 1e-9..1e-2); zero-length operands are outside the domain (inconclusive): angle_between finite, in [0, pi_T], |cos(angle) - u^.v^| <= 128 eps with u^.v^ computed in f64").with_floor(n * nsk), &SMALL_KINDS, &["angle_between"]);
        push_sub(&mut rep, run_cases(&cfg, proto, n, |s, i| { small_kinds!(angle_float, f32, s, &cfg, i); small_kinds!(angle_float, f64, s, &cfg, i); }));
    }
    {
        let n = cfg.n(20_000, 2_000_000);
        let proto = Sub::new("slerp_float", "Vec3<f32/f64>: from = random direction * length, to = direction rotated by alpha about a random axis * length, lengths 0.1..10, alpha uniform in (0.05, 3.0), plus pi/2 and near 0 / near pi; sin(alpha) < 1e-3 is ill_conditioned (inconclusive); factors 0, 1, 1/2 and two random in [0,1] through the inherent and the Slerp-trait slerp_unclamped: factor 0 -> from, 1 -> to, |result| = lerp(|from|, |to|, t), angle(from, result) = t alpha and angle(result, to) = (1-t) alpha; unclamped forms at 4 factors in [-1,0) u (1,2]: the point continues the arc and its length follows the line through the endpoint lengths; clamped forms (inherent and trait) at 5 factors in [-2, 3] equal slerp_unclamped at the clamped factor; tolerance 64 eps * max length * (1 + 1/sin alpha) (acute) or (1 + 1/sin^2 alpha) (obtuse)")
            .with_floor(n).require(&["Vec3::slerp_unclamped", "Vec3::slerp", "<Vec3 as Slerp>::slerp_unclamped", "<Vec3 as Slerp>::slerp"]);
        push_sub(&mut rep, run_cases(&cfg, proto, n, |s, i| { slerp_float::<f32>(s, &cfg, i); slerp_float::<f64>(s, &cfg, i); }));
    }
    {
        // finite enumeration: 4 patterns x (6 axes | 10 bases) x 6 factors; no floor, because on a tree
        // with the P12 defect most of these cases are violations, not held cases
        let n = 4 * 60;
        let proto = Sub::new("slerp_parallel", "Vec3<f32/f64> slerp_unclamped / slerp with exactly parallel inputs (from = to = unit axis; from = to = general vector; to = k from with k in {2, 1/2, 3, 4, 3/2, 10}; unit axis and its multiple), all products exact in the type, factors 0, 1, 1/2, 1/4: the property promises factor 0 -> from, 1 -> to and linearly interpolated length, i.e. direction * lerp(|from|, |to|, t) within 256 eps; a non-finite component is reported as parallel_inputs_nan, a finite wrong value as parallel_inputs_wrong; antiparallel inputs are outside the domain and not generated")
            .require(&["Vec3::slerp_unclamped", "Vec3::slerp"]);
        let s = run_cases(&cfg, proto, n, |s, i| { slerp_parallel::<f32>(s, &cfg, i); slerp_parallel::<f64>(s, &cfg, i); });
        push_sub(&mut rep, s);
        if cfg.wants("slerp_parallel") && cfg.only_index.is_none() {
            for line in parallel_summary::<f32>(n).into_iter().chain(parallel_summary::<f64>(n)) {
                rep.note(line);
            }
        }
    }
    std::process::exit(rep.finish());
}

//! C03 — element (i,j) means row i, column j in every matrix API, whatever the layout.
//!
//! `programs`: random call sequences over the layout-agnostic matrix API run side by side on a
//! row-major matrix, a column-major matrix (both of `Tag` tokens) and an abstract `N x N` grid
//! of ids updated by the textbook meaning of each call.  After every step both vek values are
//! read through their raw public fields (`props::MatX::at`) and compared with the grid; values
//! a call returns (vectors, arrays, slices, text, flags) are compared with what the grid says.
//! `trace_sym`: `trace` on free symbols (polynomial identity).  `casts`: `as_` / `numcast` per
//! element against the scalar cast.  `own_conversions`: the same conversions on a heap-owning
//! non-`Copy` element with an ownership ledger.  `--tool miri`: the unsafe-backed subset
//! (slice views, array conversions) single-threaded for `Tag` and `Own`.

use monitors::fp::Fp;
use monitors::prng::{mix2, Rng, H64};
use monitors::report::{guarded, run_cases, Config, Report, Sub};
use monitors::sym::{sym_reset, Sym};
use monitors::tag::{ledger_len, ledger_live, ledger_reset, ledger_slot, ledger_take_errors, Own, Tag, RAW_MEMORY, TAG_ONE, TAG_ZERO};
use num_traits::{NumCast, One, Zero};
use props::*;
use std::fmt::{Debug, Display};
use vek::vec::repr_c::{Vec2, Vec3, Vec4};

const PROP: &str = "C03";

/// abstract model: grid[i][j] = id of the element in row i, column j
type Grid = Vec<Vec<u32>>;

trait Ident {
    fn ident(&self) -> u32;
}
impl Ident for Tag {
    fn ident(&self) -> u32 {
        self.0
    }
}
impl Ident for Own {
    fn ident(&self) -> u32 {
        self.id()
    }
}

fn raw_grid<T: Ident, M: MatX<T>>(m: &M) -> Grid {
    (0..M::N).map(|i| (0..M::N).map(|j| m.at(i, j).ident()).collect()).collect()
}
fn transpose_grid(g: &Grid) -> Grid {
    let n = g.len();
    (0..n).map(|i| (0..n).map(|j| g[j][i]).collect()).collect()
}
/// row-by-row (col = false) or column-by-column (col = true) listing of the abstract matrix
fn listing(g: &Grid, col: bool) -> Vec<u32> {
    let n = g.len();
    let mut v = Vec::with_capacity(n * n);
    for a in 0..n {
        for b in 0..n {
            v.push(if col { g[b][a] } else { g[a][b] });
        }
    }
    v
}
fn diag_grid(d: &[u32]) -> Grid {
    let n = d.len();
    (0..n).map(|i| (0..n).map(|j| if i == j { d[i] } else { TAG_ZERO }).collect()).collect()
}
fn idname(x: u32) -> String {
    match x {
        TAG_ZERO => "ZERO".to_string(),
        TAG_ONE => "ONE".to_string(),
        x => format!("{}", x),
    }
}
fn show_list(v: &[u32]) -> String {
    format!("[{}]", v.iter().map(|x| idname(*x)).collect::<Vec<_>>().join(" "))
}
fn show(g: &Grid) -> String {
    g.iter().map(|r| show_list(r)).collect::<Vec<_>>().join(" ")
}
fn sorted(mut v: Vec<u32>) -> Vec<u32> {
    v.sort_unstable();
    v
}
fn mint1(s: u32, a: u32) -> u32 {
    ((mix2(s as u64, a as u64) as u32) & 0x3FFF_FFFF) | 0x4000_0000
}
fn mint2(s: u32, a: u32, b: u32) -> u32 {
    ((mix2(mix2(s as u64, a as u64), b as u64) as u32) & 0x3FFF_FFFF) | 0x4000_0000
}

fn flat<T, const K: usize>(a: Vec<T>) -> [T; K] {
    match <[T; K]>::try_from(a) {
        Ok(x) => x,
        Err(_) => panic!("harness: wrong array length"),
    }
}
fn nest<T, const N: usize>(a: Vec<T>) -> [[T; N]; N] {
    let mut it = a.into_iter();
    let lines: Vec<[T; N]> = (0..N).map(|_| flat::<T, N>(it.by_ref().take(N).collect())).collect();
    flat::<[T; N], N>(lines)
}

// ------------------------------------------------------------------------------------------
// vek's layout-agnostic API behind one trait, so that programs are written once for six types.
// Every method is a direct call of the vek function of the same name.

trait Api<T>: MatX<T> {
    type Other: Api<T, Other = Self>;
    const GL: bool;
    const ROWS: usize;
    const COLS: usize;
    const MAP_LINES: &'static str;
    const SLICE: &'static str;
    const SLICE_MUT: &'static str;
    fn v_new(e: Vec<T>) -> Self;
    fn v_index(&self, i: usize, j: usize) -> &T;
    fn v_index_mut(&mut self, i: usize, j: usize) -> &mut T;
    fn v_transposed(self) -> Self;
    fn v_transpose(&mut self);
    fn v_diagonal(self) -> Vec<T>;
    fn v_with_diagonal(d: Vec<T>) -> Self
    where
        T: Zero + Copy;
    fn v_broadcast_diagonal(v: T) -> Self
    where
        T: Zero + Copy;
    fn v_map(self, f: &mut dyn FnMut(T) -> T) -> Self;
    fn v_map2(self, o: Self, f: &mut dyn FnMut(T, T) -> T) -> Self;
    fn v_apply(&mut self, f: &mut dyn FnMut(T) -> T)
    where
        T: Copy;
    fn v_apply2(&mut self, o: Self, f: &mut dyn FnMut(T, T) -> T)
    where
        T: Copy;
    fn v_map_lines(self, f: &mut dyn FnMut(Vec<T>) -> Vec<T>) -> Self;
    fn v_from_other(o: Self::Other) -> Self;
    fn v_into_array(self, col: bool, nested: bool) -> Vec<T>;
    fn v_from_array(a: Vec<T>, col: bool, nested: bool) -> Self;
    fn v_slice(&self) -> &[T];
    fn v_slice_mut(&mut self) -> &mut [T];
    fn v_display(&self) -> String
    where
        T: Display;
    fn v_default() -> Self
    where
        T: Zero + One;
    fn v_identity() -> Self
    where
        T: Zero + One;
    fn v_gl(&self) -> bool;
    fn v_counts(&self) -> (usize, usize, bool);
}

macro_rules! nx {
    ($e:tt $it:ident) => {
        $it.next().unwrap()
    };
}

macro_rules! impl_api {
    ($M:ident, $O:ident, $V:ident, $map_lines:ident, $slice:ident, $slice_mut:ident, [$($e:tt)*]) => {
        impl<T> Api<T> for $M<T> {
            type Other = $O<T>;
            const GL: bool = <$M<T>>::GL_SHOULD_TRANSPOSE;
            const ROWS: usize = <$M<T>>::ROW_COUNT;
            const COLS: usize = <$M<T>>::COL_COUNT;
            const MAP_LINES: &'static str = stringify!($map_lines);
            const SLICE: &'static str = stringify!($slice);
            const SLICE_MUT: &'static str = stringify!($slice_mut);
            fn v_new(e: Vec<T>) -> Self {
                let mut it = e.into_iter();
                <$M<T>>::new($(nx!($e it)),*)
            }
            fn v_index(&self, i: usize, j: usize) -> &T {
                &self[(i, j)]
            }
            fn v_index_mut(&mut self, i: usize, j: usize) -> &mut T {
                &mut self[(i, j)]
            }
            fn v_transposed(self) -> Self {
                self.transposed()
            }
            fn v_transpose(&mut self) {
                self.transpose()
            }
            fn v_diagonal(self) -> Vec<T> {
                VecX::into_fields(self.diagonal())
            }
            fn v_with_diagonal(d: Vec<T>) -> Self where T: Zero + Copy {
                <$M<T>>::with_diagonal(<$V<T> as VecX<T>>::from_fn(|k| d[k]))
            }
            fn v_broadcast_diagonal(v: T) -> Self where T: Zero + Copy {
                <$M<T>>::broadcast_diagonal(v)
            }
            fn v_map(self, f: &mut dyn FnMut(T) -> T) -> Self {
                self.map(|x| f(x))
            }
            fn v_map2(self, o: Self, f: &mut dyn FnMut(T, T) -> T) -> Self {
                self.map2(o, |a, b| f(a, b))
            }
            fn v_apply(&mut self, f: &mut dyn FnMut(T) -> T) where T: Copy {
                self.apply(|x| f(x))
            }
            fn v_apply2(&mut self, o: Self, f: &mut dyn FnMut(T, T) -> T) where T: Copy {
                self.apply2(o, |a, b| f(a, b))
            }
            fn v_map_lines(self, f: &mut dyn FnMut(Vec<T>) -> Vec<T>) -> Self {
                self.$map_lines(|l| {
                    let out = f(VecX::into_fields(l));
                    let mut it = out.into_iter();
                    <$V<T> as VecX<T>>::from_fn(|_| it.next().unwrap())
                })
            }
            fn v_from_other(o: $O<T>) -> Self {
                <$M<T> as From<$O<T>>>::from(o)
            }
            fn v_into_array(self, col: bool, nested: bool) -> Vec<T> {
                match (col, nested) {
                    (false, false) => self.into_row_array().into_iter().collect(),
                    (false, true) => self.into_row_arrays().into_iter().flat_map(|a| a.into_iter()).collect(),
                    (true, false) => self.into_col_array().into_iter().collect(),
                    (true, true) => self.into_col_arrays().into_iter().flat_map(|a| a.into_iter()).collect(),
                }
            }
            fn v_from_array(a: Vec<T>, col: bool, nested: bool) -> Self {
                match (col, nested) {
                    (false, false) => <$M<T>>::from_row_array(flat(a)),
                    (false, true) => <$M<T>>::from_row_arrays(nest(a)),
                    (true, false) => <$M<T>>::from_col_array(flat(a)),
                    (true, true) => <$M<T>>::from_col_arrays(nest(a)),
                }
            }
            fn v_slice(&self) -> &[T] {
                self.$slice()
            }
            fn v_slice_mut(&mut self) -> &mut [T] {
                self.$slice_mut()
            }
            fn v_display(&self) -> String where T: Display {
                format!("{}", self)
            }
            fn v_default() -> Self where T: Zero + One {
                <$M<T> as Default>::default()
            }
            fn v_identity() -> Self where T: Zero + One {
                <$M<T>>::identity()
            }
            fn v_gl(&self) -> bool {
                self.gl_should_transpose()
            }
            fn v_counts(&self) -> (usize, usize, bool) {
                (self.row_count(), self.col_count(), self.is_packed())
            }
        }
    };
}

impl_api!(Rows2, Cols2, Vec2, map_rows, as_row_slice, as_mut_row_slice, [e e e e]);
impl_api!(Cols2, Rows2, Vec2, map_cols, as_col_slice, as_mut_col_slice, [e e e e]);
impl_api!(Rows3, Cols3, Vec3, map_rows, as_row_slice, as_mut_row_slice, [e e e e e e e e e]);
impl_api!(Cols3, Rows3, Vec3, map_cols, as_col_slice, as_mut_col_slice, [e e e e e e e e e]);
impl_api!(Rows4, Cols4, Vec4, map_rows, as_row_slice, as_mut_row_slice, [e e e e e e e e e e e e e e e e]);
impl_api!(Cols4, Rows4, Vec4, map_cols, as_col_slice, as_mut_col_slice, [e e e e e e e e e e e e e e e e]);

fn nm<T, M: MatX<T>>(f: &str) -> String {
    format!("{}::{}", M::NAME, f)
}
fn nm_from<T, M: Api<T>>() -> String {
    format!("From<{}> for {}", <M::Other as MatX<T>>::NAME, M::NAME)
}
fn array_fn(into: bool, col: bool, nested: bool) -> &'static str {
    match (into, col, nested) {
        (true, false, false) => "into_row_array",
        (true, false, true) => "into_row_arrays",
        (true, true, false) => "into_col_array",
        (true, true, true) => "into_col_arrays",
        (false, false, false) => "from_row_array",
        (false, false, true) => "from_row_arrays",
        (false, true, false) => "from_col_array",
        (false, true, true) => "from_col_arrays",
    }
}

// ------------------------------------------------------------------------------------------
// failures and the per-case context

struct Fail {
    api: String,
    class: &'static str,
    what: String,
    detail: String,
}
fn fail(api: &str, what: &str, detail: String) -> Fail {
    Fail { api: api.to_string(), class: "wrong_value", what: what.to_string(), detail }
}

struct Cx {
    next: u32,
    salts: u32,
    apis: Vec<String>,
    /// first failed comparison of the current step (both layouts are always exercised
    /// before the step is judged)
    pending: Option<Fail>,
}
impl Cx {
    fn new() -> Cx {
        Cx { next: 1, salts: 0, apis: Vec::new(), pending: None }
    }
    fn fresh(&mut self) -> u32 {
        let v = self.next;
        self.next += 1;
        v
    }
    fn fresh_grid(&mut self, n: usize) -> Grid {
        (0..n).map(|_| (0..n).map(|_| self.fresh()).collect()).collect()
    }
    fn defer(&mut self, r: Result<(), Fail>) {
        if let Err(f) = r {
            if self.pending.is_none() {
                self.pending = Some(f);
            }
        }
    }
    fn salt(&mut self) -> u32 {
        self.salts += 1;
        self.salts
    }
    fn flush(&mut self, sub: &mut Sub) {
        for a in self.apis.drain(..) {
            sub.saw(&a);
        }
    }
}

/// one guarded call into vek; a panic is a failure of class `panic`
fn call<V>(cx: &mut Cx, api: String, f: impl FnOnce() -> V) -> Result<V, Fail> {
    let r = guarded(f);
    match r {
        Ok(v) => {
            cx.apis.push(api);
            Ok(v)
        }
        Err(p) => {
            let f = Fail { api: api.clone(), class: "panic", what: "panic".to_string(), detail: format!("{} panicked: {}", api, p) };
            cx.apis.push(api);
            Err(f)
        }
    }
}

fn expect_matrix<T: Ident, M: MatX<T>>(m: &M, exp: &Grid, api: &str, what: &str) -> Result<(), Fail> {
    for i in 0..M::N {
        for j in 0..M::N {
            let got = m.at(i, j).ident();
            if got != exp[i][j] {
                return Err(fail(
                    api,
                    what,
                    format!("{}: raw element (row {}, column {}) of the {} value is {} but the abstract matrix has {}; vek value = {}, abstract = {}", api, i, j, M::NAME, idname(got), idname(exp[i][j]), show(&raw_grid(m)), show(exp)),
                ));
            }
        }
    }
    Ok(())
}
fn expect_list(got: &[u32], exp: &[u32], api: &str, what: &str, descr: &str) -> Result<(), Fail> {
    if got != exp {
        return Err(fail(api, what, format!("{}: {} is {} but the abstract matrix gives {}", api, descr, show_list(got), show_list(exp))));
    }
    Ok(())
}

// ------------------------------------------------------------------------------------------
// programs over Tag matrices

#[derive(Clone, Copy, Debug, PartialEq)]
enum Op {
    New,
    Read(usize, usize),
    Write(usize, usize),
    Transposed,
    Transpose,
    Diagonal,
    WithDiagonal,
    BroadcastDiagonal,
    Map,
    Map2,
    Apply,
    Apply2,
    MapLines,
    SwapLayout,
    Resize(usize),
    ArrayTrip { into_col: bool, from_col: bool, nested_into: bool, nested_from: bool, cross: bool },
    SliceRead,
    SliceWrite(usize, usize),
    Display,
    Identity(bool),
    Gl,
    Counts,
}

#[derive(Clone, Copy, PartialEq)]
enum OpSet {
    Full,
    /// Miri: slice views (+ Display, whose column-major impl uses get_unchecked)
    Slices,
    /// Miri: array conversions
    Arrays,
}

impl Op {
    fn code(&self) -> u64 {
        match *self {
            Op::New => 1,
            Op::Read(i, j) => 2 | ((i as u64) << 8) | ((j as u64) << 12),
            Op::Write(i, j) => 3 | ((i as u64) << 8) | ((j as u64) << 12),
            Op::Transposed => 4,
            Op::Transpose => 5,
            Op::Diagonal => 6,
            Op::WithDiagonal => 7,
            Op::BroadcastDiagonal => 8,
            Op::Map => 9,
            Op::Map2 => 10,
            Op::Apply => 11,
            Op::Apply2 => 12,
            Op::MapLines => 13,
            Op::SwapLayout => 14,
            Op::Resize(t) => 15 | ((t as u64) << 8),
            Op::ArrayTrip { into_col, from_col, nested_into, nested_from, cross } => {
                16 | ((into_col as u64) << 8) | ((from_col as u64) << 9) | ((nested_into as u64) << 10) | ((nested_from as u64) << 11) | ((cross as u64) << 12)
            }
            Op::SliceRead => 17,
            Op::SliceWrite(i, j) => 18 | ((i as u64) << 8) | ((j as u64) << 12),
            Op::Display => 19,
            Op::Identity(d) => 20 | ((d as u64) << 8),
            Op::Gl => 21,
            Op::Counts => 22,
        }
    }
    fn is_write(&self) -> bool {
        matches!(self, Op::Write(..) | Op::SliceWrite(..))
    }
    fn is_relayout(&self) -> bool {
        match *self {
            Op::Transposed | Op::Transpose | Op::SwapLayout => true,
            Op::ArrayTrip { into_col, from_col, cross, .. } => cross || into_col != from_col,
            _ => false,
        }
    }
    /// the vek entry point a wrong *state* after this op is attributed to, for layout M
    fn api<M: Api<Tag>>(&self) -> String {
        match *self {
            Op::New => nm::<Tag, M>("new"),
            Op::Read(..) => format!("Index<(usize, usize)> for {}", M::NAME),
            Op::Write(..) => format!("IndexMut<(usize, usize)> for {}", M::NAME),
            Op::Transposed => nm::<Tag, M>("transposed"),
            Op::Transpose => nm::<Tag, M>("transpose"),
            Op::Diagonal => nm::<Tag, M>("diagonal"),
            Op::WithDiagonal | Op::BroadcastDiagonal | Op::Identity(_) | Op::Map2 => nm::<Tag, M>("map2"),
            Op::Map => nm::<Tag, M>("map"),
            Op::Apply => nm::<Tag, M>("apply"),
            Op::Apply2 => nm::<Tag, M>("apply2"),
            Op::MapLines => nm::<Tag, M>(M::MAP_LINES),
            Op::SwapLayout => nm_from::<Tag, M>(),
            Op::Resize(_) => "From<size>".to_string(),
            Op::ArrayTrip { from_col, nested_from, .. } => nm::<Tag, M>(array_fn(false, from_col, nested_from)),
            Op::SliceRead | Op::Gl => nm::<Tag, M>(M::SLICE),
            Op::SliceWrite(..) => nm::<Tag, M>(M::SLICE_MUT),
            Op::Display => format!("Display for {}", M::NAME),
            Op::Counts => nm::<Tag, M>("row_count"),
        }
    }
}

fn gen_op(rng: &mut Rng, n: &mut usize, set: OpSet) -> Op {
    let nn = *n;
    let ij = |rng: &mut Rng| (rng.usize_below(nn), rng.usize_below(nn));
    let trip = |rng: &mut Rng| Op::ArrayTrip { into_col: rng.bool(), from_col: rng.bool(), nested_into: rng.bool(), nested_from: rng.bool(), cross: rng.bool() };
    match set {
        OpSet::Slices => match rng.below(10) {
            0..=2 => Op::SliceRead,
            3..=6 => {
                let (i, j) = ij(rng);
                Op::SliceWrite(i, j)
            }
            7 => Op::Gl,
            8 => Op::Display,
            _ => Op::Transposed,
        },
        OpSet::Arrays => match rng.below(10) {
            0..=7 => trip(rng),
            _ => {
                let (i, j) = ij(rng);
                Op::Write(i, j)
            }
        },
        OpSet::Full => {
            let w = rng.below(104);
            match w {
                0..=1 => Op::New,
                2..=7 => {
                    let (i, j) = ij(rng);
                    Op::Read(i, j)
                }
                8..=17 => {
                    let (i, j) = ij(rng);
                    Op::Write(i, j)
                }
                18..=25 => Op::Transposed,
                26..=33 => Op::Transpose,
                34..=36 => Op::Diagonal,
                37..=38 => Op::WithDiagonal,
                39..=40 => Op::BroadcastDiagonal,
                41..=44 => Op::Map,
                45..=48 => Op::Map2,
                49..=51 => Op::Apply,
                52..=54 => Op::Apply2,
                55..=58 => Op::MapLines,
                59..=66 => Op::SwapLayout,
                67..=72 => {
                    let mut to = 2 + rng.usize_below(2);
                    if to >= nn {
                        to += 1;
                    }
                    *n = to;
                    Op::Resize(to)
                }
                73..=82 => trip(rng),
                83..=86 => Op::SliceRead,
                87..=91 => {
                    let (i, j) = ij(rng);
                    Op::SliceWrite(i, j)
                }
                92..=95 => Op::Display,
                96..=97 => Op::Identity(rng.bool()),
                98..=100 => Op::Gl,
                _ => Op::Counts,
            }
        }
    }
}

fn tag_mat<M: MatX<Tag>>(g: &Grid) -> M {
    M::from_fn(|i, j| Tag(g[i][j]))
}

fn parse_display(s: &str, n: usize) -> Result<Grid, String> {
    let t = s.trim();
    if !t.starts_with('(') || !t.ends_with(')') || t.len() < 2 {
        return Err("text is not enclosed in parentheses".to_string());
    }
    let inner = &t[1..t.len() - 1];
    let lines: Vec<&str> = inner.split('\n').collect();
    if lines.len() != n {
        return Err(format!("{} lines of text, expected {}", lines.len(), n));
    }
    let mut g = Vec::new();
    for l in lines {
        let mut row = Vec::new();
        for tok in l.split_whitespace() {
            row.push(tok.parse::<u32>().map_err(|_| format!("token {:?} is not an element", tok))?);
        }
        if row.len() != n {
            return Err(format!("a line with {} elements, expected {}", row.len(), n));
        }
        g.push(row);
    }
    Ok(g)
}

/// fold a freshly constructed matrix (already checked) into the running state with map2, so that
/// the state stays made of pairwise distinct tokens
fn merge<R, C>(r: &mut R, c: &mut C, model: &mut Grid, tr: R, tc: C, tmodel: &Grid, cx: &mut Cx) -> Result<(), Fail>
where
    R: Api<Tag, Other = C> + Copy,
    C: Api<Tag, Other = R> + Copy,
{
    let s = cx.salt();
    let (r0, c0) = (*r, *c);
    *r = call(cx, nm::<Tag, R>("map2"), move || r0.v_map2(tr, &mut |a, b| Tag(mint2(s, a.0, b.0))))?;
    *c = call(cx, nm::<Tag, C>("map2"), move || c0.v_map2(tc, &mut |a, b| Tag(mint2(s, a.0, b.0))))?;
    let n = model.len();
    for i in 0..n {
        for j in 0..n {
            model[i][j] = mint2(s, model[i][j], tmodel[i][j]);
        }
    }
    Ok(())
}

fn check_seen1(seen: Vec<u32>, model: &Grid, api: &str) -> Result<(), Fail> {
    let exp = sorted(listing(model, false));
    let got = sorted(seen);
    if got != exp {
        return Err(fail(api, "closure_arguments", format!("{}: the closure was called with elements {} but the matrix holds {} (each exactly once expected)", api, show_list(&got), show_list(&exp))));
    }
    Ok(())
}
fn check_seen2(mut seen: Vec<(u32, u32)>, model: &Grid, other: &Grid, api: &str) -> Result<(), Fail> {
    let n = model.len();
    let mut exp: Vec<(u32, u32)> = Vec::new();
    for i in 0..n {
        for j in 0..n {
            exp.push((model[i][j], other[i][j]));
        }
    }
    exp.sort_unstable();
    seen.sort_unstable();
    if seen != exp {
        return Err(fail(api, "closure_arguments", format!("{}: the closure was called with pairs {:?} but the element pairs at equal (row, column) are {:?}", api, seen, exp)));
    }
    Ok(())
}
fn check_lines(mut seen: Vec<Vec<u32>>, model: &Grid, row_major: bool, api: &str) -> Result<(), Fail> {
    let mut exp: Grid = if row_major { model.clone() } else { transpose_grid(model) };
    exp.sort();
    seen.sort();
    if seen != exp {
        return Err(fail(api, "closure_arguments", format!("{}: the closure was called with lines {} but the {} of the abstract matrix are {}", api, show(&seen), if row_major { "rows" } else { "columns" }, show(&exp))));
    }
    Ok(())
}

/// one op on the (row-major, column-major, model) triple; Resize is handled by the caller
fn step<R, C>(r: &mut R, c: &mut C, model: &mut Grid, op: &Op, cx: &mut Cx) -> Result<(), Fail>
where
    R: Api<Tag, Other = C> + Copy,
    C: Api<Tag, Other = R> + Copy,
{
    let n = R::N;
    let (r0, c0) = (*r, *c);
    match *op {
        Op::New => {
            let g = cx.fresh_grid(n);
            let l: Vec<Tag> = listing(&g, false).into_iter().map(Tag).collect();
            let l2 = l.clone();
            *r = call(cx, nm::<Tag, R>("new"), move || R::v_new(l))?;
            *c = call(cx, nm::<Tag, C>("new"), move || C::v_new(l2))?;
            *model = g;
        }
        Op::Read(i, j) => {
            let ar = format!("Index<(usize, usize)> for {}", R::NAME);
            let vr = call(cx, ar.clone(), move || *r0.v_index(i, j))?;
            let ac = format!("Index<(usize, usize)> for {}", C::NAME);
            let vc = call(cx, ac.clone(), move || *c0.v_index(i, j))?;
            for (a, v, name) in [(&ar, vr, R::NAME), (&ac, vc, C::NAME)] {
                if v.0 != model[i][j] {
                    cx.defer(Err(fail(a, "read_element", format!("m[({},{})] on {} = {} reads {}, abstract element is {}", i, j, name, show(model), idname(v.0), idname(model[i][j])))));
                }
            }
            // just outside the matrix: (i, N) names no element and neither does (N, j); indexing
            // panics in both layouts (it must not silently alias an element of the next line)
            let nn = model.len();
            for (oi, oj) in [(i, nn), (nn, j)] {
                let pr = guarded(move || r0.v_index(oi, oj).0);
                let pc = guarded(move || c0.v_index(oi, oj).0);
                for (a, pv, name) in [(&ar, pr, R::NAME), (&ac, pc, C::NAME)] {
                    if let Ok(id) = pv {
                        cx.defer(Err(fail(a, "index_outside_matrix_accepted", format!("m[({},{})] on a {}x{} {} did not panic but returned {}", oi, oj, nn, nn, name, idname(id)))));
                    }
                }
            }
        }
        Op::Write(i, j) => {
            let t = Tag(cx.fresh());
            *r = call(cx, format!("IndexMut<(usize, usize)> for {}", R::NAME), move || {
                let mut m = r0;
                *m.v_index_mut(i, j) = t;
                m
            })?;
            *c = call(cx, format!("IndexMut<(usize, usize)> for {}", C::NAME), move || {
                let mut m = c0;
                *m.v_index_mut(i, j) = t;
                m
            })?;
            model[i][j] = t.0;
        }
        Op::Transposed => {
            *r = call(cx, nm::<Tag, R>("transposed"), move || r0.v_transposed())?;
            *c = call(cx, nm::<Tag, C>("transposed"), move || c0.v_transposed())?;
            *model = transpose_grid(model);
        }
        Op::Transpose => {
            *r = call(cx, nm::<Tag, R>("transpose"), move || {
                let mut m = r0;
                m.v_transpose();
                m
            })?;
            *c = call(cx, nm::<Tag, C>("transpose"), move || {
                let mut m = c0;
                m.v_transpose();
                m
            })?;
            *model = transpose_grid(model);
        }
        Op::Diagonal => {
            let exp: Vec<u32> = (0..n).map(|k| model[k][k]).collect();
            let a = nm::<Tag, R>("diagonal");
            let d = call(cx, a.clone(), move || r0.v_diagonal())?;
            cx.defer(expect_list(&d.iter().map(|t| t.0).collect::<Vec<_>>(), &exp, &a, "returned_vector", "the returned diagonal"));
            let a = nm::<Tag, C>("diagonal");
            let d = call(cx, a.clone(), move || c0.v_diagonal())?;
            cx.defer(expect_list(&d.iter().map(|t| t.0).collect::<Vec<_>>(), &exp, &a, "returned_vector", "the returned diagonal"));
        }
        Op::WithDiagonal | Op::BroadcastDiagonal | Op::Identity(_) => {
            let (fname, d): (&str, Vec<u32>) = match *op {
                Op::WithDiagonal => ("with_diagonal", (0..n).map(|_| cx.fresh()).collect()),
                Op::BroadcastDiagonal => {
                    let v = cx.fresh();
                    ("broadcast_diagonal", vec![v; n])
                }
                Op::Identity(true) => ("default", vec![TAG_ONE; n]),
                _ => ("identity", vec![TAG_ONE; n]),
            };
            let tm = diag_grid(&d);
            let dt: Vec<Tag> = d.iter().map(|x| Tag(*x)).collect();
            let (ar, ac) = if fname == "default" { (format!("Default for {}", R::NAME), format!("Default for {}", C::NAME)) } else { (nm::<Tag, R>(fname), nm::<Tag, C>(fname)) };
            let (d1, d2) = (dt.clone(), dt.clone());
            let tr: R = match *op {
                Op::WithDiagonal => call(cx, ar.clone(), move || R::v_with_diagonal(d1))?,
                Op::BroadcastDiagonal => call(cx, ar.clone(), move || R::v_broadcast_diagonal(d1[0]))?,
                Op::Identity(true) => call(cx, ar.clone(), R::v_default)?,
                _ => call(cx, ar.clone(), R::v_identity)?,
            };
            let tc: C = match *op {
                Op::WithDiagonal => call(cx, ac.clone(), move || C::v_with_diagonal(d2))?,
                Op::BroadcastDiagonal => call(cx, ac.clone(), move || C::v_broadcast_diagonal(d2[0]))?,
                Op::Identity(true) => call(cx, ac.clone(), C::v_default)?,
                _ => call(cx, ac.clone(), C::v_identity)?,
            };
            cx.defer(expect_matrix(&tr, &tm, &ar, "constructed_matrix"));
            cx.defer(expect_matrix(&tc, &tm, &ac, "constructed_matrix"));
            merge(r, c, model, tr, tc, &tm, cx)?;
        }
        Op::Map | Op::Apply => {
            let s = cx.salt();
            let apply = *op == Op::Apply;
            let f = if apply { "apply" } else { "map" };
            let (ar, ac) = (nm::<Tag, R>(f), nm::<Tag, C>(f));
            let (m, seen) = call(cx, ar.clone(), move || {
                let mut seen = Vec::new();
                let mut g = |t: Tag| {
                    seen.push(t.0);
                    Tag(mint1(s, t.0))
                };
                let m = if apply {
                    let mut m = r0;
                    m.v_apply(&mut g);
                    m
                } else {
                    r0.v_map(&mut g)
                };
                (m, seen)
            })?;
            *r = m;
            cx.defer(check_seen1(seen, model, &ar));
            let (m, seen) = call(cx, ac.clone(), move || {
                let mut seen = Vec::new();
                let mut g = |t: Tag| {
                    seen.push(t.0);
                    Tag(mint1(s, t.0))
                };
                let m = if apply {
                    let mut m = c0;
                    m.v_apply(&mut g);
                    m
                } else {
                    c0.v_map(&mut g)
                };
                (m, seen)
            })?;
            *c = m;
            cx.defer(check_seen1(seen, model, &ac));
            for row in model.iter_mut() {
                for x in row.iter_mut() {
                    *x = mint1(s, *x);
                }
            }
        }
        Op::Map2 | Op::Apply2 => {
            let s = cx.salt();
            let apply = *op == Op::Apply2;
            let f = if apply { "apply2" } else { "map2" };
            let og = cx.fresh_grid(n);
            let (or, oc): (R, C) = (tag_mat(&og), tag_mat(&og));
            let (ar, ac) = (nm::<Tag, R>(f), nm::<Tag, C>(f));
            let (m, seen) = call(cx, ar.clone(), move || {
                let mut seen = Vec::new();
                let mut g = |a: Tag, b: Tag| {
                    seen.push((a.0, b.0));
                    Tag(mint2(s, a.0, b.0))
                };
                let m = if apply {
                    let mut m = r0;
                    m.v_apply2(or, &mut g);
                    m
                } else {
                    r0.v_map2(or, &mut g)
                };
                (m, seen)
            })?;
            *r = m;
            cx.defer(check_seen2(seen, model, &og, &ar));
            let (m, seen) = call(cx, ac.clone(), move || {
                let mut seen = Vec::new();
                let mut g = |a: Tag, b: Tag| {
                    seen.push((a.0, b.0));
                    Tag(mint2(s, a.0, b.0))
                };
                let m = if apply {
                    let mut m = c0;
                    m.v_apply2(oc, &mut g);
                    m
                } else {
                    c0.v_map2(oc, &mut g)
                };
                (m, seen)
            })?;
            *c = m;
            cx.defer(check_seen2(seen, model, &og, &ac));
            for i in 0..n {
                for j in 0..n {
                    model[i][j] = mint2(s, model[i][j], og[i][j]);
                }
            }
        }
        Op::MapLines => {
            let s = cx.salt();
            let (ar, ac) = (nm::<Tag, R>(R::MAP_LINES), nm::<Tag, C>(C::MAP_LINES));
            let (m, seen) = call(cx, ar.clone(), move || {
                let mut seen: Vec<Vec<u32>> = Vec::new();
                let m = r0.v_map_lines(&mut |l: Vec<Tag>| {
                    seen.push(l.iter().map(|t| t.0).collect());
                    l.into_iter().map(|t| Tag(mint1(s, t.0))).collect()
                });
                (m, seen)
            })?;
            *r = m;
            cx.defer(check_lines(seen, model, R::ROW_MAJOR, &ar));
            let (m, seen) = call(cx, ac.clone(), move || {
                let mut seen: Vec<Vec<u32>> = Vec::new();
                let m = c0.v_map_lines(&mut |l: Vec<Tag>| {
                    seen.push(l.iter().map(|t| t.0).collect());
                    l.into_iter().map(|t| Tag(mint1(s, t.0))).collect()
                });
                (m, seen)
            })?;
            *c = m;
            cx.defer(check_lines(seen, model, C::ROW_MAJOR, &ac));
            for row in model.iter_mut() {
                for x in row.iter_mut() {
                    *x = mint1(s, *x);
                }
            }
        }
        Op::SwapLayout => {
            *r = call(cx, nm_from::<Tag, R>(), move || R::v_from_other(c0))?;
            *c = call(cx, nm_from::<Tag, C>(), move || C::v_from_other(r0))?;
        }
        Op::Resize(_) => unreachable!(),
        Op::ArrayTrip { into_col, from_col, nested_into, nested_from, cross } => {
            let fi = array_fn(true, into_col, nested_into);
            let ff = array_fn(false, from_col, nested_from);
            let exp = listing(model, into_col);
            let a = nm::<Tag, R>(fi);
            let arr_r = call(cx, a.clone(), move || r0.v_into_array(into_col, nested_into))?;
            cx.defer(expect_list(&arr_r.iter().map(|t| t.0).collect::<Vec<_>>(), &exp, &a, "returned_array", "the returned array (flattened)"));
            let a = nm::<Tag, C>(fi);
            let arr_c = call(cx, a.clone(), move || c0.v_into_array(into_col, nested_into))?;
            cx.defer(expect_list(&arr_c.iter().map(|t| t.0).collect::<Vec<_>>(), &exp, &a, "returned_array", "the returned array (flattened)"));
            let (for_r, for_c) = if cross { (arr_c, arr_r) } else { (arr_r, arr_c) };
            *r = call(cx, nm::<Tag, R>(ff), move || R::v_from_array(for_r, from_col, nested_from))?;
            *c = call(cx, nm::<Tag, C>(ff), move || C::v_from_array(for_c, from_col, nested_from))?;
            if into_col != from_col {
                // a row-by-row listing read as a column-by-column listing is the transpose
                *model = transpose_grid(model);
            }
        }
        Op::SliceRead => {
            let a = nm::<Tag, R>(R::SLICE);
            let s = call(cx, a.clone(), move || r0.v_slice().iter().map(|t| t.0).collect::<Vec<u32>>())?;
            cx.defer(expect_list(&s, &listing(model, !R::ROW_MAJOR), &a, "slice_listing", "the slice view"));
            let a = nm::<Tag, C>(C::SLICE);
            let s = call(cx, a.clone(), move || c0.v_slice().iter().map(|t| t.0).collect::<Vec<u32>>())?;
            cx.defer(expect_list(&s, &listing(model, !C::ROW_MAJOR), &a, "slice_listing", "the slice view"));
        }
        Op::SliceWrite(i, j) => {
            let t = Tag(cx.fresh());
            // position of abstract (i,j) in a row-by-row resp. column-by-column listing
            let kr = if R::ROW_MAJOR { i * n + j } else { j * n + i };
            let kc = if C::ROW_MAJOR { i * n + j } else { j * n + i };
            *r = call(cx, nm::<Tag, R>(R::SLICE_MUT), move || {
                let mut m = r0;
                m.v_slice_mut()[kr] = t;
                m
            })?;
            *c = call(cx, nm::<Tag, C>(C::SLICE_MUT), move || {
                let mut m = c0;
                m.v_slice_mut()[kc] = t;
                m
            })?;
            model[i][j] = t.0;
        }
        Op::Display => {
            let (ar, ac) = (format!("Display for {}", R::NAME), format!("Display for {}", C::NAME));
            let sr = call(cx, ar.clone(), move || r0.v_display())?;
            let sc = call(cx, ac.clone(), move || c0.v_display())?;
            for (a, s) in [(&ar, &sr), (&ac, &sc)] {
                match parse_display(s, n) {
                    Ok(g) => {
                        if g != *model {
                            return Err(fail(a, "display_grid", format!("{}: text {:?} denotes {} but the abstract matrix is {}", a, s, show(&g), show(model))));
                        }
                    }
                    Err(e) => return Err(fail(a, "display_format", format!("{}: text {:?}: {}", a, s, e))),
                }
            }
            if sr != sc {
                return Err(fail(&ac, "display_layout_dependent", format!("row-major text {:?} differs from column-major text {:?} for the same abstract matrix", sr, sc)));
            }
        }
        Op::Gl => {
            fn gl<M: Api<Tag> + Copy>(m: M, model: &Grid, cx: &mut Cx) -> Result<(), Fail> {
                let n = M::N;
                let a = nm::<Tag, M>("gl_should_transpose");
                let flag = call(cx, a.clone(), move || m.v_gl())?;
                cx.apis.push(nm::<Tag, M>("GL_SHOULD_TRANSPOSE"));
                if flag != M::ROW_MAJOR || M::GL != M::ROW_MAJOR {
                    return Err(fail(&a, "flag_value", format!("{}: gl_should_transpose() = {}, GL_SHOULD_TRANSPOSE = {}; a {} matrix needs {}", M::NAME, flag, M::GL, if M::ROW_MAJOR { "row-major" } else { "column-major" }, M::ROW_MAJOR)));
                }
                // what OpenGL would see: glUniformMatrix*(transpose = flag, data = slice); without
                // transposition GL takes the data as column-major
                let s = call(cx, nm::<Tag, M>(M::SLICE), move || m.v_slice().iter().map(|t| t.0).collect::<Vec<u32>>())?;
                if s.len() != n * n {
                    return Err(fail(&nm::<Tag, M>(M::SLICE), "slice_listing", format!("slice has {} elements", s.len())));
                }
                for i in 0..n {
                    for j in 0..n {
                        let seen = if flag { s[i * n + j] } else { s[j * n + i] };
                        if seen != model[i][j] {
                            return Err(fail(&a, "gl_denotation", format!("{}: slice {} uploaded with transpose = {} gives OpenGL element (row {}, column {}) = {}, abstract matrix is {}", M::NAME, show_list(&s), flag, i, j, idname(seen), show(model))));
                        }
                    }
                }
                Ok(())
            }
            let g = gl(r0, model, cx);
            cx.defer(g);
            let g = gl(c0, model, cx);
            cx.defer(g);
        }
        Op::Counts => {
            fn counts<M: Api<Tag> + Copy>(m: M, cx: &mut Cx) -> Result<(), Fail> {
                let a = nm::<Tag, M>("row_count");
                let (rc, cc, packed) = call(cx, a.clone(), move || m.v_counts())?;
                cx.apis.push(nm::<Tag, M>("col_count"));
                cx.apis.push(nm::<Tag, M>("is_packed"));
                if rc != M::N || cc != M::N || M::ROWS != M::N || M::COLS != M::N || !packed {
                    return Err(fail(&a, "counts", format!("{}: row_count {} col_count {} ROW_COUNT {} COL_COUNT {} is_packed {}", M::NAME, rc, cc, M::ROWS, M::COLS, packed)));
                }
                Ok(())
            }
            let g = counts(r0, cx);
            cx.defer(g);
            let g = counts(c0, cx);
            cx.defer(g);
        }
    }
    match cx.pending.take() {
        Some(f) => Err(f),
        None => Ok(()),
    }
}

enum St {
    S2(Rows2<Tag>, Cols2<Tag>),
    S3(Rows3<Tag>, Cols3<Tag>),
    S4(Rows4<Tag>, Cols4<Tag>),
}

macro_rules! rz {
    ($cx:expr, $r:expr, $c:expr, $RF:ident, $CF:ident => $RT:ident, $CT:ident, $V:ident) => {{
        let (r0, c0) = ($r, $c);
        let rn = call($cx, format!("From<{}> for {}", stringify!($RF), stringify!($RT)), move || <$RT<Tag> as From<$RF<Tag>>>::from(r0))?;
        let cn = call($cx, format!("From<{}> for {}", stringify!($CF), stringify!($CT)), move || <$CT<Tag> as From<$CF<Tag>>>::from(c0))?;
        St::$V(rn, cn)
    }};
}

fn resize_grid(g: &Grid, to: usize) -> Grid {
    let n = g.len();
    (0..to).map(|i| (0..to).map(|j| if i < n && j < n { g[i][j] } else if i == j { TAG_ONE } else { TAG_ZERO }).collect()).collect()
}

impl St {
    fn build(n: usize, g: &Grid) -> St {
        match n {
            2 => St::S2(tag_mat(g), tag_mat(g)),
            3 => St::S3(tag_mat(g), tag_mat(g)),
            _ => St::S4(tag_mat(g), tag_mat(g)),
        }
    }
    fn step(&mut self, op: &Op, model: &mut Grid, cx: &mut Cx) -> Result<(), Fail> {
        if let Op::Resize(to) = *op {
            let new = match (&*self, to) {
                (St::S2(r, c), 3) => rz!(cx, *r, *c, Rows2, Cols2 => Rows3, Cols3, S3),
                (St::S2(r, c), 4) => rz!(cx, *r, *c, Rows2, Cols2 => Rows4, Cols4, S4),
                (St::S3(r, c), 2) => rz!(cx, *r, *c, Rows3, Cols3 => Rows2, Cols2, S2),
                (St::S3(r, c), 4) => rz!(cx, *r, *c, Rows3, Cols3 => Rows4, Cols4, S4),
                (St::S4(r, c), 2) => rz!(cx, *r, *c, Rows4, Cols4 => Rows2, Cols2, S2),
                (St::S4(r, c), 3) => rz!(cx, *r, *c, Rows4, Cols4 => Rows3, Cols3, S3),
                _ => panic!("harness: bad resize"),
            };
            *self = new;
            *model = resize_grid(model, to);
            return Ok(());
        }
        match self {
            St::S2(r, c) => step(r, c, model, op, cx),
            St::S3(r, c) => step(r, c, model, op, cx),
            St::S4(r, c) => step(r, c, model, op, cx),
        }
    }
    /// compare both vek values with the model through the raw public fields
    fn check(&self, model: &Grid, op: &Op, prev_n: usize) -> Result<(), Fail> {
        fn one<M: Api<Tag>>(m: &M, model: &Grid, op: &Op, prev_n: usize) -> Result<(), Fail> {
            let n = M::N;
            for i in 0..n {
                for j in 0..n {
                    let got = m.at(i, j).0;
                    if got != model[i][j] {
                        let (api, what) = match *op {
                            Op::Resize(_) => {
                                let from = format!("{}{}", if M::ROW_MAJOR { "Rows" } else { "Cols" }, prev_n);
                                (format!("From<{}> for {}", from, M::NAME), if i >= prev_n || j >= prev_n { "fill_element" } else { "kept_block" })
                            }
                            _ => (op.api::<M>(), "result_matrix"),
                        };
                        return Err(fail(
                            &api,
                            what,
                            format!("after {:?}: raw element (row {}, column {}) of the {} value is {} but the abstract matrix has {}; vek value = {}, abstract = {}", op, i, j, M::NAME, idname(got), idname(model[i][j]), show(&raw_grid(m)), show(model)),
                        ));
                    }
                }
            }
            Ok(())
        }
        match self {
            St::S2(r, c) => one(r, model, op, prev_n).and_then(|_| one(c, model, op, prev_n)),
            St::S3(r, c) => one(r, model, op, prev_n).and_then(|_| one(c, model, op, prev_n)),
            St::S4(r, c) => one(r, model, op, prev_n).and_then(|_| one(c, model, op, prev_n)),
        }
    }
}

fn gen_program(rng: &mut Rng, n0: usize, set: OpSet, maxlen: u64) -> (Vec<Op>, u64) {
    let min = if set == OpSet::Full { 4 } else { 2 };
    let len = min + rng.below(maxlen.saturating_sub(min) + 1);
    let mut n = n0;
    let mut h = H64::new();
    h.u(n0 as u64).u(set as u64);
    let ops: Vec<Op> = (0..len)
        .map(|_| {
            let op = gen_op(rng, &mut n, set);
            h.u(op.code());
            op
        })
        .collect();
    (ops, h.get())
}

fn run_program(sub: &mut Sub, cfg: &Config, idx: u64, set: OpSet, maxlen: u64) {
    let mut rng = Rng::for_case(&format!("{}/program", sub.name), cfg.case_seed(), idx);
    let n0 = 2 + (idx % 3) as usize;
    let (ops, hash) = gen_program(&mut rng, n0, set, maxlen);
    let mut cx = Cx::new();
    let mut model = cx.fresh_grid(n0);
    let mut st = St::build(n0, &model);
    for (k, op) in ops.iter().enumerate() {
        let prev_n = model.len();
        let before = model.clone();
        let res = st.step(op, &mut model, &mut cx).and_then(|_| st.check(&model, op, prev_n));
        if let Err(f) = res {
            cx.flush(sub);
            let detail = format!("start size {}, program (step {} fails) = {:?}; abstract matrix before the step = {}; {}", n0, k, &ops[..=k], show(&before), f.detail);
            let v = violation(PROP, sub, &f.api, "Tag", f.class, &f.what, detail, cfg.case_seed(), idx);
            sub.violated(v);
            return;
        }
    }
    cx.flush(sub);
    let nontrivial = match set {
        OpSet::Full => ops.iter().any(|o| o.is_write()) && ops.iter().any(|o| o.is_relayout()),
        _ => ops.iter().any(|o| o.is_write() || o.is_relayout()),
    };
    sub.sample(|| format!("N={} program {:?} -> final abstract matrix {}", n0, ops, show(&model)));
    sub.held(hash, nontrivial);
}

// ------------------------------------------------------------------------------------------
// programs over Own matrices (one value, either layout; ownership ledger)

#[derive(Clone, Copy, Debug, PartialEq)]
enum OOp {
    ArrayTrip { into_col: bool, from_col: bool, nested_into: bool, nested_from: bool },
    SliceRead,
    SliceWrite(usize, usize),
    IndexRead(usize, usize),
    IndexWrite(usize, usize),
    Transposed,
    Transpose,
    MapKeep,
    MapReplace,
    Map2(bool),
    MapLines,
    SwapLayout,
    Shrink(usize),
    /// consumes the matrix; only as the last op
    Diagonal,
}
impl OOp {
    fn code(&self) -> u64 {
        match *self {
            OOp::ArrayTrip { into_col, from_col, nested_into, nested_from } => 1 | ((into_col as u64) << 8) | ((from_col as u64) << 9) | ((nested_into as u64) << 10) | ((nested_from as u64) << 11),
            OOp::SliceRead => 2,
            OOp::SliceWrite(i, j) => 3 | ((i as u64) << 8) | ((j as u64) << 12),
            OOp::IndexRead(i, j) => 4 | ((i as u64) << 8) | ((j as u64) << 12),
            OOp::IndexWrite(i, j) => 5 | ((i as u64) << 8) | ((j as u64) << 12),
            OOp::Transposed => 6,
            OOp::Transpose => 7,
            OOp::MapKeep => 8,
            OOp::MapReplace => 9,
            OOp::Map2(k) => 10 | ((k as u64) << 8),
            OOp::MapLines => 11,
            OOp::SwapLayout => 12,
            OOp::Shrink(t) => 13 | ((t as u64) << 8),
            OOp::Diagonal => 14,
        }
    }
}

fn gen_oop(rng: &mut Rng, n: &mut usize, set: OpSet, last: bool) -> OOp {
    let nn = *n;
    let ij = |rng: &mut Rng| (rng.usize_below(nn), rng.usize_below(nn));
    let trip = |rng: &mut Rng| OOp::ArrayTrip { into_col: rng.bool(), from_col: rng.bool(), nested_into: rng.bool(), nested_from: rng.bool() };
    match set {
        OpSet::Slices => match rng.below(10) {
            0..=3 => OOp::SliceRead,
            4..=8 => {
                let (i, j) = ij(rng);
                OOp::SliceWrite(i, j)
            }
            _ => OOp::Transposed,
        },
        OpSet::Arrays => match rng.below(10) {
            0..=7 => trip(rng),
            _ => {
                let (i, j) = ij(rng);
                OOp::IndexWrite(i, j)
            }
        },
        OpSet::Full => loop {
            if last && rng.chance(1, 5) {
                return OOp::Diagonal;
            }
            let op = match rng.below(60) {
                0..=15 => trip(rng),
                16..=18 => OOp::SliceRead,
                19..=22 => {
                    let (i, j) = ij(rng);
                    OOp::SliceWrite(i, j)
                }
                23..=24 => {
                    let (i, j) = ij(rng);
                    OOp::IndexRead(i, j)
                }
                25..=28 => {
                    let (i, j) = ij(rng);
                    OOp::IndexWrite(i, j)
                }
                29..=33 => OOp::Transposed,
                34..=37 => OOp::Transpose,
                38..=39 => OOp::MapKeep,
                40..=42 => OOp::MapReplace,
                43..=46 => OOp::Map2(rng.bool()),
                47..=49 => OOp::MapLines,
                50..=54 => OOp::SwapLayout,
                55..=57 => {
                    if nn == 2 {
                        continue;
                    }
                    let to = 2 + rng.usize_below(nn - 2);
                    *n = to;
                    OOp::Shrink(to)
                }
                _ => {
                    if !last {
                        continue;
                    }
                    OOp::Diagonal
                }
            };
            return op;
        },
    }
}

fn own_mat<M: MatX<Own>>() -> M {
    M::from_fn(|_, _| Own::new())
}

/// ledger must be clean and exactly the ids of `model` alive
fn check_ledger(model_ids: Vec<u32>, api: &str) -> Result<(), Fail> {
    let errs = ledger_take_errors();
    if !errs.is_empty() {
        let what = if errs[0].starts_with("double-drop") {
            "double_drop"
        } else if errs[0].starts_with("observe") {
            "read_after_drop"
        } else {
            "ledger_error"
        };
        return Err(Fail { api: api.to_string(), class: "ownership", what: what.to_string(), detail: format!("{}: ownership ledger reports {:?}", api, errs) });
    }
    let live = ledger_live();
    let ids = sorted(model_ids);
    if live != ids {
        let leaked: Vec<u32> = live.iter().copied().filter(|x| !ids.contains(x)).collect();
        let gone: Vec<u32> = ids.iter().copied().filter(|x| !live.contains(x)).collect();
        let what = if !gone.is_empty() { "element_dropped_early" } else { "element_leaked" };
        return Err(Fail { api: api.to_string(), class: "ownership", what: what.to_string(), detail: format!("{}: elements still alive that nothing owns any more: {:?}; elements of the matrix that were already dropped: {:?}", api, leaked, gone) });
    }
    Ok(())
}

fn own_step<M: Api<Own>>(m: M, model: &mut Grid, op: &OOp, cx: &mut Cx) -> Result<(M, String), Fail> {
    let n = M::N;
    Ok(match *op {
        OOp::ArrayTrip { into_col, from_col, nested_into, nested_from } => {
            let a = nm::<Own, M>(array_fn(true, into_col, nested_into));
            let arr = call(cx, a.clone(), move || m.v_into_array(into_col, nested_into))?;
            expect_list(&arr.iter().map(|o| o.id()).collect::<Vec<_>>(), &listing(model, into_col), &a, "returned_array", "the returned array (flattened)")?;
            check_ledger(listing(model, false), &a)?;
            let a = nm::<Own, M>(array_fn(false, from_col, nested_from));
            let m = call(cx, a.clone(), move || M::v_from_array(arr, from_col, nested_from))?;
            if into_col != from_col {
                *model = transpose_grid(model);
            }
            (m, a)
        }
        OOp::SliceRead => {
            let a = nm::<Own, M>(M::SLICE);
            let (m, s) = call(cx, a.clone(), move || {
                let s: Vec<u32> = m.v_slice().iter().map(|o| o.id()).collect();
                (m, s)
            })?;
            expect_list(&s, &listing(model, !M::ROW_MAJOR), &a, "slice_listing", "the slice view")?;
            (m, a)
        }
        OOp::SliceWrite(i, j) => {
            let a = nm::<Own, M>(M::SLICE_MUT);
            let k = if M::ROW_MAJOR { i * n + j } else { j * n + i };
            let (m, id) = call(cx, a.clone(), move || {
                let mut m = m;
                let o = Own::new();
                let id = o.id();
                m.v_slice_mut()[k] = o;
                (m, id)
            })?;
            model[i][j] = id;
            (m, a)
        }
        OOp::IndexRead(i, j) => {
            let a = format!("Index<(usize, usize)> for {}", M::NAME);
            let (m, id) = call(cx, a.clone(), move || {
                let id = m.v_index(i, j).id();
                (m, id)
            })?;
            if id != model[i][j] {
                return Err(fail(&a, "read_element", format!("m[({},{})] on {} = {} reads {}", i, j, M::NAME, show(model), id)));
            }
            (m, a)
        }
        OOp::IndexWrite(i, j) => {
            let a = format!("IndexMut<(usize, usize)> for {}", M::NAME);
            let (m, id) = call(cx, a.clone(), move || {
                let mut m = m;
                let o = Own::new();
                let id = o.id();
                *m.v_index_mut(i, j) = o;
                (m, id)
            })?;
            model[i][j] = id;
            (m, a)
        }
        OOp::Transposed => {
            let a = nm::<Own, M>("transposed");
            let m = call(cx, a.clone(), move || m.v_transposed())?;
            *model = transpose_grid(model);
            (m, a)
        }
        OOp::Transpose => {
            let a = nm::<Own, M>("transpose");
            let m = call(cx, a.clone(), move || {
                let mut m = m;
                m.v_transpose();
                m
            })?;
            *model = transpose_grid(model);
            (m, a)
        }
        OOp::MapKeep | OOp::MapReplace => {
            let a = nm::<Own, M>("map");
            let replace = *op == OOp::MapReplace;
            let (m, pairs) = call(cx, a.clone(), move || {
                let mut pairs: Vec<(u32, u32)> = Vec::new();
                let m = m.v_map(&mut |o: Own| {
                    if replace {
                        let nw = Own::new();
                        pairs.push((o.id(), nw.id()));
                        drop(o);
                        nw
                    } else {
                        pairs.push((o.id(), o.id()));
                        o
                    }
                });
                (m, pairs)
            })?;
            check_seen1(pairs.iter().map(|p| p.0).collect(), model, &a)?;
            for row in model.iter_mut() {
                for x in row.iter_mut() {
                    *x = pairs.iter().find(|p| p.0 == *x).map(|p| p.1).unwrap();
                }
            }
            (m, a)
        }
        OOp::Map2(keep_first) => {
            let a = nm::<Own, M>("map2");
            let other: M = own_mat();
            let og = raw_grid(&other);
            let (m, pairs) = call(cx, a.clone(), move || {
                let mut pairs: Vec<(u32, u32)> = Vec::new();
                let m = m.v_map2(other, &mut |x: Own, y: Own| {
                    pairs.push((x.id(), y.id()));
                    if keep_first {
                        x
                    } else {
                        y
                    }
                });
                (m, pairs)
            })?;
            check_seen2(pairs, model, &og, &a)?;
            if !keep_first {
                *model = og;
            }
            (m, a)
        }
        OOp::MapLines => {
            let a = nm::<Own, M>(M::MAP_LINES);
            let (m, seen) = call(cx, a.clone(), move || {
                let mut seen: Vec<Vec<u32>> = Vec::new();
                let m = m.v_map_lines(&mut |l: Vec<Own>| {
                    seen.push(l.iter().map(|o| o.id()).collect());
                    l
                });
                (m, seen)
            })?;
            check_lines(seen, model, M::ROW_MAJOR, &a)?;
            (m, a)
        }
        OOp::SwapLayout | OOp::Shrink(_) | OOp::Diagonal => unreachable!(),
    })
}

enum OSt {
    R2(Rows2<Own>),
    C2(Cols2<Own>),
    R3(Rows3<Own>),
    C3(Cols3<Own>),
    R4(Rows4<Own>),
    C4(Cols4<Own>),
}

macro_rules! ost_each {
    ($st:expr, $m:ident => $e:expr) => {
        match $st {
            OSt::R2($m) => $e,
            OSt::C2($m) => $e,
            OSt::R3($m) => $e,
            OSt::C3($m) => $e,
            OSt::R4($m) => $e,
            OSt::C4($m) => $e,
        }
    };
}
macro_rules! ost_conv {
    ($cx:expr, $m:expr, $F:ident => $T:ident, $V:ident) => {{
        let a = format!("From<{}> for {}", stringify!($F), stringify!($T));
        let m = $m;
        (OSt::$V(call($cx, a.clone(), move || <$T<Own> as From<$F<Own>>>::from(m))?), a)
    }};
}

trait Wrap: Sized {
    fn wrap(self) -> OSt;
}
macro_rules! impl_wrap {
    ($($M:ident $V:ident),+) => {$( impl Wrap for $M<Own> { fn wrap(self) -> OSt { OSt::$V(self) } } )+};
}
impl_wrap!(Rows2 R2, Cols2 C2, Rows3 R3, Cols3 C3, Rows4 R4, Cols4 C4);

impl OSt {
    fn build(n: usize, row_major: bool) -> OSt {
        match (n, row_major) {
            (2, true) => OSt::R2(own_mat()),
            (2, false) => OSt::C2(own_mat()),
            (3, true) => OSt::R3(own_mat()),
            (3, false) => OSt::C3(own_mat()),
            (_, true) => OSt::R4(own_mat()),
            (_, false) => OSt::C4(own_mat()),
        }
    }
    fn grid(&self) -> Grid {
        ost_each!(self, m => raw_grid(m))
    }
    fn name(&self) -> &'static str {
        fn nmx<M: MatX<Own>>(_: &M) -> &'static str {
            M::NAME
        }
        ost_each!(self, m => nmx(m))
    }
    /// returns the new state (None when the op consumed the matrix) and the api to blame
    fn apply(self, op: &OOp, model: &mut Grid, cx: &mut Cx) -> Result<(Option<OSt>, String), Fail> {
        match *op {
            OOp::SwapLayout => {
                let (st, a) = match self {
                    OSt::R2(m) => ost_conv!(cx, m, Rows2 => Cols2, C2),
                    OSt::C2(m) => ost_conv!(cx, m, Cols2 => Rows2, R2),
                    OSt::R3(m) => ost_conv!(cx, m, Rows3 => Cols3, C3),
                    OSt::C3(m) => ost_conv!(cx, m, Cols3 => Rows3, R3),
                    OSt::R4(m) => ost_conv!(cx, m, Rows4 => Cols4, C4),
                    OSt::C4(m) => ost_conv!(cx, m, Cols4 => Rows4, R4),
                };
                Ok((Some(st), a))
            }
            OOp::Shrink(to) => {
                let (st, a) = match (self, to) {
                    (OSt::R3(m), 2) => ost_conv!(cx, m, Rows3 => Rows2, R2),
                    (OSt::C3(m), 2) => ost_conv!(cx, m, Cols3 => Cols2, C2),
                    (OSt::R4(m), 2) => ost_conv!(cx, m, Rows4 => Rows2, R2),
                    (OSt::C4(m), 2) => ost_conv!(cx, m, Cols4 => Cols2, C2),
                    (OSt::R4(m), 3) => ost_conv!(cx, m, Rows4 => Rows3, R3),
                    (OSt::C4(m), 3) => ost_conv!(cx, m, Cols4 => Cols3, C3),
                    _ => panic!("harness: bad shrink"),
                };
                *model = model.iter().take(to).map(|r| r.iter().take(to).copied().collect()).collect();
                Ok((Some(st), a))
            }
            OOp::Diagonal => {
                let a = format!("{}::diagonal", self.name());
                let a2 = a.clone();
                let d: Vec<Own> = ost_each!(self, m => call(cx, a2, move || m.v_diagonal())?);
                let exp: Vec<u32> = (0..model.len()).map(|k| model[k][k]).collect();
                expect_list(&d.iter().map(|o| o.id()).collect::<Vec<_>>(), &exp, &a, "returned_vector", "the returned diagonal")?;
                check_ledger(exp, &a)?;
                drop(d);
                *model = Vec::new();
                Ok((None, a))
            }
            _ => {
                fn go<M: Api<Own> + Wrap>(m: M, model: &mut Grid, op: &OOp, cx: &mut Cx) -> Result<(Option<OSt>, String), Fail> {
                    let (m, a) = own_step(m, model, op, cx)?;
                    Ok((Some(m.wrap()), a))
                }
                ost_each!(self, m => go(m, model, op, cx))
            }
        }
    }
}

fn run_own(sub: &mut Sub, cfg: &Config, idx: u64, set: OpSet, maxlen: u64) {
    let mut rng = Rng::for_case(&format!("{}/program", sub.name), cfg.case_seed(), idx);
    let n0 = 2 + (idx % 3) as usize;
    let row_major = rng.bool();
    let len = 1 + rng.below(maxlen);
    let mut n = n0;
    let mut h = H64::new();
    h.u(n0 as u64).u(row_major as u64).u(set as u64);
    let ops: Vec<OOp> = (0..len)
        .map(|k| {
            let op = gen_oop(&mut rng, &mut n, set, k + 1 == len);
            h.u(op.code());
            op
        })
        .collect();
    ledger_reset();
    let mut cx = Cx::new();
    let mut st = Some(OSt::build(n0, row_major));
    let mut model = st.as_ref().unwrap().grid();
    let start = format!("{}{}", if row_major { "Rows" } else { "Cols" }, n0);
    let mut failed: Option<(usize, Fail)> = None;
    for (k, op) in ops.iter().enumerate() {
        let cur = st.take().unwrap();
        match cur.apply(op, &mut model, &mut cx) {
            Ok((new, api)) => {
                let mut res = Ok(());
                if let Some(s) = &new {
                    let g = s.grid();
                    if g != model {
                        res = Err(fail(&api, "result_matrix", format!("after {:?}: the {} value holds ids {} but the abstract matrix is {}", op, s.name(), show(&g), show(&model))));
                    }
                }
                let res = res.and_then(|_| check_ledger(listing(&model, false), &api));
                st = new;
                if let Err(f) = res {
                    failed = Some((k, f));
                    break;
                }
            }
            Err(f) => {
                failed = Some((k, f));
                break;
            }
        }
        if st.is_none() {
            break;
        }
    }
    // dropping the matrix must release every element exactly once
    drop(st);
    if failed.is_none() {
        let mut res = check_ledger(Vec::new(), "Drop");
        if res.is_ok() {
            for id in 0..ledger_len() as u32 {
                let s = ledger_slot(id);
                if s.drops != 1 {
                    res = Err(Fail { api: "Drop".to_string(), class: "ownership", what: "not_dropped_exactly_once".to_string(), detail: format!("element {} was dropped {} times", id, s.drops) });
                    break;
                }
            }
        }
        if let Err(f) = res {
            failed = Some((ops.len() - 1, f));
        }
    }
    let _ = ledger_take_errors();
    cx.flush(sub);
    match failed {
        Some((k, f)) => {
            let detail = format!("start {}, program (step {} fails) = {:?}; {}", start, k, &ops[..=k.min(ops.len() - 1)], f.detail);
            let v = violation(PROP, sub, &f.api, "Own", f.class, &f.what, detail, cfg.case_seed(), idx);
            sub.violated(v);
        }
        None => {
            sub.sample(|| format!("{} program {:?}: every one of the {} elements created was dropped exactly once", start, ops, ledger_len()));
            sub.held(h.get(), true);
        }
    }
}

// ------------------------------------------------------------------------------------------
// one array-conversion function per case (48 for Tag, 48 for Own): lets a sanitizer run be
// pointed at exactly one vek function with `--sub array_fns --index k`

fn one_array_fn<T: Ident, M: Api<T>>(sub: &mut Sub, cfg: &Config, idx: u64, ty: &str, mk: &mut dyn FnMut() -> T, into: bool, col: bool, nested: bool) {
    let n = M::N;
    let api = nm::<T, M>(array_fn(into, col, nested));
    sub.saw(&api);
    let res: Result<(), Fail> = (|| {
        if into {
            let m = M::from_fn(|_, _| mk());
            let g = raw_grid(&m);
            let arr = guarded(move || m.v_into_array(col, nested)).map_err(|p| Fail { api: api.clone(), class: "panic", what: "panic".into(), detail: p })?;
            expect_list(&arr.iter().map(|x| x.ident()).collect::<Vec<_>>(), &listing(&g, col), &api, "returned_array", "the returned array (flattened)")
        } else {
            let elems: Vec<T> = (0..n * n).map(|_| mk()).collect();
            let ids: Vec<u32> = elems.iter().map(|x| x.ident()).collect();
            let m = guarded(move || M::v_from_array(elems, col, nested)).map_err(|p| Fail { api: api.clone(), class: "panic", what: "panic".into(), detail: p })?;
            let g = raw_grid(&m);
            expect_list(&listing(&g, col), &ids, &api, "result_matrix", if col { "the column-by-column listing of the built matrix" } else { "the row-by-row listing of the built matrix" })
        }
    })();
    let res = res.and_then(|_| if ty == "Own" { check_ledger(Vec::new(), &api) } else { Ok(()) });
    match res {
        Ok(()) => {
            sub.sample(|| format!("{} [{}]: array order and matrix positions agree", api, ty));
            sub.held_enumerated(true)
        }
        Err(f) => {
            let v = violation(PROP, sub, &f.api, ty, f.class, &f.what, f.detail, cfg.case_seed(), idx);
            sub.violated(v)
        }
    }
}

fn run_array_fn(sub: &mut Sub, cfg: &Config, idx: u64) {
    let own = idx >= 48;
    let k = idx % 48;
    let (t, f) = (k / 8, k % 8);
    let (into, col, nested) = (f < 4, f & 1 == 1, f & 2 == 2);
    macro_rules! go {
        ($M:ident) => {
            if own {
                ledger_reset();
                one_array_fn::<Own, $M<Own>>(sub, cfg, idx, "Own", &mut Own::new, into, col, nested)
            } else {
                let mut c = 0u32;
                one_array_fn::<Tag, $M<Tag>>(
                    sub,
                    cfg,
                    idx,
                    "Tag",
                    &mut || {
                        c += 1;
                        Tag(c)
                    },
                    into,
                    col,
                    nested,
                )
            }
        };
    }
    match t {
        0 => go!(Rows2),
        1 => go!(Cols2),
        2 => go!(Rows3),
        3 => go!(Cols3),
        4 => go!(Rows4),
        _ => go!(Cols4),
    }
}

// ------------------------------------------------------------------------------------------
// trace (Sym) and casts (native)

macro_rules! trace_for {
    ($sub:expr, $cfg:expr, $($M:ident / $O:ident),+) => {$({
        type M = $M<Sym>;
        type O = $O<Sym>;
        let n = <M as MatX<Sym>>::N;
        let fill = || -> M { <M as MatX<Sym>>::from_fn(|i, j| Sym::var((i * n + j) as u32)) };
        let reference = move |f: &dyn Fn(u32) -> Fp| -> Vec<Fp> {
            let mut s = Fp::ZERO;
            for k in 0..n {
                s = s.add(f((k * n + k) as u32));
            }
            vec![s]
        };
        type Run = fn(M) -> Sym;
        let runs: [(&str, String, Run); 3] = [
            ("trace", format!("{}::trace", <M as MatX<Sym>>::NAME), |m| m.trace()),
            ("trace_of_transposed", format!("{}::trace", <M as MatX<Sym>>::NAME), |m| m.transposed().trace()),
            ("trace_after_layout_conversion", format!("{}::trace", <O as MatX<Sym>>::NAME), |m| O::from(m).trace()),
        ];
        for (case, api, run) in runs.iter() {
            sym_reset();
            let m = fill();
            match guarded(|| run(m)) {
                Ok(t) => {
                    decide_pit(PROP, $sub, api, "Sym", case, &[t], n * n, $cfg.case_seed(), 0, &reference);
                }
                Err(e) => {
                    let v = violation(PROP, $sub, api, "Sym", "panic", case, e, $cfg.case_seed(), 0);
                    $sub.violated(v);
                }
            }
        }
    })+};
}

fn gen_f64(rng: &mut Rng, hostile_per_elem: f64) -> f64 {
    if rng.unit_f64() < hostile_per_elem {
        return *rng.pick(&[f64::NAN, f64::INFINITY, f64::NEG_INFINITY, 1e300, -1e300, 2147483648.0, -2147483649.0, 4294967296.0, 3e9, -3e9]);
    }
    match rng.below(10) {
        0 => *rng.pick(&[2147483647.0, -2147483648.0, -0.9, 0.0, -0.0, 2147483647.5, 255.5, -2147483648.9]),
        1..=3 => rng.range_i64(-2_000_000_000, 2_000_000_000) as f64 + 0.5,
        _ => rng.range_i64(-4000, 4000) as f64 / 4.0,
    }
}
fn gen_i64(rng: &mut Rng, hostile_per_elem: f64) -> i64 {
    if rng.unit_f64() < hostile_per_elem {
        return *rng.pick(&[-1, 256, i64::MIN, i64::MAX, 1000, -256, 65536]);
    }
    match rng.below(6) {
        0 => *rng.pick(&[0, 255, 1, 254, 128, 127]),
        _ => rng.range_i64(0, 255),
    }
}

/// decide one cast of one matrix: `out` = what vek returned (None = numcast failed),
/// `exp` = the scalar cast of every element in abstract position
#[allow(clippy::too_many_arguments)]
fn judge_cast<S: Copy + Debug, D: Copy + PartialEq + Debug, MO: MatX<D>>(sub: &mut Sub, cfg: &Config, idx: u64, api: &str, ty: &str, vals: &[Vec<S>], out: Result<Option<MO>, String>, exp: Vec<Vec<Option<D>>>, hash: u64, nontrivial: bool) {
    sub.saw(api);
    let n = vals.len();
    let out = match out {
        Ok(o) => o,
        Err(e) => {
            let v = violation(PROP, sub, api, ty, "panic", "panic", format!("{} on {:?}: {}", api, vals, e), cfg.case_seed(), idx);
            sub.violated(v);
            return;
        }
    };
    let failing: Vec<(usize, usize)> = (0..n).flat_map(|i| (0..n).map(move |j| (i, j))).filter(|&(i, j)| exp[i][j].is_none()).collect();
    match out {
        None => {
            if failing.is_empty() {
                let v = violation(PROP, sub, api, ty, "wrong_value", "fails_but_every_element_casts", format!("{} on {:?} returned None although every element converts: {:?}", api, vals, exp), cfg.case_seed(), idx);
                sub.violated(v);
                return;
            }
        }
        Some(o) => {
            if !failing.is_empty() {
                let v = violation(PROP, sub, api, ty, "wrong_value", "succeeds_but_an_element_fails", format!("{} on {:?} returned a matrix although the scalar cast fails at (row, column) {:?}", api, vals, failing), cfg.case_seed(), idx);
                sub.violated(v);
                return;
            }
            for i in 0..n {
                for j in 0..n {
                    if Some(*o.at(i, j)) != exp[i][j] {
                        let v = violation(PROP, sub, api, ty, "wrong_value", "element_cast", format!("{} on {:?}: raw element (row {}, column {}) is {:?}, the scalar cast of {:?} is {:?}", api, vals, i, j, o.at(i, j), vals[i][j], exp[i][j]), cfg.case_seed(), idx);
                        sub.violated(v);
                        return;
                    }
                }
            }
        }
    }
    sub.sample(|| format!("{} [{}] on {:?}: {} element(s) not representable -> {}", api, ty, vals, failing.len(), if failing.is_empty() { "Some, element-wise equal to scalar casts" } else { "None" }));
    sub.held(hash, nontrivial);
}

macro_rules! casts_for {
    ($sub:expr, $cfg:expr, $idx:expr, $($M:ident),+) => {$({
        let n = <$M<f64> as MatX<f64>>::N;
        let name = <$M<f64> as MatX<f64>>::NAME;
        let mut rng = Rng::for_case(&format!("casts/{}", name), $cfg.case_seed(), $idx);
        // mode: 0 = no hostile element, 1 = exactly one at a random place, 2 = independent
        let mode = rng.below(3);
        let p = if mode == 2 { 1.0 / (n * n) as f64 } else { 0.0 };
        let mut fv: Vec<Vec<f64>> = (0..n).map(|_| (0..n).map(|_| gen_f64(&mut rng, p)).collect()).collect();
        let mut iv: Vec<Vec<i64>> = (0..n).map(|_| (0..n).map(|_| gen_i64(&mut rng, p)).collect()).collect();
        if mode == 1 {
            let (i, j) = (rng.usize_below(n), rng.usize_below(n));
            fv[i][j] = gen_f64(&mut rng, 1.0);
            let (i, j) = (rng.usize_below(n), rng.usize_below(n));
            iv[i][j] = gen_i64(&mut rng, 1.0);
        }
        let mut hf = H64::new();
        hf.s(name);
        let mut hi = hf;
        let mut asym_f = false;
        let mut asym_i = false;
        for i in 0..n {
            for j in 0..n {
                hf.f(fv[i][j]);
                hi.i(iv[i][j] as i128);
                asym_f |= fv[i][j].to_bits() != fv[j][i].to_bits();
                asym_i |= iv[i][j] != iv[j][i];
            }
        }
        let mf = <$M<f64> as MatX<f64>>::from_fn(|i, j| fv[i][j]);
        let mi = <$M<i64> as MatX<i64>>::from_fn(|i, j| iv[i][j]);
        let e: Vec<Vec<Option<i32>>> = fv.iter().map(|r| r.iter().map(|x| Some(*x as i32)).collect()).collect();
        judge_cast::<f64, i32, $M<i32>>($sub, $cfg, $idx, &format!("{}::as_", name), "f64->i32", &fv, guarded(|| Some(mf.as_::<i32>())), e, hf.get() ^ 1, asym_f);
        let e: Vec<Vec<Option<i32>>> = fv.iter().map(|r| r.iter().map(|x| <i32 as NumCast>::from(*x)).collect()).collect();
        judge_cast::<f64, i32, $M<i32>>($sub, $cfg, $idx, &format!("{}::numcast", name), "f64->i32", &fv, guarded(|| mf.numcast::<i32>()), e, hf.get() ^ 2, asym_f);
        let e: Vec<Vec<Option<u8>>> = iv.iter().map(|r| r.iter().map(|x| Some(*x as u8)).collect()).collect();
        judge_cast::<i64, u8, $M<u8>>($sub, $cfg, $idx, &format!("{}::as_", name), "i64->u8", &iv, guarded(|| Some(mi.as_::<u8>())), e, hi.get() ^ 3, asym_i);
        let e: Vec<Vec<Option<u8>>> = iv.iter().map(|r| r.iter().map(|x| <u8 as NumCast>::from(*x)).collect()).collect();
        judge_cast::<i64, u8, $M<u8>>($sub, $cfg, $idx, &format!("{}::numcast", name), "i64->u8", &iv, guarded(|| mi.numcast::<u8>()), e, hi.get() ^ 4, asym_i);
    })+};
}

// ------------------------------------------------------------------------------------------

const NAMES: [(&str, &str, &str); 6] = [("Rows2", "Cols2", "row"), ("Cols2", "Rows2", "col"), ("Rows3", "Cols3", "row"), ("Cols3", "Rows3", "col"), ("Rows4", "Cols4", "row"), ("Cols4", "Rows4", "col")];

fn required_programs() -> Vec<String> {
    let mut v = Vec::new();
    for (m, o, l) in NAMES.iter() {
        for f in ["new", "transposed", "transpose", "diagonal", "with_diagonal", "broadcast_diagonal", "map", "map2", "apply", "apply2", "identity", "gl_should_transpose", "GL_SHOULD_TRANSPOSE", "row_count", "col_count", "is_packed", "into_row_array", "into_row_arrays", "into_col_array", "into_col_arrays", "from_row_array", "from_row_arrays", "from_col_array", "from_col_arrays"] {
            v.push(format!("{}::{}", m, f));
        }
        v.push(format!("{}::map_{}s", m, l));
        v.push(format!("{}::as_{}_slice", m, l));
        v.push(format!("{}::as_mut_{}_slice", m, l));
        v.push(format!("Index<(usize, usize)> for {}", m));
        v.push(format!("IndexMut<(usize, usize)> for {}", m));
        v.push(format!("Display for {}", m));
        v.push(format!("Default for {}", m));
        v.push(format!("From<{}> for {}", o, m));
        let (lay, n) = m.split_at(4);
        for k in ["2", "3", "4"] {
            if k != n {
                v.push(format!("From<{}{}> for {}", lay, k, m));
            }
        }
    }
    v
}
fn required_own() -> Vec<String> {
    let mut v = Vec::new();
    for (m, o, l) in NAMES.iter() {
        for f in ["transposed", "transpose", "diagonal", "map", "map2", "into_row_array", "into_row_arrays", "into_col_array", "into_col_arrays", "from_row_array", "from_row_arrays", "from_col_array", "from_col_arrays"] {
            v.push(format!("{}::{}", m, f));
        }
        v.push(format!("{}::map_{}s", m, l));
        v.push(format!("{}::as_{}_slice", m, l));
        v.push(format!("{}::as_mut_{}_slice", m, l));
        v.push(format!("From<{}> for {}", o, m));
        let (lay, n) = m.split_at(4);
        for k in ["3", "4"] {
            if k > n {
                v.push(format!("From<{}{}> for {}", lay, k, m));
            }
        }
    }
    v
}

/// Display with format specifications: the text must not depend on the layout, and every element
/// must be formatted with the caller's specification (precision, width, sign, zero padding)
fn display_specs_case<R, C>(sub: &mut Sub, cfg: &Config, idx: u64)
where
    R: MatX<f64> + Display,
    C: MatX<f64> + Display,
{
    let mut rng = Rng::for_case("display_specs", cfg.case_seed(), idx ^ ((R::N as u64) << 40));
    let n = R::N;
    let vals: Vec<Vec<f64>> = (0..n).map(|_| (0..n).map(|_| (rng.range_i64(-4000, 4000) as f64) / 16.0).collect()).collect();
    let r = R::from_fn(|i, j| vals[i][j]);
    let c = C::from_fn(|i, j| vals[i][j]);
    let mut h = H64::new();
    h.s(R::NAME);
    for row in &vals {
        for x in row {
            h.f(*x);
        }
    }
    macro_rules! spec {
        ($fmt:literal) => {{
            let (ar, ac) = (format!("Display for {}", R::NAME), format!("Display for {}", C::NAME));
            sub.saw(&ar);
            sub.saw(&ac);
            let tr = guarded(|| format!($fmt, r));
            let tc = guarded(|| format!($fmt, c));
            match (tr, tc) {
                (Ok(tr), Ok(tc)) => {
                    let want: Vec<String> = vals.iter().flat_map(|row| row.iter().map(|x| format!($fmt, x).trim().to_string())).collect();
                    let toks = |t: &str| -> Vec<String> { t.split_whitespace().filter(|w| *w != "(" && *w != ")").map(|w| w.to_string()).collect() };
                    if tr != tc {
                        let v = violation(PROP, sub, &ac, "f64", "wrong_value", "display_depends_on_layout", format!("format specification {:?}: row-major prints {:?} but column-major prints {:?} for the same matrix {:?}", $fmt, tr, tc, vals), cfg.case_seed(), idx);
                        sub.add_violation(v);
                        return false;
                    }
                    for (api, t) in [(&ar, &tr), (&ac, &tc)] {
                        if toks(t) != want {
                            let v = violation(PROP, sub, api, "f64", "wrong_value", "display_ignores_format_spec", format!("format specification {:?}: printed {:?}; the elements formatted with that specification, row by row, are {:?}", $fmt, t, want), cfg.case_seed(), idx);
                            sub.add_violation(v);
                            return false;
                        }
                    }
                    true
                }
                (a, b) => {
                    let v = violation(PROP, sub, &ar, "f64", "panic", "display", format!("formatting with {:?} panicked: {:?} / {:?}", $fmt, a.err(), b.err()), cfg.case_seed(), idx);
                    sub.add_violation(v);
                    false
                }
            }
        }};
    }
    let ok = (|| spec!("{}") && spec!("{:.1}") && spec!("{:.3}") && spec!("{:>9}") && spec!("{:+}") && spec!("{:08.2}") && spec!("{:<7.1}"))();
    if ok {
        sub.held(h.get(), true);
        sub.sample(|| format!("{} / {} of {:?}: identical text for 7 format specifications, e.g. {{:.1}} -> {:?}", R::NAME, C::NAME, vals, format!("{:.1}", r)));
    } else {
        sub.evaluations += 1;
        sub.conclusive += 1;
    }
}

fn main() {
    let mut cfg = Config::from_args(PROP);
    let miri = cfg.tool == "miri";
    if miri {
        cfg.threads = 1;
        RAW_MEMORY.store(true, std::sync::atomic::Ordering::Relaxed);
    }
    let memcheck = cfg.tool == "memcheck";
    if memcheck {
        cfg.threads = 1;
        RAW_MEMORY.store(true, std::sync::atomic::Ordering::Relaxed);
    }
    let mut rep = Report::new(cfg.clone());

    if memcheck {
        // valgrind memcheck: the heap-owning element through every conversion / view / write of the
        // matrix API (a double drop is a real double free, a read after a move a real invalid read)
        let per = cfg.n(4000, 4000);
        let proto = Sub::new("own_conversions", &format!("tool=memcheck, single thread: {} random programs per size (length <= 10) on matrices of the heap-owning Own element, same monitors as the native own_conversions sub-check", per)).with_floor(per);
        let s = run_cases(&cfg, proto, 3 * per, |s, i| run_own(s, &cfg, i, OpSet::Full, 10));
        rep.push(s);
        let mut proto = Sub::new("array_fns", "tool=memcheck: each of the 8 array conversion functions x 6 matrix types x {Tag, Own}").with_floor(0);
        proto.exhaustive = true;
        let s = run_cases(&cfg, proto, 96, |s, i| run_array_fn(s, &cfg, i));
        rep.push(s);
        std::process::exit(rep.finish());
    }

    if miri {
        // the unsafe-backed operations only, under the interpreter; slice views first so that a
        // diagnostic in the array conversions does not hide them (--sub selects one of the four)
        let per = cfg.n(30, 150);
        let subs: [(&str, OpSet, bool, &str); 4] = [
            ("miri_tag_slices", OpSet::Slices, false, "as_{row,col}_slice, as_mut_*_slice writes, Display and the GL reading on Tag matrices, row- and column-major side by side against the abstract grid"),
            ("miri_own_slices", OpSet::Slices, true, "as_{row,col}_slice reads and as_mut_*_slice writes (old element dropped in place) on matrices of the heap-owning Own element; ownership ledger checked after every step and after the final drop"),
            ("miri_tag_arrays", OpSet::Arrays, false, "into_/from_{row,col}_array(s) round and cross trips on Tag matrices, both layouts side by side"),
            ("miri_own_arrays", OpSet::Arrays, true, "into_/from_{row,col}_array(s) round and cross trips on matrices of Own: every id exactly once in the documented position, dropped exactly once at the end"),
        ];
        for (name, set, own, what) in subs.iter() {
            let rule = format!("tool=miri, single thread: {}; {} programs per size N=2,3,4 of length <= 8; distinct by hash of the op sequence and parameters; non-trivial = at least one write or re-layouting conversion", what, per);
            let proto = Sub::new(name, &rule).with_floor(per);
            let s = run_cases(&cfg, proto, 3 * per, |s, i| {
                if *own {
                    run_own(s, &cfg, i, *set, 8)
                } else {
                    run_program(s, &cfg, i, *set, 8)
                }
            });
            rep.push(s);
        }
        {
            let mut proto = Sub::new("array_fns", "each of the 8 array conversion functions x 6 matrix types x {Tag, Own} called once on its own (case index = function): into_* must list the raw elements in the order its name says, from_* must place array element k at the (row, column) its name says; Own: nothing dropped or leaked by the conversion; finite space enumerated completely").with_floor(0);
            proto.exhaustive = true;
            let s = run_cases(&cfg, proto, 96, |s, i| run_array_fn(s, &cfg, i));
            rep.push(s);
        }
        std::process::exit(rep.finish());
    }

    {
        let per = cfg.n(20_000, 600_000);
        let maxlen = if cfg.thorough() { 40 } else { 12 };
        let mut proto = Sub::new(
            "programs",
            &format!("{} random programs per start size N=2,3,4, length 4..={}, over new / m[(i,j)] read+write / transposed / transpose / diagonal / with_diagonal / broadcast_diagonal / map / map2 / apply / apply2 / map_rows|map_cols / Rows<->Cols conversion / Mat2<->Mat3<->Mat4 / into_+from_{{row,col}}_array(s) round and cross trips / as_*_slice (+mut writes) / Display / Default / identity / gl_should_transpose / counts, executed side by side on a row-major and a column-major Tag matrix and an abstract grid; after every step both values are compared with the grid through their raw public fields; distinct = hash of op sequence and parameters; non-trivial = at least one write and at least one transpose or layout conversion", per, maxlen),
        )
        .with_floor(3 * per / 5);
        proto.required = required_programs();
        let s = run_cases(&cfg, proto, 3 * per, |s, i| run_program(s, &cfg, i, OpSet::Full, maxlen));
        rep.push(s);
    }
    {
        let mut s = Sub::new("trace_sym", "trace() on a matrix of free symbols (directly, after transposed(), after layout conversion) for 3 sizes x 2 layouts; the logged expression must equal the sum of the diagonal symbols (polynomial identity at 6 random points of GF(2^61-1)); distinct = (type, variant)").with_floor(18);
        if cfg.wants("trace_sym") {
            trace_for!(&mut s, &cfg, Rows2 / Cols2, Cols2 / Rows2, Rows3 / Cols3, Cols3 / Rows3, Rows4 / Cols4, Cols4 / Rows4);
        } else {
            s.floor = 0;
        }
        rep.push(s);
    }
    {
        let nd = cfg.n(300, 30_000);
        let proto = Sub::new("display_specs", "random f64 matrices (multiples of 1/16), 3 sizes, row-major and column-major value of the same abstract matrix formatted with 7 format specifications ({} {:.1} {:.3} {:>9} {:+} {:08.2} {:<7.1}): the two texts are identical and the whitespace-separated tokens are the elements, row by row, each formatted with the caller's specification; distinct by hash of the values").with_floor(nd * 2);
        let s = run_cases(&cfg, proto, nd, |s, i| {
            display_specs_case::<Rows2<f64>, Cols2<f64>>(s, &cfg, i);
            display_specs_case::<Rows3<f64>, Cols3<f64>>(s, &cfg, i);
            display_specs_case::<Rows4<f64>, Cols4<f64>>(s, &cfg, i);
        });
        rep.push(s);
    }
    {
        let nc = cfg.n(4000, 100_000);
        let mut proto = Sub::new("casts", "random f64 and i64 matrices (boundary-biased; none / exactly one / a few elements not representable in the target) through as_ and numcast (f64->i32, i64->u8), 3 sizes x 2 layouts; every raw output element equals the scalar cast of the input element at the same (row, column); numcast is None iff some element's scalar NumCast fails; non-trivial = input not symmetric; distinct by hash of the input").with_floor(nc * 10);
        for (m, _, _) in NAMES.iter() {
            proto.required.push(format!("{}::as_", m));
            proto.required.push(format!("{}::numcast", m));
        }
        let s = run_cases(&cfg, proto, nc, |s, i| {
            casts_for!(s, &cfg, i, Rows2, Cols2, Rows3, Cols3, Rows4, Cols4);
        });
        rep.push(s);
    }
    {
        let per = cfg.n(10_000, 300_000);
        let mut proto = Sub::new(
            "own_conversions",
            &format!("{} random programs per size (length <= 10, random start layout) on a matrix of heap-owning non-Copy Own elements: array conversions (flat, nested, round and cross), slice views and writes, index writes, transposed/transpose, map (moving / replacing), map2, map_rows|map_cols, layout conversion, Mat4->Mat3->Mat2, diagonal; after every step the ids at the raw positions equal the abstract grid and the set of live elements equals the grid's; at the end every element created was dropped exactly once; distinct by hash of the op sequence", per),
        )
        .with_floor(per);
        proto.required = required_own();
        let s = run_cases(&cfg, proto, 3 * per, |s, i| run_own(s, &cfg, i, OpSet::Full, 10));
        rep.push(s);
    }
    {
        let mut proto = Sub::new("array_fns", "each of the 8 array conversion functions x 6 matrix types x {Tag, Own} called once on its own (case index = function): into_* must list the raw elements in the order its name says, from_* must place array element k at the (row, column) its name says; Own: nothing dropped or leaked by the conversion; finite space enumerated completely").with_floor(0);
        proto.exhaustive = true;
        let s = run_cases(&cfg, proto, 96, |s, i| run_array_fn(s, &cfg, i));
        rep.push(s);
    }
    std::process::exit(rep.finish());
}

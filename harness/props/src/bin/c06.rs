//! C06 — determinants are correct and the inverse functions really invert.
//!
//! * `det_trace`: one `Sym`-traced execution of `Mat{2,3,4}::determinant` per layout; the logged
//!   expression must be the Leibniz polynomial (sum over permutations, sign by cycle count,
//!   enumerated by the harness over GF(2^61-1)), also after a harness-built transpose, after
//!   vek's `transposed()` and after the layout change `Rows::from(Cols)` / `Cols::from(Rows)`.
//! * `det_values`: vek's determinant on `Q`, `Fp`, `i64`, short-dyadic `f64` matrices against the
//!   same Leibniz sum; det(A^T) = det(A); layout change; det(AB) = det(A) det(B).
//! * `inverse_trace`: `Sym` trace of `Mat4::inverted` / `invert` in both layouts: the 16 logged
//!   rational functions are compared (PIT) with the true inverse computed by the harness's own
//!   Gauss–Jordan elimination over GF(p) (which itself is checked to be two-sided there).
//! * `inverse_values`: vek's general inverse on `Q` / `Fp` matrices: dense random plus structured
//!   families that stress the 2x2-block algorithm (zero / singular sub-blocks with a non-singular
//!   whole, monomial, triangular, sparse, diagonal, repeated rows in a block, {-1,0,1} entries):
//!   M*X = X*M = I with the harness's naive product and X = Gauss–Jordan inverse.
//! * `rigid_inverse` / `affine_inverse`: T*R and T*R*S built by the harness from raw arrays
//!   (rational rotation, free translation, scales with s^2 > epsilon incl. negative and strongly
//!   non-uniform): fast inverse == closed form S^-1 R^T T^-1 == vek's general inverse.
//! * `float_inverse`: f32 / f64 tier with a derived tolerance and an ill-conditioning guard.

use monitors::fp::{fp_clear, Fp};
use monitors::prng::{Rng, H64};
use monitors::q::clear_angles;
use monitors::report::{guarded, run_cases, take_poison, Config, Report, Sub};
use monitors::scalar::Mon;
use monitors::sym::{sym_reset, Sym};
use monitors::Q;
use num_traits::real::Real;
use num_traits::MulAdd;
use props::*;
use std::ops::{Add, Mul};

const PROP: &str = "C06";

// ------------------------------------------------------------------ harness linear algebra

type Grid<T> = Vec<Vec<T>>;

fn is0<T: Mon>(x: T) -> bool {
    x.m_eq(T::m_int(0))
}
fn g_ident<T: Mon>(n: usize) -> Grid<T> {
    (0..n).map(|i| (0..n).map(|j| T::m_int((i == j) as i64)).collect()).collect()
}
fn g_mul<T: Mon>(a: &Grid<T>, b: &Grid<T>) -> Grid<T> {
    let n = a.len();
    let mut out = vec![vec![T::m_int(0); n]; n];
    for i in 0..n {
        for j in 0..n {
            let mut s = T::m_int(0);
            for k in 0..n {
                s = s.m_add(a[i][k].m_mul(b[k][j]));
            }
            out[i][j] = s;
        }
    }
    out
}
fn g_t<T: Mon>(a: &Grid<T>) -> Grid<T> {
    let n = a.len();
    (0..n).map(|i| (0..n).map(|j| a[j][i]).collect()).collect()
}
fn g_diff<T: Mon>(a: &Grid<T>, b: &Grid<T>) -> Option<(usize, usize)> {
    for i in 0..a.len() {
        for j in 0..a.len() {
            if !a[i][j].m_eq(b[i][j]) {
                return Some((i, j));
            }
        }
    }
    None
}
fn next_perm(p: &mut [usize]) -> bool {
    let n = p.len();
    if n < 2 {
        return false;
    }
    let mut i = n - 1;
    while i > 0 && p[i - 1] >= p[i] {
        i -= 1;
    }
    if i == 0 {
        return false;
    }
    let mut j = n - 1;
    while p[j] <= p[i - 1] {
        j -= 1;
    }
    p.swap(i - 1, j);
    p[i..].reverse();
    true
}
/// Leibniz determinant: sum over all permutations (lexicographic enumeration), sign = (-1)^(n - #cycles).
fn leibniz<T: Mon>(a: &Grid<T>) -> T {
    let n = a.len();
    let mut perm: Vec<usize> = (0..n).collect();
    let mut total = T::m_int(0);
    loop {
        let mut seen = vec![false; n];
        let mut cycles = 0;
        for i in 0..n {
            if !seen[i] {
                cycles += 1;
                let mut j = i;
                while !seen[j] {
                    seen[j] = true;
                    j = perm[j];
                }
            }
        }
        let mut term = T::m_int(1);
        for (i, &pi) in perm.iter().enumerate() {
            term = term.m_mul(a[i][pi]);
        }
        total = if (n - cycles) % 2 == 0 { total.m_add(term) } else { total.m_sub(term) };
        if !next_perm(&mut perm) {
            break;
        }
    }
    total
}
/// Gauss–Jordan inverse with "first non-zero" pivoting (exact fields only). None = singular.
fn gauss_jordan<T: Mon>(a: &Grid<T>) -> Option<Grid<T>> {
    let n = a.len();
    let mut m = a.clone();
    let mut inv = g_ident::<T>(n);
    for c in 0..n {
        let p = (c..n).find(|&r| !is0(m[r][c]))?;
        m.swap(c, p);
        inv.swap(c, p);
        let d = m[c][c];
        for j in 0..n {
            m[c][j] = m[c][j].m_div(d);
            inv[c][j] = inv[c][j].m_div(d);
        }
        for r in 0..n {
            if r != c && !is0(m[r][c]) {
                let f = m[r][c];
                for j in 0..n {
                    m[r][j] = m[r][j].m_sub(f.m_mul(m[c][j]));
                    inv[r][j] = inv[r][j].m_sub(f.m_mul(inv[c][j]));
                }
            }
        }
    }
    Some(inv)
}
fn grid_of<T: Copy, M: MatX<T>>(m: &M) -> Grid<T> {
    m.to_rows()
}
fn mat_of<T: Copy, M: MatX<T>>(g: &Grid<T>) -> M {
    M::from_fn(|i, j| g[i][j])
}
fn hash_grid<T: Elem>(h: &mut H64, g: &Grid<T>) {
    for r in g {
        for x in r {
            x.h(h);
        }
    }
}
fn is_diagonal<T: Mon>(g: &Grid<T>) -> bool {
    for i in 0..g.len() {
        for j in 0..g.len() {
            if i != j && !is0(g[i][j]) {
                return false;
            }
        }
    }
    true
}

// ------------------------------------------------------------------ uniform access to the vek entry points

trait VekMat<T>: MatX<T> + Copy {
    type Other: VekMat<T>;
    const SIZE: &'static str;
    fn det(self) -> T;
    fn tr(self) -> Self;
    fn relayout(self) -> Self::Other;
    fn vmul(self, o: Self) -> Self;
    fn vmul_assign(self, o: Self) -> Self;
}
macro_rules! impl_vekmat {
    ($($A:ident <-> $B:ident : $name:expr),+) => {$(
        impl<T> VekMat<T> for $A<T>
        where T: Copy + num_traits::Zero + Add<Output = T> + std::ops::Sub<Output = T> + Mul<Output = T> + MulAdd<T, T, Output = T>
        {
            type Other = $B<T>;
            const SIZE: &'static str = $name;
            fn det(self) -> T { self.determinant() }
            fn tr(self) -> Self { self.transposed() }
            fn relayout(self) -> $B<T> { <$B<T>>::from(self) }
            fn vmul(self, o: Self) -> Self { self * o }
            fn vmul_assign(self, o: Self) -> Self { let mut p = self; p *= o; p }
        }
    )+};
}
impl_vekmat!(Rows2 <-> Cols2 : "Mat2", Cols2 <-> Rows2 : "Mat2", Rows3 <-> Cols3 : "Mat3", Cols3 <-> Rows3 : "Mat3", Rows4 <-> Cols4 : "Mat4", Cols4 <-> Rows4 : "Mat4");

trait Inv4<T>: MatX<T> + Copy {
    fn inv(self) -> Self;
    fn inv_ip(&mut self);
    fn inv_rigid(self) -> Self;
    fn inv_rigid_ip(&mut self);
    fn inv_affine(self) -> Self;
    fn inv_affine_ip(&mut self);
    fn vmul(self, o: Self) -> Self;
    fn vmul_assign(self, o: Self) -> Self;
}
macro_rules! impl_inv4 {
    ($($A:ident),+) => {$(
        impl<T: Real + MulAdd<T, T, Output = T>> Inv4<T> for $A<T> {
            fn inv(self) -> Self { self.inverted() }
            fn inv_ip(&mut self) { self.invert() }
            fn inv_rigid(self) -> Self { self.inverted_affine_transform_no_scale() }
            fn inv_rigid_ip(&mut self) { self.invert_affine_transform_no_scale() }
            fn inv_affine(self) -> Self { self.inverted_affine_transform() }
            fn inv_affine_ip(&mut self) { self.invert_affine_transform() }
            fn vmul(self, o: Self) -> Self { self * o }
            fn vmul_assign(self, o: Self) -> Self { let mut p = self; p *= o; p }
        }
    )+};
}
impl_inv4!(Rows4, Cols4);

// ------------------------------------------------------------------ exact element types

trait Elem: Mon + Real + MulAdd<Self, Self, Output = Self> {
    const TY: &'static str;
    /// a general matrix entry (boundary-biased for Q, uniform for Fp)
    fn entry(rng: &mut Rng) -> Self;
    fn entry_nz(rng: &mut Rng) -> Self;
    /// parameter of the rational parametrisation of rotations (small integer for Q, uniform for Fp)
    fn param(rng: &mut Rng) -> Self;
    fn h(self, h: &mut H64);
    fn reset();
}
impl Elem for Q {
    const TY: &'static str = "Q";
    fn entry(rng: &mut Rng) -> Q {
        match rng.below(10) {
            0 | 1 => Q::ZERO,
            2 => Q::ONE,
            3 => Q::int(-1),
            4 | 5 => Q::int(rng.range_i64(-9, 9)),
            _ => Q::frac(rng.range_i64(-9, 9), rng.range_i64(1, 4)),
        }
    }
    fn entry_nz(rng: &mut Rng) -> Q {
        Q::frac(rng.nonzero_i64(9), rng.range_i64(1, 4))
    }
    fn param(rng: &mut Rng) -> Q {
        Q::int(rng.range_i64(-3, 3))
    }
    fn h(self, h: &mut H64) {
        h.u(self.hash64());
    }
    fn reset() {
        clear_angles();
        let _ = take_poison();
    }
}
impl Elem for Fp {
    const TY: &'static str = "Fp";
    fn entry(rng: &mut Rng) -> Fp {
        match rng.below(12) {
            0 => Fp::ZERO,
            1 => Fp::ONE,
            _ => Fp::random(rng),
        }
    }
    fn entry_nz(rng: &mut Rng) -> Fp {
        Fp::random_nonzero(rng)
    }
    fn param(rng: &mut Rng) -> Fp {
        Fp::random(rng)
    }
    fn h(self, h: &mut H64) {
        h.u(self.0);
    }
    fn reset() {
        fp_clear();
        let _ = take_poison();
    }
}

/// unit quaternion [x,y,z,w] = (a + bi + cj + dk)^2 / |.|^2 from four parameters (no square root)
fn unit_quat<T: Elem>(rng: &mut Rng) -> [T; 4] {
    loop {
        let (a, b, c, d) = (T::param(rng), T::param(rng), T::param(rng), T::param(rng));
        let n = a.m_mul(a).m_add(b.m_mul(b)).m_add(c.m_mul(c)).m_add(d.m_mul(d));
        if is0(n) {
            continue;
        }
        let two = T::m_int(2);
        let w = a.m_mul(a).m_sub(b.m_mul(b)).m_sub(c.m_mul(c)).m_sub(d.m_mul(d)).m_div(n);
        return [two.m_mul(a).m_mul(b).m_div(n), two.m_mul(a).m_mul(c).m_div(n), two.m_mul(a).m_mul(d).m_div(n), w];
    }
}
/// one of the 24 axis-aligned rotations (signed permutation matrices of determinant +1): the exact
/// quarter and half turns about the coordinate axes and the diagonal turns — the special structure
/// (zero off-diagonal entries, entries exactly +-1) that a "fast path" keys on
fn axis_aligned_rot<T: Mon>(rng: &mut Rng) -> [[T; 3]; 3] {
    const PERMS: [[usize; 3]; 6] = [[0, 1, 2], [0, 2, 1], [1, 0, 2], [1, 2, 0], [2, 0, 1], [2, 1, 0]];
    const EVEN: [bool; 6] = [true, false, false, true, true, false];
    let pi = rng.below(6) as usize;
    let p = PERMS[pi];
    let mut sg = [if rng.bool() { 1i64 } else { -1 }, if rng.bool() { 1 } else { -1 }, 1];
    // determinant = sign(perm) * product of signs must be +1
    let prod = sg[0] * sg[1];
    sg[2] = if EVEN[pi] { prod } else { -prod };
    let z = T::m_int(0);
    let mut r = [[z; 3]; 3];
    for i in 0..3 {
        r[i][p[i]] = T::m_int(sg[i]);
    }
    r
}
/// textbook rotation matrix of a unit quaternion (acting on column vectors)
fn quat_rot<T: Mon>(q: [T; 4]) -> [[T; 3]; 3] {
    let [x, y, z, w] = q;
    let two = T::m_int(2);
    let one = T::m_int(1);
    let m = |a: T, b: T| a.m_mul(b);
    [
        [one.m_sub(two.m_mul(m(y, y).m_add(m(z, z)))), two.m_mul(m(x, y).m_sub(m(z, w))), two.m_mul(m(x, z).m_add(m(y, w)))],
        [two.m_mul(m(x, y).m_add(m(z, w))), one.m_sub(two.m_mul(m(x, x).m_add(m(z, z)))), two.m_mul(m(y, z).m_sub(m(x, w)))],
        [two.m_mul(m(x, z).m_sub(m(y, w))), two.m_mul(m(y, z).m_add(m(x, w))), one.m_sub(two.m_mul(m(x, x).m_add(m(y, y))))],
    ]
}
/// M = T(t) * R * diag(s) and its closed-form inverse S^-1 R^T T^-1, both as raw 4x4 grids
fn trs<T: Mon>(r: &[[T; 3]; 3], t: &[T; 3], s: &[T; 3]) -> (Grid<T>, Grid<T>) {
    let z = T::m_int(0);
    let mut m = vec![vec![z; 4]; 4];
    let mut x = vec![vec![z; 4]; 4];
    for i in 0..3 {
        for j in 0..3 {
            m[i][j] = r[i][j].m_mul(s[j]);
            x[i][j] = r[j][i].m_div(s[i]);
        }
        m[i][3] = t[i];
    }
    for i in 0..3 {
        let mut acc = z;
        for j in 0..3 {
            acc = acc.m_add(x[i][j].m_mul(t[j]));
        }
        x[i][3] = acc.m_neg();
    }
    m[3][3] = T::m_int(1);
    x[3][3] = T::m_int(1);
    (m, x)
}

// ------------------------------------------------------------------ determinant, traced

fn det_trace<M>(sub: &mut Sub, cfg: &Config)
where
    M: VekMat<Sym>,
{
    let n = M::N;
    let api = format!("{}::determinant", M::SIZE);
    let ty = format!("{}<Sym>", M::NAME);
    let oty = format!("{}<Sym>", <M::Other as MatX<Sym>>::NAME);
    let refdet = move |f: &dyn Fn(u32) -> Fp| -> Vec<Fp> {
        let g: Grid<Fp> = (0..n).map(|i| (0..n).map(|j| f((i * n + j) as u32)).collect()).collect();
        vec![leibniz(&g)]
    };
    let fill = || M::from_fn(|i, j| Sym::var((i * n + j) as u32));
    let run = |sub: &mut Sub, case: &str, ty: &str, f: &dyn Fn() -> Sym| {
        sym_reset();
        match guarded(f) {
            Ok(d) => {
                decide_pit(PROP, sub, &api, ty, case, &[d], n * n, cfg.seed, 0, &refdet);
            }
            Err(e) => {
                sub.saw(&api);
                let v = violation(PROP, sub, &api, ty, "panic", case, e, cfg.seed, 0);
                sub.violated(v);
            }
        }
    };
    run(sub, "leibniz", &ty, &|| fill().det());
    // the matrix whose (i,j) element is symbol (j,i): its determinant must be the same polynomial
    run(sub, "transpose_invariance", &ty, &|| M::from_fn(|i, j| Sym::var((j * n + i) as u32)).det());
    run(sub, "vek_transposed", &ty, &|| fill().tr().det());
    run(sub, "layout_change", &oty, &|| fill().relayout().det());
}

// ------------------------------------------------------------------ determinant, values

fn det_values<T: Elem, M: VekMat<T>>(sub: &mut Sub, cfg: &Config, idx: u64) {
    T::reset();
    let n = M::N;
    let name = format!("det_values/{}/{}", M::NAME, T::TY);
    let mut rng = Rng::for_case(&name, cfg.case_seed(), idx);
    let api = format!("{}::determinant", M::SIZE);
    let ty = format!("{}<{}>", M::NAME, T::TY);
    let ga: Grid<T> = (0..n).map(|_| (0..n).map(|_| T::entry(&mut rng)).collect()).collect();
    let gb: Grid<T> = (0..n).map(|_| (0..n).map(|_| T::entry(&mut rng)).collect()).collect();
    let mut h = H64::new();
    h.s(&name);
    hash_grid(&mut h, &ga);
    hash_grid(&mut h, &gb);
    let a: M = mat_of(&ga);
    let b: M = mat_of(&gb);
    let at: M = mat_of(&g_t(&ga));
    let ab: M = mat_of(&g_mul(&ga, &gb));
    sub.saw_n(&api, 7);
    let r = guarded(|| (a.det(), b.det(), at.det(), a.relayout().det(), ab.det(), a.vmul(b).det(), a.vmul_assign(b).det()));
    let (da, db, dat, dal, dab, dvab, dvab_assign) = match r {
        Ok(v) => v,
        Err(e) => {
            let v = violation(PROP, sub, &api, &ty, "panic", "determinant", format!("a={:?} b={:?}: {}", ga, gb, e), cfg.case_seed(), idx);
            sub.violated(v);
            return;
        }
    };
    let ea = leibniz(&ga);
    let eb = leibniz(&gb);
    let eab = ea.m_mul(eb);
    if let Some(p) = take_poison() {
        sub.inconclusive(&format!("poison:{}", p));
        return;
    }
    let checks: [(&str, T, T); 7] = [
        ("leibniz", da, ea),
        ("leibniz", db, eb),
        ("transpose_invariance", dat, ea),
        ("layout_change", dal, ea),
        ("multiplicative", dab, eab),
        ("multiplicative_vek_product", dvab, eab),
        ("multiplicative_vek_product_assign (a *= b)", dvab_assign, eab),
    ];
    for (what, got, exp) in checks.iter() {
        if !got.m_eq(*exp) {
            let v = violation(PROP, sub, &api, &ty, "wrong_value", what, format!("a={:?} b={:?}: {} gives {:?}, expected {:?} (det a = {:?}, det b = {:?} by Leibniz)", ga, gb, what, got, exp, ea, eb), cfg.case_seed(), idx);
            sub.violated(v);
            return;
        }
    }
    sub.sample(|| format!("{} [{}]: a={:?} -> {:?}", api, ty, ga, da));
    sub.held(h.get(), !is0(ea) && !is_diagonal(&ga));
}

fn det_native<Mi: VekMat<i64>, Mf: VekMat<f64>>(sub: &mut Sub, cfg: &Config, idx: u64) {
    let _ = take_poison();
    let n = Mi::N;
    let name = format!("det_native/{}", Mi::NAME);
    let mut rng = Rng::for_case(&name, cfg.case_seed(), idx);
    let api = format!("{}::determinant", Mi::SIZE);
    let gi: Vec<Vec<i64>> = (0..n).map(|_| (0..n).map(|_| if rng.chance(1, 8) { 0 } else { rng.range_i64(-64, 64) }).collect()).collect();
    let gq: Grid<Q> = gi.iter().map(|r| r.iter().map(|&x| Q::int(x)).collect()).collect();
    let mut h = H64::new();
    h.s(&name);
    for r in &gi {
        for &x in r {
            h.i(x as i128);
        }
    }
    let e = leibniz(&gq);
    let mi = Mi::from_fn(|i, j| gi[i][j]);
    // entries k/8: every product of up to four entries and every partial sum is exactly representable
    let mf = Mf::from_fn(|i, j| gi[i][j] as f64 / 8.0);
    sub.saw_n(&api, 4);
    let r = guarded(|| (mi.det(), mi.tr().det(), mf.det(), mf.relayout().det()));
    let (di, dit, df, dfl) = match r {
        Ok(v) => v,
        Err(er) => {
            let v = violation(PROP, sub, &api, &format!("{}<i64>", Mi::NAME), "panic", "determinant", format!("m={:?}: {}", gi, er), cfg.case_seed(), idx);
            sub.violated(v);
            return;
        }
    };
    let scale = Q::int(8i64.pow(n as u32));
    let ef = e.m_div(scale);
    let _ = take_poison();
    for (what, got) in [("leibniz", di), ("transpose_invariance", dit)] {
        if !Q::int(got).m_eq(e) {
            let v = violation(PROP, sub, &api, &format!("{}<i64>", Mi::NAME), "wrong_value", what, format!("m={:?}: determinant {} expected {:?}", gi, got, e), cfg.case_seed(), idx);
            sub.violated(v);
            return;
        }
    }
    for (what, got) in [("leibniz", df), ("layout_change", dfl)] {
        if Q::from_f64_exact(got).map_or(true, |g| !g.m_eq(ef)) {
            let v = violation(PROP, sub, &api, &format!("{}<f64>", Mf::NAME), "wrong_value", what, format!("m={:?}/8: determinant {} expected {:?}", gi, got, ef), cfg.case_seed(), idx);
            sub.violated(v);
            return;
        }
    }
    sub.held(h.get(), !e.is_zero());
}

// ------------------------------------------------------------------ general inverse, traced

fn inverse_trace<M: Inv4<Sym>>(sub: &mut Sub, cfg: &Config) {
    let ty = format!("{}<Sym>", M::NAME);
    let reference = |f: &dyn Fn(u32) -> Fp| -> Vec<Fp> {
        let g: Grid<Fp> = (0..4).map(|i| (0..4).map(|j| f((i * 4 + j) as u32)).collect()).collect();
        match gauss_jordan(&g) {
            Some(x) => {
                // self-check of the oracle: it must be a two-sided inverse at this point
                let id = g_ident::<Fp>(4);
                assert!(g_diff(&g_mul(&g, &x), &id).is_none() && g_diff(&g_mul(&x, &g), &id).is_none(), "harness Gauss-Jordan is not an inverse");
                x.into_iter().flatten().collect()
            }
            None => vec![Fp::ZERO; 16],
        }
    };
    for (api, in_place) in [("Mat4::inverted", false), ("Mat4::invert", true)] {
        sym_reset();
        let m = M::from_fn(|i, j| Sym::var((i * 4 + j) as u32));
        let r = guarded(|| {
            if in_place {
                let mut c = m;
                c.inv_ip();
                c
            } else {
                m.inv()
            }
        });
        match r {
            Ok(x) => {
                let outs: Vec<Sym> = grid_of(&x).into_iter().flatten().collect();
                decide_pit(PROP, sub, api, &ty, "two_sided_inverse_of_16_free_symbols", &outs, 16, cfg.seed, 0, &reference);
            }
            Err(e) => {
                sub.saw(api);
                let v = violation(PROP, sub, api, &ty, "panic", "two_sided_inverse_of_16_free_symbols", e, cfg.seed, 0);
                sub.violated(v);
            }
        }
    }
}

// ------------------------------------------------------------------ general inverse, values

const FAMILIES: [&str; 20] = [
    "dense",
    "block_a_zero",
    "block_d_zero",
    "block_b_zero",
    "block_c_zero",
    "block_a_rank1",
    "block_d_rank1",
    "all_blocks_rank1",
    "monomial",
    "upper_triangular",
    "lower_triangular",
    "diagonal",
    "sparse",
    "repeated_rows_in_block",
    "entries_in_-1_0_1",
    "a_and_d_zero",
    // the zero patterns of graphics matrices (added after seeded change C06_P): a closed-form inverse keyed on
    // "this looks like a perspective / orthographic / affine matrix" must honour every entry the pattern leaves free
    "perspective_shape",
    "orthographic_shape",
    "affine_shape",
    "oblique_perspective_shape",
];

fn gen_family<T: Elem>(rng: &mut Rng, fam: usize) -> Grid<T> {
    let z = T::m_int(0);
    let mut g: Grid<T> = (0..4).map(|_| (0..4).map(|_| T::entry(rng)).collect()).collect();
    let zero_block = |g: &mut Grid<T>, r0: usize, c0: usize| {
        for i in 0..2 {
            for j in 0..2 {
                g[r0 + i][c0 + j] = z;
            }
        }
    };
    let rank1_block = |g: &mut Grid<T>, rng: &mut Rng, r0: usize, c0: usize| {
        let (u0, u1, v0, v1) = (T::entry_nz(rng), T::entry(rng), T::entry_nz(rng), T::entry(rng));
        g[r0][c0] = u0.m_mul(v0);
        g[r0][c0 + 1] = u0.m_mul(v1);
        g[r0 + 1][c0] = u1.m_mul(v0);
        g[r0 + 1][c0 + 1] = u1.m_mul(v1);
    };
    match fam {
        0 => {}
        1 => zero_block(&mut g, 0, 0),
        2 => zero_block(&mut g, 2, 2),
        3 => zero_block(&mut g, 0, 2),
        4 => zero_block(&mut g, 2, 0),
        5 => rank1_block(&mut g, rng, 0, 0),
        6 => rank1_block(&mut g, rng, 2, 2),
        7 => {
            for (r0, c0) in [(0, 0), (0, 2), (2, 0), (2, 2)] {
                rank1_block(&mut g, rng, r0, c0);
            }
        }
        8 => {
            let mut p = [0usize, 1, 2, 3];
            rng.shuffle(&mut p);
            for i in 0..4 {
                for j in 0..4 {
                    g[i][j] = if p[i] == j { T::entry_nz(rng) } else { z };
                }
            }
        }
        9 | 10 => {
            for i in 0..4 {
                for j in 0..4 {
                    if (fam == 9 && j < i) || (fam == 10 && j > i) {
                        g[i][j] = z;
                    }
                }
                g[i][i] = T::entry_nz(rng);
            }
        }
        11 => {
            for i in 0..4 {
                for j in 0..4 {
                    g[i][j] = if i == j { T::entry_nz(rng) } else { z };
                }
            }
        }
        12 => {
            for i in 0..4 {
                for j in 0..4 {
                    if rng.bool() {
                        g[i][j] = z;
                    }
                }
            }
        }
        13 => {
            // two rows agree inside one 2x2 block (that block is singular, the whole usually is not)
            let (r0, c0) = *rng.pick(&[(0usize, 0usize), (0, 2), (2, 0), (2, 2)]);
            g[r0 + 1][c0] = g[r0][c0];
            g[r0 + 1][c0 + 1] = g[r0][c0 + 1];
        }
        14 => {
            for i in 0..4 {
                for j in 0..4 {
                    g[i][j] = T::m_int(rng.range_i64(-1, 1));
                }
            }
        }
        15 => {
            zero_block(&mut g, 0, 0);
            zero_block(&mut g, 2, 2);
        }
        16 | 19 => {
            // [a 0 b 0; 0 c d 0; 0 0 e f; 0 0 g 0]: off-centre terms b, d present or not, g = +-1 or free;
            // 19: the depth row is arbitrary (oblique near plane)
            let (b, d) = if rng.bool() { (T::entry(rng), T::entry(rng)) } else { (z, z) };
            let gg = match rng.below(3) {
                0 => T::m_int(1),
                1 => T::m_int(-1),
                _ => T::entry_nz(rng),
            };
            let row2 = if fam == 19 { [T::entry(rng), T::entry(rng), T::entry_nz(rng), T::entry_nz(rng)] } else { [z, z, T::entry(rng), T::entry_nz(rng)] };
            g = vec![vec![T::entry_nz(rng), z, b, z], vec![z, T::entry_nz(rng), d, z], row2.to_vec(), vec![z, z, gg, z]];
        }
        17 => {
            g = vec![vec![T::entry_nz(rng), z, z, T::entry(rng)], vec![z, T::entry_nz(rng), z, T::entry(rng)], vec![z, z, T::entry_nz(rng), T::entry(rng)], vec![z, z, z, T::m_int(1)]];
        }
        _ => {
            for j in 0..3 {
                g[3][j] = z;
            }
            g[3][3] = T::m_int(1);
        }
    }
    g
}

/// Decide one execution of the general inverse (returning and in-place form) on the raw grid `g`.
fn check_general<T: Elem, M: Inv4<T>>(sub: &mut Sub, cfg: &Config, idx: u64, what: &str, g: &Grid<T>, hash: u64) {
    let ty = format!("{}<{}>", M::NAME, T::TY);
    let d = leibniz(g);
    if let Some(p) = take_poison() {
        sub.inconclusive(&format!("poison:{}", p));
        return;
    }
    if is0(d) {
        sub.inconclusive("outside_domain:singular");
        return;
    }
    let m: M = mat_of(g);
    sub.saw("Mat4::inverted");
    sub.saw("Mat4::invert");
    let r = guarded(|| {
        let x = m.inv();
        let mut c = m;
        c.inv_ip();
        (x, c, [m.vmul(x), x.vmul(m), m.vmul_assign(x), x.vmul_assign(m)])
    });
    let (x, xip, vprods) = match r {
        Ok(v) => v,
        Err(e) => {
            let _ = take_poison();
            let v = violation(PROP, sub, "Mat4::inverted", &ty, "panic", what, format!("m={:?}: {}", g, e), cfg.case_seed(), idx);
            sub.violated(v);
            return;
        }
    };
    if let Some(p) = take_poison() {
        sub.inconclusive(&format!("poison:{}", p));
        return;
    }
    let xg = grid_of(&x);
    let truth = gauss_jordan(g);
    let id = g_ident::<T>(4);
    let left = g_mul(g, &xg);
    let right = g_mul(&xg, g);
    if let Some(p) = take_poison() {
        sub.inconclusive(&format!("poison_in_oracle:{}", p));
        return;
    }
    let truth = truth.expect("non-zero determinant but Gauss-Jordan found no pivot");
    let bad = g_diff(&left, &id).map(|p| ("M*inv(M) != I", p)).or(g_diff(&right, &id).map(|p| ("inv(M)*M != I", p))).or(g_diff(&xg, &truth).map(|p| ("inv(M) != Gauss-Jordan inverse", p)));
    if let Some((msg, (i, j))) = bad {
        let v = violation(
            PROP,
            sub,
            "Mat4::inverted",
            &ty,
            "wrong_value",
            what,
            format!("m={:?} (det {:?}): {} at ({},{}); vek inverse = {:?}; true inverse = {:?}", g, d, msg, i, j, xg, truth),
            cfg.case_seed(),
            idx,
        );
        sub.violated(v);
        return;
    }
    // the same two-sided statement through vek's own product, in both operator forms
    for (k, form) in ["M * inv(M)", "inv(M) * M", "{ p = M; p *= inv(M) }", "{ p = inv(M); p *= M }"].iter().enumerate() {
        if let Some((i, j)) = g_diff(&grid_of(&vprods[k]), &id) {
            let v = violation(PROP, sub, "Mat4::inverted", &ty, "wrong_value", what, format!("m={:?} (det {:?}): vek's own product {} is not the identity at ({},{}): {:?}", g, d, form, i, j, grid_of(&vprods[k])), cfg.case_seed(), idx);
            sub.violated(v);
            return;
        }
    }
    if let Some((i, j)) = g_diff(&grid_of(&xip), &xg) {
        let v = violation(PROP, sub, "Mat4::invert", &ty, "wrong_value", "differs_from_inverted", format!("m={:?}: invert() gives {:?} at ({},{}) but inverted() gives {:?}", g, xip.get(i, j), i, j, x.get(i, j)), cfg.case_seed(), idx);
        sub.violated(v);
        return;
    }
    sub.sample(|| format!("Mat4::inverted [{}] {}: m={:?} -> {:?}", ty, what, g, xg));
    sub.held(hash, !is_diagonal(g));
}

fn inverse_values<T: Elem>(sub: &mut Sub, cfg: &Config, idx: u64) {
    T::reset();
    let fam = (idx % FAMILIES.len() as u64) as usize;
    let name = format!("inverse_values/{}", T::TY);
    let mut rng = Rng::for_case(&name, cfg.case_seed(), idx);
    let g: Grid<T> = gen_family(&mut rng, fam);
    let mut h = H64::new();
    h.s(&name);
    hash_grid(&mut h, &g);
    check_general::<T, Rows4<T>>(sub, cfg, idx, FAMILIES[fam], &g, h.get() ^ 1);
    check_general::<T, Cols4<T>>(sub, cfg, idx, FAMILIES[fam], &g, h.get() ^ 2);
}

// ------------------------------------------------------------------ fast inverses (exact)

/// compare a vek result with the closed-form inverse; records the verdict for one (api, form)
#[allow(clippy::too_many_arguments)]
fn judge_exact<T: Elem, M: Inv4<T>>(sub: &mut Sub, cfg: &Config, idx: u64, api: &str, what: &str, g: &Grid<T>, truth: &Grid<T>, f: &dyn Fn(M) -> M, hash: u64, poison_tag: &str) -> bool {
    let ty = format!("{}<{}>", M::NAME, T::TY);
    let m: M = mat_of(g);
    sub.saw(api);
    let r = guarded(|| f(m));
    let x = match r {
        Ok(v) => v,
        Err(e) => {
            let _ = take_poison();
            let v = violation(PROP, sub, api, &ty, "panic", what, format!("m={:?}: {}", g, e), cfg.case_seed(), idx);
            sub.violated(v);
            return false;
        }
    };
    if let Some(p) = take_poison() {
        sub.inconclusive(&format!("poison{}:{}", poison_tag, p));
        return false;
    }
    let xg = grid_of(&x);
    if let Some((i, j)) = g_diff(&xg, truth) {
        let v = violation(PROP, sub, api, &ty, "wrong_value", what, format!("m={:?}: element ({},{}) of the result is {:?}, the inverse has {:?}; vek = {:?}; true inverse = {:?}", g, i, j, xg[i][j], truth[i][j], xg, truth), cfg.case_seed(), idx);
        sub.violated(v);
        return false;
    }
    sub.sample(|| format!("{} [{}] {}: m={:?} -> {:?}", api, ty, what, g, xg));
    sub.held(hash, true);
    true
}

fn rigid_case<T: Elem>(sub: &mut Sub, cfg: &Config, idx: u64) {
    T::reset();
    let name = format!("rigid_inverse/{}", T::TY);
    let mut rng = Rng::for_case(&name, cfg.case_seed(), idx);
    let r = if idx % 9 == 0 { quat_rot([T::m_int(0), T::m_int(0), T::m_int(0), T::m_int(1)]) } else if idx % 9 <= 2 { axis_aligned_rot::<T>(&mut rng) } else { quat_rot(unit_quat::<T>(&mut rng)) };
    let t = if idx % 7 == 0 { [T::m_int(0); 3] } else { [T::entry(&mut rng), T::entry(&mut rng), T::entry(&mut rng)] };
    let one = T::m_int(1);
    let (g, truth) = trs(&r, &t, &[one, one, one]);
    if let Some(p) = take_poison() {
        sub.inconclusive(&format!("poison_in_generator:{}", p));
        return;
    }
    // self-check of the closed form
    debug_assert!(g_diff(&g_mul(&g, &truth), &g_ident::<T>(4)).is_none());
    let _ = take_poison();
    let mut h = H64::new();
    h.s(&name);
    hash_grid(&mut h, &g);
    let what = "rotation_translation";
    macro_rules! both {
        ($M:ident, $salt:expr) => {{
            judge_exact::<T, $M<T>>(sub, cfg, idx, "Mat4::inverted_affine_transform_no_scale", what, &g, &truth, &|m| m.inv_rigid(), h.get() ^ $salt, "");
            judge_exact::<T, $M<T>>(
                sub,
                cfg,
                idx,
                "Mat4::invert_affine_transform_no_scale",
                what,
                &g,
                &truth,
                &|mut m| {
                    m.inv_rigid_ip();
                    m
                },
                h.get() ^ ($salt + 1),
                "",
            );
            judge_exact::<T, $M<T>>(sub, cfg, idx, "Mat4::inverted", what, &g, &truth, &|m| m.inv(), h.get() ^ ($salt + 2), "_general");
        }};
    }
    both!(Rows4, 16);
    both!(Cols4, 32);
}

fn scale_any(rng: &mut Rng, classes: u64) -> Q {
    let c = rng.below(classes);
    scale_component(rng, c)
}
fn scale_component(rng: &mut Rng, class: u64) -> Q {
    let sign = if rng.chance(1, 3) { -1 } else { 1 };
    let mag = match class {
        0 => Q::frac(rng.range_i64(1, 9), rng.range_i64(1, 4)),
        1 => Q::new(1, 1i128 << rng.range_i64(1, 20)), // tiny but s^2 >= 2^-40 > epsilon = 2^-52
        2 => Q::int(rng.range_i64(10, 1000)),
        3 => Q::frac(1, rng.range_i64(10, 1000)),
        _ => Q::ONE,
    };
    mag.m_mul(Q::int(sign))
}

fn affine_case(sub: &mut Sub, cfg: &Config, idx: u64) {
    Q::reset();
    let name = "affine_inverse/Q";
    let mut rng = Rng::for_case(name, cfg.case_seed(), idx);
    let r = if idx % 11 == 0 { quat_rot([Q::ZERO, Q::ZERO, Q::ZERO, Q::ONE]) } else if idx % 11 <= 2 { axis_aligned_rot::<Q>(&mut rng) } else { quat_rot(unit_quat::<Q>(&mut rng)) };
    let t = if idx % 7 == 0 { [Q::ZERO; 3] } else { [Q::entry(&mut rng), Q::entry(&mut rng), Q::entry(&mut rng)] };
    let s: [Q; 3] = match idx % 5 {
        0 => {
            let u = scale_any(&mut rng, 4);
            [u, u, u]
        }
        1 => [scale_component(&mut rng, 0), scale_component(&mut rng, 0), scale_component(&mut rng, 0)],
        2 => [scale_component(&mut rng, 1), scale_component(&mut rng, 2), scale_component(&mut rng, 0)],
        3 => [scale_any(&mut rng, 5), scale_any(&mut rng, 5), scale_any(&mut rng, 5)],
        _ => [Q::ONE, Q::ONE, Q::ONE],
    };
    // domain of the property: scales not negligibly small (vek's own threshold: s^2 > epsilon)
    let eps = Q::m_epsilon();
    if s.iter().any(|x| x.sq() <= eps) {
        sub.inconclusive("outside_domain:negligible_scale");
        return;
    }
    let absq: Vec<Q> = s.iter().map(|x| x.abs_q()).collect();
    let (mx, mn) = (absq.iter().fold(absq[0], |a, b| a.max_q(*b)), absq.iter().fold(absq[0], |a, b| a.min_q(*b)));
    let what = if s.iter().all(|x| x.m_eq(Q::ONE)) {
        "rigid"
    } else if mx.m_div(mn) >= Q::int(1000) {
        "extreme_scale_ratio"
    } else if s.iter().any(|x| x.is_neg()) {
        "negative_scale"
    } else if s[0].m_eq(s[1]) && s[1].m_eq(s[2]) {
        "uniform_scale"
    } else {
        "non_uniform_scale"
    };
    let (g, truth) = trs(&r, &t, &s);
    if let Some(p) = take_poison() {
        sub.inconclusive(&format!("poison_in_generator:{}", p));
        return;
    }
    debug_assert!(g_diff(&g_mul(&g, &truth), &g_ident::<Q>(4)).is_none());
    if take_poison().is_some() {
        sub.inconclusive("poison_in_generator:selfcheck");
        return;
    }
    let mut h = H64::new();
    h.s(name);
    hash_grid(&mut h, &g);
    macro_rules! both {
        ($M:ident, $salt:expr) => {{
            judge_exact::<Q, $M<Q>>(sub, cfg, idx, "Mat4::inverted_affine_transform", what, &g, &truth, &|m| m.inv_affine(), h.get() ^ $salt, "");
            judge_exact::<Q, $M<Q>>(
                sub,
                cfg,
                idx,
                "Mat4::invert_affine_transform",
                what,
                &g,
                &truth,
                &|mut m| {
                    m.inv_affine_ip();
                    m
                },
                h.get() ^ ($salt + 1),
                "",
            );
            judge_exact::<Q, $M<Q>>(sub, cfg, idx, "Mat4::inverted", what, &g, &truth, &|m| m.inv(), h.get() ^ ($salt + 2), "_general");
        }};
    }
    both!(Rows4, 16);
    both!(Cols4, 32);
}

// ------------------------------------------------------------------ float tier

trait Fl: Real + MulAdd<Self, Self, Output = Self> + std::fmt::Debug {
    const NAME: &'static str;
    const EPS: f64;
    fn of(x: f64) -> Self;
    fn f(self) -> f64;
}
impl Fl for f32 {
    const NAME: &'static str = "f32";
    const EPS: f64 = f32::EPSILON as f64;
    fn of(x: f64) -> f32 {
        x as f32
    }
    fn f(self) -> f64 {
        self as f64
    }
}
impl Fl for f64 {
    const NAME: &'static str = "f64";
    const EPS: f64 = f64::EPSILON;
    fn of(x: f64) -> f64 {
        x
    }
    fn f(self) -> f64 {
        self
    }
}

fn to_f(g: &Grid<Q>) -> Vec<Vec<f64>> {
    g.iter().map(|r| r.iter().map(|x| x.to_f64()).collect()).collect()
}
fn norm_inf(g: &[Vec<f64>]) -> f64 {
    g.iter().map(|r| r.iter().map(|x| x.abs()).sum::<f64>()).fold(0.0, f64::max)
}
fn max_abs(g: &[Vec<f64>]) -> f64 {
    g.iter().flatten().fold(0.0, |a, x| a.max(x.abs()))
}

/// Per-entry tolerance for an inverse computed as (signed cofactor)/(determinant) in floating
/// point with unit roundoff `eps`, for the ideal matrix `m` with exact inverse `x`:
/// every cofactor is a sum of at most 8 products of three entries (error <= 64*eps*8*a^3,
/// a = max|m_ij|), the determinant a sum of 24 products of four (error <= 64*eps*24*a^4);
/// plus 64*eps*|x_ij| for the final division/multiplication and the first-order effect
/// 64*eps*a*|X|row_i*|X|col_j of rounding the inputs.  This is k*eps*||M||*||M^-1|| with k >= 64
/// made entrywise.  Err = ill-conditioned (the tolerance could not discriminate).
fn cofactor_tolerance(m: &Grid<Q>, x: &Grid<Q>, det: Q, eps: f64) -> Result<Vec<Vec<f64>>, &'static str> {
    let mf = to_f(m);
    let xf = to_f(x);
    let a = max_abs(&mf);
    let d = det.to_f64().abs();
    let dc = 512.0 * eps * a * a * a;
    let dd = 1536.0 * eps * a * a * a * a;
    if !(dd < d / 4.0) {
        return Err("ill_conditioned");
    }
    if norm_inf(&mf) * norm_inf(&xf) > 1.0e6 {
        return Err("ill_conditioned");
    }
    let rows: Vec<f64> = xf.iter().map(|r| r.iter().map(|v| v.abs()).sum()).collect();
    let cols: Vec<f64> = (0..4).map(|j| (0..4).map(|i| xf[i][j].abs()).sum()).collect();
    let mut tol = vec![vec![0.0; 4]; 4];
    let mut worst: f64 = 0.0;
    for i in 0..4 {
        for j in 0..4 {
            tol[i][j] = (dc + xf[i][j].abs() * dd) / (d - dd) + 64.0 * eps * xf[i][j].abs() + 64.0 * eps * a * rows[i] * cols[j];
            worst = worst.max(tol[i][j]);
        }
    }
    if worst > 1.0e-3 * max_abs(&xf) {
        return Err("ill_conditioned");
    }
    Ok(tol)
}

#[allow(clippy::too_many_arguments)]
fn judge_float<F: Fl, M: Inv4<F>>(sub: &mut Sub, cfg: &Config, idx: u64, api: &str, what: &str, mf: &[Vec<f64>], truth: &Grid<Q>, tol: &[Vec<f64>], f: &dyn Fn(M) -> M, hash: u64) {
    let ty = format!("{}<{}>", M::NAME, F::NAME);
    let m = M::from_fn(|i, j| F::of(mf[i][j]));
    sub.saw(api);
    let x = match guarded(|| f(m)) {
        Ok(v) => v,
        Err(e) => {
            let v = violation(PROP, sub, api, &ty, "panic", what, format!("m={:?}: {}", mf, e), cfg.case_seed(), idx);
            sub.violated(v);
            return;
        }
    };
    let tf = to_f(truth);
    for i in 0..4 {
        for j in 0..4 {
            let got = x.get(i, j).f();
            let err = (got - tf[i][j]).abs();
            if !(err <= tol[i][j]) {
                let v = violation(
                    PROP,
                    sub,
                    api,
                    &ty,
                    "wrong_value",
                    what,
                    format!("m={:?}: element ({},{}) of the result is {:e}, the inverse has {:e} (= {:?}); |error| {:e} > tolerance {:e}", mf, i, j, got, tf[i][j], truth[i][j], err, tol[i][j]),
                    cfg.case_seed(),
                    idx,
                );
                sub.violated(v);
                return;
            }
        }
    }
    sub.sample(|| format!("{} [{}] {}: m={:?} -> (0,0) = {:?}, exact {:?}, tolerance {:e}", api, ty, what, mf, x.get(0, 0), truth[0][0], tol[0][0]));
    sub.held(hash, true);
}

fn float_general<F: Fl>(sub: &mut Sub, cfg: &Config, idx: u64) {
    let _ = take_poison();
    let name = format!("float_inverse/general/{}", F::NAME);
    let mut rng = Rng::for_case(&name, cfg.case_seed(), idx);
    let fam = (idx % 4) as usize; // dense, a zero, sparse-ish, upper triangular
    let kmax = if F::NAME == "f32" { 32 } else { 48 };
    let mut g: Grid<Q> = (0..4).map(|_| (0..4).map(|_| Q::frac(rng.range_i64(-kmax, kmax), 16)).collect()).collect();
    match fam {
        1 => {
            for i in 0..2 {
                for j in 0..2 {
                    g[i][j] = Q::ZERO;
                }
            }
        }
        2 => {
            for row in g.iter_mut() {
                for v in row.iter_mut() {
                    if rng.chance(1, 3) {
                        *v = Q::ZERO;
                    }
                }
            }
        }
        3 => {
            for i in 0..4 {
                for j in 0..i {
                    g[i][j] = Q::ZERO;
                }
            }
        }
        _ => {}
    }
    let det = leibniz(&g);
    if det.is_zero() {
        sub.inconclusive("outside_domain:singular");
        return;
    }
    let truth = gauss_jordan(&g);
    if let Some(p) = take_poison() {
        sub.inconclusive(&format!("poison_in_oracle:{}", p));
        return;
    }
    let truth = truth.unwrap();
    let tol = match cofactor_tolerance(&g, &truth, det, F::EPS) {
        Ok(t) => t,
        Err(r) => {
            sub.inconclusive(r);
            return;
        }
    };
    let mf = to_f(&g); // k/16: exact in f32 and f64
    let mut h = H64::new();
    h.s(&name);
    for r in &g {
        for x in r {
            h.u(x.hash64());
        }
    }
    let what = ["dense", "block_a_zero", "sparse", "upper_triangular"][fam];
    judge_float::<F, Rows4<F>>(sub, cfg, idx, "Mat4::inverted", what, &mf, &truth, &tol, &|m| m.inv(), h.get() ^ 1);
    judge_float::<F, Cols4<F>>(sub, cfg, idx, "Mat4::inverted", what, &mf, &truth, &tol, &|m| m.inv(), h.get() ^ 2);
    judge_float::<F, Rows4<F>>(
        sub,
        cfg,
        idx,
        "Mat4::invert",
        what,
        &mf,
        &truth,
        &tol,
        &|mut m| {
            m.inv_ip();
            m
        },
        h.get() ^ 3,
    );
}

fn float_trs<F: Fl>(sub: &mut Sub, cfg: &Config, idx: u64) {
    Q::reset();
    let name = format!("float_inverse/trs/{}", F::NAME);
    let mut rng = Rng::for_case(&name, cfg.case_seed(), idx);
    let r = if idx % 8 == 5 { axis_aligned_rot::<Q>(&mut rng) } else { quat_rot(unit_quat::<Q>(&mut rng)) };
    let t = [Q::frac(rng.range_i64(-40, 40), 8), Q::frac(rng.range_i64(-40, 40), 8), Q::frac(rng.range_i64(-40, 40), 8)];
    let rigid = idx % 2 == 0;
    let dy = |rng: &mut Rng| -> Q {
        // exactly representable scales in [1/4, 4], either sign
        let v = *rng.pick(&[Q::frac(1, 4), Q::frac(1, 2), Q::frac(3, 4), Q::ONE, Q::frac(3, 2), Q::int(2), Q::int(3), Q::int(4)]);
        if rng.chance(1, 3) {
            v.m_neg()
        } else {
            v
        }
    };
    let s = if rigid { [Q::ONE; 3] } else { [dy(&mut rng), dy(&mut rng), dy(&mut rng)] };
    let (g, truth) = trs(&r, &t, &s);
    if let Some(p) = take_poison() {
        sub.inconclusive(&format!("poison_in_generator:{}", p));
        return;
    }
    // the float input: rotation entries rounded to F, then scaled in F (what a user would hold)
    let mut mf = vec![vec![0.0f64; 4]; 4];
    for i in 0..3 {
        for j in 0..3 {
            mf[i][j] = if F::NAME == "f32" { ((r[i][j].to_f64() as f32) * (s[j].to_f64() as f32)) as f64 } else { r[i][j].to_f64() * s[j].to_f64() };
        }
        mf[i][3] = t[i].to_f64();
    }
    mf[3][3] = 1.0;
    let tsum: f64 = t.iter().map(|x| x.to_f64().abs()).sum();
    // fast paths: result row j is (column j of the input)/s_j^2 and its dot product with t:
    // at most ~14 roundings of relative size eps on quantities bounded by (1 + sum|t|)/|s_j|
    let fast_tol: Vec<Vec<f64>> = (0..4).map(|i| (0..4).map(|_| if i < 3 { 64.0 * F::EPS * (1.0 + tsum) / s[i].to_f64().abs() } else { 64.0 * F::EPS }).collect()).collect();
    let mut h = H64::new();
    h.s(&name);
    for row in &g {
        for x in row {
            h.u(x.hash64());
        }
    }
    let what = if rigid { "rotation_translation" } else { "translation_rotation_scale" };
    if rigid {
        judge_float::<F, Rows4<F>>(sub, cfg, idx, "Mat4::inverted_affine_transform_no_scale", what, &mf, &truth, &fast_tol, &|m| m.inv_rigid(), h.get() ^ 1);
        judge_float::<F, Cols4<F>>(sub, cfg, idx, "Mat4::inverted_affine_transform_no_scale", what, &mf, &truth, &fast_tol, &|m| m.inv_rigid(), h.get() ^ 2);
        judge_float::<F, Cols4<F>>(
            sub,
            cfg,
            idx,
            "Mat4::invert_affine_transform_no_scale",
            what,
            &mf,
            &truth,
            &fast_tol,
            &|mut m| {
                m.inv_rigid_ip();
                m
            },
            h.get() ^ 3,
        );
    }
    judge_float::<F, Rows4<F>>(sub, cfg, idx, "Mat4::inverted_affine_transform", what, &mf, &truth, &fast_tol, &|m| m.inv_affine(), h.get() ^ 4);
    judge_float::<F, Cols4<F>>(sub, cfg, idx, "Mat4::inverted_affine_transform", what, &mf, &truth, &fast_tol, &|m| m.inv_affine(), h.get() ^ 5);
    judge_float::<F, Rows4<F>>(
        sub,
        cfg,
        idx,
        "Mat4::invert_affine_transform",
        what,
        &mf,
        &truth,
        &fast_tol,
        &|mut m| {
            m.inv_affine_ip();
            m
        },
        h.get() ^ 6,
    );
    // general inverse on the same matrix
    let det = s[0].m_mul(s[1]).m_mul(s[2]);
    match cofactor_tolerance(&g, &truth, det, F::EPS) {
        Ok(tol) => {
            judge_float::<F, Rows4<F>>(sub, cfg, idx, "Mat4::inverted", what, &mf, &truth, &tol, &|m| m.inv(), h.get() ^ 7);
            judge_float::<F, Cols4<F>>(sub, cfg, idx, "Mat4::inverted", what, &mf, &truth, &tol, &|m| m.inv(), h.get() ^ 8);
        }
        Err(reason) => sub.inconclusive(reason),
    }
    let _ = take_poison();
}

// ------------------------------------------------------------------ main

fn main() {
    let cfg = Config::from_args(PROP);
    let mut rep = Report::new(cfg.clone());

    {
        let mut s = Sub::new(
            "det_trace",
            "one Sym-traced execution of Mat{2,3,4}::determinant per layout on N*N free symbols, four variants (plain; harness-built transpose; vek transposed(); layout change Rows<->Cols via From); the logged expression is compared with the Leibniz sum over all N! permutations (sign by cycle count) by polynomial identity testing at 6 random points of GF(2^61-1); distinct = (type, variant) pairs",
        )
        .with_floor(24)
        .require(&["Mat2::determinant", "Mat3::determinant", "Mat4::determinant"]);
        if cfg.wants("det_trace") {
            det_trace::<Rows2<Sym>>(&mut s, &cfg);
            det_trace::<Cols2<Sym>>(&mut s, &cfg);
            det_trace::<Rows3<Sym>>(&mut s, &cfg);
            det_trace::<Cols3<Sym>>(&mut s, &cfg);
            det_trace::<Rows4<Sym>>(&mut s, &cfg);
            det_trace::<Cols4<Sym>>(&mut s, &cfg);
        }
        rep.push(s);
    }
    let nd = cfg.n(4_000, 400_000);
    {
        let proto = Sub::new(
            "det_values",
            "random matrices A, B (Q: boundary-biased small rationals; Fp: uniform field elements; i64 in -64..64; f64 = k/8 so that every intermediate is exact) through determinant() in both layouts and three sizes: det A = Leibniz sum, det(A^T) = det A (harness-built transpose), det(Rows::from(Cols)) = det A, det(AB) = det A * det B for AB built by the harness's naive product and by vek's product; non-trivial = det != 0 and A not diagonal; distinct by hash of all entries",
        )
        .with_floor(nd * 4)
        .require(&["Mat2::determinant", "Mat3::determinant", "Mat4::determinant"]);
        let s = run_cases(&cfg, proto, nd, |s, i| {
            macro_rules! go { ($T:ident: $($M:ident),+) => {$( det_values::<$T, $M<$T>>(s, &cfg, i); )+} }
            go!(Q: Rows2, Cols2, Rows3, Cols3, Rows4, Cols4);
            go!(Fp: Rows2, Cols2, Rows3, Cols3, Rows4, Cols4);
            det_native::<Rows2<i64>, Rows2<f64>>(s, &cfg, i);
            det_native::<Cols2<i64>, Cols2<f64>>(s, &cfg, i);
            det_native::<Rows3<i64>, Rows3<f64>>(s, &cfg, i);
            det_native::<Cols3<i64>, Cols3<f64>>(s, &cfg, i);
            det_native::<Rows4<i64>, Rows4<f64>>(s, &cfg, i);
            det_native::<Cols4<i64>, Cols4<f64>>(s, &cfg, i);
        });
        rep.push(s);
    }
    {
        let mut s = Sub::new(
            "inverse_trace",
            "one Sym-traced execution of Mat4::inverted and Mat4::invert per layout on 16 free symbols; the 16 logged rational functions (division by det M logged) are evaluated at 6 random points of GF(2^61-1) and compared with the inverse computed there by the harness's Gauss-Jordan elimination, which is itself asserted to satisfy M*X = X*M = I; distinct = (layout, form) pairs",
        )
        .with_floor(4)
        .require(&["Mat4::inverted", "Mat4::invert"]);
        if cfg.wants("inverse_trace") {
            inverse_trace::<Rows4<Sym>>(&mut s, &cfg);
            inverse_trace::<Cols4<Sym>>(&mut s, &cfg);
        }
        rep.push(s);
    }
    let ni = cfg.n(16_000, 2_000_000);
    {
        let proto = Sub::new(
            "inverse_values",
            "vek's general inverse (inverted and invert, Rows4 and Cols4) on Q matrices (boundary-biased small rationals) and Fp matrices (uniform), family = index mod 20: dense, 2x2 block A/D/B/C zero, A or D rank 1, all four blocks rank 1, monomial (permutation*diagonal), upper/lower triangular, diagonal, sparse, two equal rows inside a block, entries in {-1,0,1}, A and D zero, the zero patterns of perspective (centred / off-centre / oblique depth row), orthographic and affine matrices; det = 0 (harness Leibniz) -> outside_domain; verdict: M*X = I, X*M = I by the harness's naive product, X = Gauss-Jordan inverse, invert() = inverted(); non-trivial = not diagonal; distinct by hash of entries and layout",
        )
        .with_floor(ni)
        .require(&["Mat4::inverted", "Mat4::invert"]);
        let s = run_cases(&cfg, proto, ni, |s, i| {
            inverse_values::<Q>(s, &cfg, i);
            inverse_values::<Fp>(s, &cfg, i);
        });
        rep.push(s);
    }
    let nr = cfg.n(6_000, 600_000);
    {
        let proto = Sub::new(
            "rigid_inverse",
            "M = T(t)*R built by the harness from raw arrays, R the textbook matrix of a unit quaternion from the square-root-free rational parametrisation (Q: small integer parameters; Fp: uniform parameters), t random (every 7th zero, every 9th R = I): inverted_affine_transform_no_scale, its in-place form and the general inverse must each equal the closed form [R^T | -R^T t] exactly, both layouts; distinct by hash of M, layout and entry point",
        )
        .with_floor(nr * 4)
        .require(&["Mat4::inverted_affine_transform_no_scale", "Mat4::invert_affine_transform_no_scale", "Mat4::inverted"]);
        let s = run_cases(&cfg, proto, nr, |s, i| {
            rigid_case::<Q>(s, &cfg, i);
            rigid_case::<Fp>(s, &cfg, i);
        });
        rep.push(s);
    }
    {
        let proto = Sub::new(
            "affine_inverse",
            "M = T(t)*R*diag(s) built by the harness from raw arrays on Q (exact order, so the |x| > epsilon branch is taken as in real arithmetic): scales uniform / small rationals / tiny (2^-k, k <= 20) with huge (<= 1000) / mixed classes / all 1, each negative with probability 1/3; s^2 <= epsilon -> outside_domain; inverted_affine_transform, its in-place form and the general inverse must each equal S^-1 R^T T^-1 exactly, both layouts (general inverse overflowing the i128 rationals -> inconclusive poison_general); distinct by hash of M, layout and entry point",
        )
        .with_floor(nr * 2)
        .require(&["Mat4::inverted_affine_transform", "Mat4::invert_affine_transform", "Mat4::inverted"]);
        let s = run_cases(&cfg, proto, nr, |s, i| affine_case(s, &cfg, i));
        rep.push(s);
    }
    let nf = cfg.n(4_000, 400_000);
    {
        let proto = Sub::new(
            "float_inverse",
            "f32 and f64: (a) general inverse on matrices with entries k/16 (exact inputs; dense / A block zero / sparse / triangular) against the exact rational Gauss-Jordan inverse with the entrywise tolerance (512 eps a^3 + |x_ij| 1536 eps a^4)/(|det| - 1536 eps a^4) + 64 eps |x_ij| + 64 eps a |X|row |X|col (a = max|m_ij|; this is k*eps*||M||*||M^-1||, k >= 64, made entrywise for a cofactor/determinant algorithm); (b) T*R and T*R*S with rational rotation rounded to the float type, dyadic translation and scales in +-[1/4,4]: fast inverses against the closed form with tolerance 64 eps (1 + sum|t|)/|s_row|, general inverse with (a)'s tolerance; ill_conditioned when the determinant error bound exceeds |det|/4, ||M||*||M^-1|| > 1e6, or the tolerance exceeds 1e-3 max|x_ij|",
        )
        .with_floor(nf * 4)
        .require(&["Mat4::inverted", "Mat4::invert", "Mat4::inverted_affine_transform", "Mat4::inverted_affine_transform_no_scale", "Mat4::invert_affine_transform", "Mat4::invert_affine_transform_no_scale"]);
        let s = run_cases(&cfg, proto, nf, |s, i| {
            float_general::<f32>(s, &cfg, i);
            float_general::<f64>(s, &cfg, i);
            float_trs::<f32>(s, &cfg, i);
            float_trs::<f64>(s, &cfg, i);
        });
        rep.push(s);
    }
    std::process::exit(rep.finish());
}

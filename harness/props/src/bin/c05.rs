//! C05 — quaternions form the Hamilton algebra and rotate vectors like their matrix.
//!
//!  * `algebra_sym`: vek's real quaternion operators run once on free `Sym` symbols; the logged
//!    output expressions are compared (polynomial identity test over GF(2^61-1), or structurally)
//!    with the Hamilton algebra written from i^2=j^2=k^2=ijk=-1: product, associativity (12
//!    symbols), identity, multiplicative norm, conjugation reversing products, inverse, scalar
//!    mul/div, add/sub/neg, dot, the q v q* sandwich on Vec3/Vec4 and its composition law.
//!  * `hamilton_table_q`: the 16 products of {1,i,j,k} and ijk on exact rationals (enumerated).
//!  * `conversions_tag`: constructors / destructuring conversions move opaque `Tag`s correctly.
//!  * `inverse_q`, `unit_rotation_q`, `norm_q`, `from_to_exact_q`: exact rationals `Q` with inputs
//!    constructed so that every radical vek takes is rational (unit quaternions from the
//!    rational parametrisation, direction pairs from a rational rotation and a rational
//!    half-angle, exactly antiparallel pairs driving both 180-degree sub-branches).
//!  * `from_to_float`, `angle_axis_float`: f32/f64 with derived tolerances and explicit
//!    ill-conditioning guards.

use monitors::fp::Fp;
use monitors::gen::{cross3, dot3, matvec3, quat_to_mat3, rational_length_vec2, rational_rotation, rational_unit_quat, small_q, small_q_nonzero, small_q_pos};
use monitors::prng::{Rng, H64};
use monitors::report::{guarded, run_cases, take_poison, Config, Report, Sub};
use monitors::scalar::Mon;
use monitors::sym::{sym_reset, Op, Sym};
use monitors::{Tag, Q};
use num_traits::real::Real;
use props::*;
use vek::quaternion::repr_c::Quaternion;
use vek::vec::repr_c::{Vec3, Vec4};

const PROP: &str = "C05";

// ------------------------------------------------------------------ reference algebra (generic)

fn ri<R: Mon>(i: i64) -> R {
    R::m_int(i)
}
/// Hamilton product of (x,y,z,w) quaternions, expanded from i^2=j^2=k^2=ijk=-1
fn ham<R: Mon>(p: [R; 4], q: [R; 4]) -> [R; 4] {
    let [px, py, pz, pw] = p;
    let [qx, qy, qz, qw] = q;
    [
        pw.m_mul(qx).m_add(px.m_mul(qw)).m_add(py.m_mul(qz)).m_sub(pz.m_mul(qy)),
        pw.m_mul(qy).m_sub(px.m_mul(qz)).m_add(py.m_mul(qw)).m_add(pz.m_mul(qx)),
        pw.m_mul(qz).m_add(px.m_mul(qy)).m_sub(py.m_mul(qx)).m_add(pz.m_mul(qw)),
        pw.m_mul(qw).m_sub(px.m_mul(qx)).m_sub(py.m_mul(qy)).m_sub(pz.m_mul(qz)),
    ]
}
fn conj<R: Mon>(q: [R; 4]) -> [R; 4] {
    [q[0].m_neg(), q[1].m_neg(), q[2].m_neg(), q[3]]
}
fn norm2<R: Mon>(q: [R; 4]) -> R {
    q[0].m_mul(q[0]).m_add(q[1].m_mul(q[1])).m_add(q[2].m_mul(q[2])).m_add(q[3].m_mul(q[3]))
}
fn gdot3<R: Mon>(a: [R; 3], b: [R; 3]) -> R {
    a[0].m_mul(b[0]).m_add(a[1].m_mul(b[1])).m_add(a[2].m_mul(b[2]))
}
fn gcross3<R: Mon>(a: [R; 3], b: [R; 3]) -> [R; 3] {
    [
        a[1].m_mul(b[2]).m_sub(a[2].m_mul(b[1])),
        a[2].m_mul(b[0]).m_sub(a[0].m_mul(b[2])),
        a[0].m_mul(b[1]).m_sub(a[1].m_mul(b[0])),
    ]
}
/// vector part of q (0,v) q* for an arbitrary quaternion q = (u, w):
/// (w^2 - u.u) v + 2 (u.v) u + 2 w (u x v)   — for a unit q this is the rotation of v by q
fn sandwich<R: Mon>(q: [R; 4], v: [R; 3]) -> [R; 3] {
    let u = [q[0], q[1], q[2]];
    let w = q[3];
    let two = ri::<R>(2);
    let a = w.m_mul(w).m_sub(gdot3(u, u));
    let b = two.m_mul(gdot3(u, v));
    let c = two.m_mul(w);
    let uxv = gcross3(u, v);
    let mut o = [ri::<R>(0); 3];
    for i in 0..3 {
        o[i] = a.m_mul(v[i]).m_add(b.m_mul(u[i])).m_add(c.m_mul(uxv[i]));
    }
    o
}

// ------------------------------------------------------------------ Sym traces

fn sq(base: u32) -> Quaternion<Sym> {
    Quaternion { x: Sym::var(base), y: Sym::var(base + 1), z: Sym::var(base + 2), w: Sym::var(base + 3) }
}
fn sv3(base: u32) -> Vec3<Sym> {
    Vec3 { x: Sym::var(base), y: Sym::var(base + 1), z: Sym::var(base + 2) }
}
fn fq(f: &dyn Fn(u32) -> Fp, base: u32) -> [Fp; 4] {
    [f(base), f(base + 1), f(base + 2), f(base + 3)]
}
fn fv3(f: &dyn Fn(u32) -> Fp, base: u32) -> [Fp; 3] {
    [f(base), f(base + 1), f(base + 2)]
}
fn qo(q: Quaternion<Sym>) -> Vec<Sym> {
    vec![q.x, q.y, q.z, q.w]
}
fn v3o(v: Vec3<Sym>) -> Vec<Sym> {
    vec![v.x, v.y, v.z]
}

/// one traced execution decided by polynomial identity testing
fn pit_case(sub: &mut Sub, cfg: &Config, api: &str, what: &str, nvars: usize, run: impl FnOnce() -> Vec<Sym>, reference: &dyn Fn(&dyn Fn(u32) -> Fp) -> Vec<Fp>) {
    sym_reset();
    let _ = take_poison();
    match guarded(run) {
        Ok(o) => {
            decide_pit(PROP, sub, api, "Sym", what, &o, nvars, cfg.case_seed(), 0, reference);
        }
        Err(e) => {
            sub.saw(api);
            let _ = take_poison();
            let v = violation(PROP, sub, api, "Sym", "panic", what, format!("{} [{}] panicked on free symbols: {}", api, what, e), cfg.case_seed(), 0);
            sub.violated(v);
        }
    }
}
/// one traced execution decided structurally
fn struct_case(sub: &mut Sub, cfg: &Config, api: &str, what: &str, run: impl FnOnce() -> (Vec<Sym>, Vec<Sym>)) {
    sym_reset();
    let _ = take_poison();
    match guarded(run) {
        Ok((o, e)) => {
            decide_structural(PROP, sub, api, "Sym", what, &o, &e, cfg.case_seed(), 0);
        }
        Err(e) => {
            sub.saw(api);
            let _ = take_poison();
            let v = violation(PROP, sub, api, "Sym", "panic", what, format!("{} [{}] panicked on free symbols: {}", api, what, e), cfg.case_seed(), 0);
            sub.violated(v);
        }
    }
}

fn algebra_sym(s: &mut Sub, cfg: &Config) {
    let mulq = "Mul for Quaternion";
    // the product itself
    pit_case(s, cfg, mulq, "hamilton_product", 8, || qo(sq(0) * sq(4)), &|f| ham(fq(f, 0), fq(f, 4)).to_vec());
    // associativity in 12 symbols: both association orders are the one Hamilton triple product
    pit_case(s, cfg, mulq, "associativity_left_grouping", 12, || qo((sq(0) * sq(4)) * sq(8)), &|f| ham(ham(fq(f, 0), fq(f, 4)), fq(f, 8)).to_vec());
    pit_case(s, cfg, mulq, "associativity_right_grouping", 12, || qo(sq(0) * (sq(4) * sq(8))), &|f| ham(ham(fq(f, 0), fq(f, 4)), fq(f, 8)).to_vec());
    // identity neutral on both sides (identity() and Default)
    pit_case(s, cfg, "Quaternion::identity", "identity_left_neutral", 4, || qo(Quaternion::<Sym>::identity() * sq(0)), &|f| fq(f, 0).to_vec());
    pit_case(s, cfg, "Quaternion::identity", "identity_right_neutral", 4, || qo(sq(0) * Quaternion::<Sym>::identity()), &|f| fq(f, 0).to_vec());
    pit_case(s, cfg, "Default for Quaternion", "default_left_neutral", 4, || qo(Quaternion::<Sym>::default() * sq(0)), &|f| fq(f, 0).to_vec());
    pit_case(s, cfg, "Default for Quaternion", "default_right_neutral", 4, || qo(sq(0) * Quaternion::<Sym>::default()), &|f| fq(f, 0).to_vec());
    struct_case(s, cfg, "Quaternion::identity", "identity_is_0001", || (qo(Quaternion::<Sym>::identity()), vec![Sym::konst(0), Sym::konst(0), Sym::konst(0), Sym::konst(1)]));
    struct_case(s, cfg, "Default for Quaternion", "default_is_0001", || (qo(Quaternion::<Sym>::default()), vec![Sym::konst(0), Sym::konst(0), Sym::konst(0), Sym::konst(1)]));
    struct_case(s, cfg, "Quaternion::zero", "zero_is_0000", || (qo(Quaternion::<Sym>::zero()), vec![Sym::konst(0); 4]));
    // |pq|^2 = |p|^2 |q|^2
    pit_case(s, cfg, "Quaternion::magnitude_squared", "norm_multiplicative", 8, || vec![(sq(0) * sq(4)).magnitude_squared()], &|f| vec![norm2(fq(f, 0)).mul(norm2(fq(f, 4)))]);
    pit_case(s, cfg, "Quaternion::magnitude_squared", "magnitude_squared_is_sum_of_squares", 4, || vec![sq(0).magnitude_squared()], &|f| vec![norm2(fq(f, 0))]);
    pit_case(s, cfg, "Quaternion::dot", "dot_is_sum_of_products", 8, || vec![sq(0).dot(sq(4))], &|f| {
        let (p, q) = (fq(f, 0), fq(f, 4));
        vec![p[0].mul(q[0]).add(p[1].mul(q[1])).add(p[2].mul(q[2])).add(p[3].mul(q[3]))]
    });
    // conj(pq) = conj(q) conj(p)
    pit_case(s, cfg, "Quaternion::conjugate", "conjugate_of_product", 8, || qo((sq(0) * sq(4)).conjugate()), &|f| conj(ham(fq(f, 0), fq(f, 4))).to_vec());
    pit_case(s, cfg, "Quaternion::conjugate", "reversed_product_of_conjugates", 8, || qo(sq(4).conjugate() * sq(0).conjugate()), &|f| conj(ham(fq(f, 0), fq(f, 4))).to_vec());
    struct_case(s, cfg, "Quaternion::conjugate", "conjugate_negates_vector_part_only", || {
        let q = sq(0);
        (qo(q.conjugate()), vec![Sym::un(Op::Neg, q.x), Sym::un(Op::Neg, q.y), Sym::un(Op::Neg, q.z), q.w])
    });
    // inverse: conj / |q|^2, two-sided
    pit_case(s, cfg, "Quaternion::inverse", "inverse_is_conjugate_over_norm_squared", 4, || qo(sq(0).inverse()), &|f| {
        let q = fq(f, 0);
        let ni = norm2(q).inv().unwrap_or(Fp::ZERO);
        conj(q).iter().map(|c| c.mul(ni)).collect()
    });
    let one_q = |_: &dyn Fn(u32) -> Fp| vec![Fp::ZERO, Fp::ZERO, Fp::ZERO, Fp::ONE];
    pit_case(s, cfg, "Quaternion::inverse", "right_inverse", 4, || qo(sq(0) * sq(0).inverse()), &one_q);
    pit_case(s, cfg, "Quaternion::inverse", "left_inverse", 4, || qo(sq(0).inverse() * sq(0)), &one_q);
    // scalar mul / div, add / sub / neg: per component (structural)
    struct_case(s, cfg, "Mul<T> for Quaternion", "scalar_mul_per_component", || {
        let (q, k) = (sq(0), Sym::var(4));
        (qo(q * k), vec![Sym::bin(Op::Mul, q.x, k), Sym::bin(Op::Mul, q.y, k), Sym::bin(Op::Mul, q.z, k), Sym::bin(Op::Mul, q.w, k)])
    });
    struct_case(s, cfg, "Div<T> for Quaternion", "scalar_div_per_component", || {
        let (q, k) = (sq(0), Sym::var(4));
        (qo(q / k), vec![Sym::bin(Op::Div, q.x, k), Sym::bin(Op::Div, q.y, k), Sym::bin(Op::Div, q.z, k), Sym::bin(Op::Div, q.w, k)])
    });
    struct_case(s, cfg, "Add for Quaternion", "add_per_component", || {
        let (p, q) = (sq(0), sq(4));
        (qo(p + q), vec![Sym::bin(Op::Add, p.x, q.x), Sym::bin(Op::Add, p.y, q.y), Sym::bin(Op::Add, p.z, q.z), Sym::bin(Op::Add, p.w, q.w)])
    });
    struct_case(s, cfg, "Sub for Quaternion", "sub_per_component", || {
        let (p, q) = (sq(0), sq(4));
        (qo(p - q), vec![Sym::bin(Op::Sub, p.x, q.x), Sym::bin(Op::Sub, p.y, q.y), Sym::bin(Op::Sub, p.z, q.z), Sym::bin(Op::Sub, p.w, q.w)])
    });
    struct_case(s, cfg, "Neg for Quaternion", "neg_per_component", || {
        let q = sq(0);
        (qo(-q), vec![Sym::un(Op::Neg, q.x), Sym::un(Op::Neg, q.y), Sym::un(Op::Neg, q.z), Sym::un(Op::Neg, q.w)])
    });
    // q * v is the vector part of q (0,v) q* (all q), Vec4 keeps w, application composes
    pit_case(s, cfg, "Mul<Vec3> for Quaternion", "vec3_sandwich", 7, || v3o(sq(0) * sv3(4)), &|f| sandwich(fq(f, 0), fv3(f, 4)).to_vec());
    pit_case(
        s,
        cfg,
        "Mul<Vec4> for Quaternion",
        "vec4_sandwich_w_untouched",
        8,
        || {
            let r = sq(0) * Vec4 { x: Sym::var(4), y: Sym::var(5), z: Sym::var(6), w: Sym::var(7) };
            vec![r.x, r.y, r.z, r.w]
        },
        &|f| {
            let mut o = sandwich(fq(f, 0), fv3(f, 4)).to_vec();
            o.push(f(7));
            o
        },
    );
    struct_case(s, cfg, "Mul<Vec4> for Quaternion", "vec4_w_is_the_input_w", || {
        let r = sq(0) * Vec4 { x: Sym::var(4), y: Sym::var(5), z: Sym::var(6), w: Sym::var(7) };
        (vec![r.w], vec![Sym::var(7)])
    });
    pit_case(s, cfg, "Mul<Vec3> for Quaternion", "composition_product_then_apply", 11, || v3o((sq(0) * sq(4)) * sv3(8)), &|f| sandwich(fq(f, 0), sandwich(fq(f, 4), fv3(f, 8))).to_vec());
    pit_case(s, cfg, "Mul<Vec3> for Quaternion", "composition_apply_twice", 11, || v3o(sq(0) * (sq(4) * sv3(8))), &|f| sandwich(fq(f, 0), sandwich(fq(f, 4), fv3(f, 8))).to_vec());
}

// ------------------------------------------------------------------ Hamilton table on Q (enumerated)

fn hamilton_table(s: &mut Sub, cfg: &Config) {
    let z = Q::ZERO;
    let o = Q::ONE;
    // basis in (x,y,z,w) order: 1, i, j, k
    let basis: [[Q; 4]; 4] = [[z, z, z, o], [o, z, z, z], [z, o, z, z], [z, z, o, z]];
    let names = ["1", "i", "j", "k"];
    // table[a][b] = (sign, basis index) from i^2=j^2=k^2=ijk=-1
    let table: [[(i64, usize); 4]; 4] = [
        [(1, 0), (1, 1), (1, 2), (1, 3)],
        [(1, 1), (-1, 0), (1, 3), (-1, 2)],
        [(1, 2), (-1, 3), (-1, 0), (1, 1)],
        [(1, 3), (1, 2), (-1, 1), (-1, 0)],
    ];
    let mk = |c: [Q; 4]| Quaternion { x: c[0], y: c[1], z: c[2], w: c[3] };
    for a in 0..4 {
        for b in 0..4 {
            let _ = take_poison();
            s.saw("Mul for Quaternion");
            let r = match guarded(|| mk(basis[a]) * mk(basis[b])) {
                Ok(r) => r,
                Err(e) => {
                    let v = violation(PROP, s, "Mul for Quaternion", "Q", "panic", "hamilton_table", format!("{}*{} panicked: {}", names[a], names[b], e), cfg.case_seed(), (a * 4 + b) as u64);
                    s.violated(v);
                    continue;
                }
            };
            let (sg, ix) = table[a][b];
            let exp: Vec<Q> = basis[ix].iter().map(|c| *c * Q::int(sg)).collect();
            let got = [r.x, r.y, r.z, r.w];
            if let Some(p) = take_poison() {
                s.inconclusive(&format!("poison:{}", p));
            } else if got[..] == exp[..] {
                s.sample(|| format!("{}*{} = {:?} (x,y,z,w)", names[a], names[b], got));
                s.held_enumerated(true);
            } else {
                let v = violation(PROP, s, "Mul for Quaternion", "Q", "wrong_value", "hamilton_table", format!("{}*{} = {:?} (x,y,z,w), expected {}{} = {:?}", names[a], names[b], got, if sg < 0 { "-" } else { "" }, names[ix], exp), cfg.case_seed(), (a * 4 + b) as u64);
                s.violated(v);
            }
        }
    }
    // ijk = -1 in both groupings
    for (k, grouping) in ["(ij)k", "i(jk)"].iter().enumerate() {
        let _ = take_poison();
        s.saw("Mul for Quaternion");
        let (i, j, kk) = (mk(basis[1]), mk(basis[2]), mk(basis[3]));
        let r = if k == 0 { guarded(|| (i * j) * kk) } else { guarded(|| i * (j * kk)) };
        match r {
            Ok(r) if [r.x, r.y, r.z, r.w] == [z, z, z, Q::int(-1)] => s.held_enumerated(true),
            Ok(r) => {
                let v = violation(PROP, s, "Mul for Quaternion", "Q", "wrong_value", "hamilton_table", format!("{} = {:?} (x,y,z,w), expected -1", grouping, [r.x, r.y, r.z, r.w]), cfg.case_seed(), 16 + k as u64);
                s.violated(v);
            }
            Err(e) => {
                let v = violation(PROP, s, "Mul for Quaternion", "Q", "panic", "hamilton_table", format!("{} panicked: {}", grouping, e), cfg.case_seed(), 16 + k as u64);
                s.violated(v);
            }
        }
    }
}

// ------------------------------------------------------------------ conversions on Tag

fn conversions_tag(s: &mut Sub, cfg: &Config) {
    let t = |i: u32| Tag(i);
    let case = |s: &mut Sub, api: &str, what: &str, got: Vec<Tag>, exp: Vec<Tag>| {
        s.saw(api);
        if let Some(p) = take_poison() {
            s.inconclusive(&format!("poison:{}", p));
        } else if got == exp {
            s.sample(|| format!("{}: {:?}", api, got));
            s.held_enumerated(true);
        } else {
            let v = violation(PROP, s, api, "Tag", "wrong_value", what, format!("{}: got {:?}, expected {:?} (tags t1..t4 = x,y,z,w of the source)", api, got, exp), cfg.case_seed(), 0);
            s.violated(v);
        }
    };
    let _ = take_poison();
    let q = Quaternion::from_xyzw(t(1), t(2), t(3), t(4));
    case(s, "Quaternion::from_xyzw", "components_misplaced", vec![q.x, q.y, q.z, q.w], vec![t(1), t(2), t(3), t(4)]);
    let q = Quaternion::from_vec4(Vec4 { x: t(1), y: t(2), z: t(3), w: t(4) });
    case(s, "Quaternion::from_vec4", "components_misplaced", vec![q.x, q.y, q.z, q.w], vec![t(1), t(2), t(3), t(4)]);
    let q: Quaternion<Tag> = Quaternion::from(Vec4 { x: t(1), y: t(2), z: t(3), w: t(4) });
    case(s, "From<Vec4> for Quaternion", "components_misplaced", vec![q.x, q.y, q.z, q.w], vec![t(1), t(2), t(3), t(4)]);
    let src = Quaternion { x: t(1), y: t(2), z: t(3), w: t(4) };
    let v = src.into_vec4();
    case(s, "Quaternion::into_vec4", "components_misplaced", vec![v.x, v.y, v.z, v.w], vec![t(1), t(2), t(3), t(4)]);
    let v: Vec4<Tag> = Vec4::from(src);
    case(s, "From<Quaternion> for Vec4", "components_misplaced", vec![v.x, v.y, v.z, v.w], vec![t(1), t(2), t(3), t(4)]);
    let v = src.into_vec3();
    case(s, "Quaternion::into_vec3", "components_misplaced", vec![v.x, v.y, v.z], vec![t(1), t(2), t(3)]);
    let v: Vec3<Tag> = Vec3::from(src);
    case(s, "From<Quaternion> for Vec3", "components_misplaced", vec![v.x, v.y, v.z], vec![t(1), t(2), t(3)]);
    let q = Quaternion::from_scalar_and_vec3((t(4), Vec3 { x: t(1), y: t(2), z: t(3) }));
    case(s, "Quaternion::from_scalar_and_vec3", "components_misplaced", vec![q.x, q.y, q.z, q.w], vec![t(1), t(2), t(3), t(4)]);
    let q = Quaternion::from_scalar_and_vec3((t(4), Vec4 { x: t(1), y: t(2), z: t(3), w: t(9) }));
    case(s, "Quaternion::from_scalar_and_vec3", "components_misplaced_vec4_argument", vec![q.x, q.y, q.z, q.w], vec![t(1), t(2), t(3), t(4)]);
    let (sc, v) = src.into_scalar_and_vec3();
    case(s, "Quaternion::into_scalar_and_vec3", "components_misplaced", vec![sc, v.x, v.y, v.z], vec![t(4), t(1), t(2), t(3)]);
}

// ------------------------------------------------------------------ Q helpers

fn mkq(c: [Q; 4]) -> Quaternion<Q> {
    Quaternion { x: c[0], y: c[1], z: c[2], w: c[3] }
}
fn rawq(q: &Quaternion<Q>) -> [Q; 4] {
    [q.x, q.y, q.z, q.w]
}
fn hq(h: &mut H64, xs: &[Q]) {
    for x in xs {
        h.u(x.hash64());
    }
}
const ONE_Q: [Q; 4] = [Q::ZERO, Q::ZERO, Q::ZERO, Q::ONE];

type Fails = Vec<(String, &'static str, String)>;

fn finish(sub: &mut Sub, cfg: &Config, idx: u64, ty: &str, desc: &str, hash: u64, nontrivial: bool, fails: Fails, sample: impl FnOnce() -> String) {
    finish_ctx(sub, cfg, idx, ty, desc, hash, nontrivial, fails, sample, "")
}
#[allow(clippy::too_many_arguments)]
fn finish_ctx(sub: &mut Sub, cfg: &Config, idx: u64, ty: &str, desc: &str, hash: u64, nontrivial: bool, fails: Fails, sample: impl FnOnce() -> String, ctx: &str) {
    if let Some(p) = take_poison() {
        sub.inconclusive(&format!("poison:{}{}", p, ctx));
        return;
    }
    if fails.is_empty() {
        sub.sample(sample);
        sub.held(hash, nontrivial);
        return;
    }
    let mut first = true;
    for (api, what, detail) in fails {
        let v = violation(PROP, sub, &api, ty, "wrong_value", what, format!("{} | inputs: {}", detail, desc), cfg.case_seed(), idx);
        if first {
            sub.violated(v);
            first = false;
        } else {
            sub.add_violation(v);
        }
    }
}

/// run a vek call guarded; a panic is a violation (the property promises a value)
macro_rules! g {
    ($sub:expr, $cfg:expr, $idx:expr, $ty:expr, $desc:expr, $api:expr, $e:expr) => {{
        let api_s: String = $api.to_string();
        $sub.saw(&api_s);
        match guarded(|| $e) {
            Ok(v) => v,
            Err(e) => {
                let _ = take_poison();
                let v = violation(PROP, $sub, &api_s, $ty, "panic", "panic_where_a_value_is_promised", format!("panicked: {} | inputs: {}", e, $desc), $cfg.case_seed(), $idx);
                $sub.violated(v);
                return;
            }
        }
    }};
}

// ------------------------------------------------------------------ inverse on Q

fn inverse_q(sub: &mut Sub, cfg: &Config, idx: u64) {
    let mut rng = Rng::for_case("inverse_q/case", cfg.case_seed(), idx);
    let _ = take_poison();
    let q: [Q; 4] = match rng.below(4) {
        0 => {
            // rational norm: unit quaternion times a rational length
            let u = rational_unit_quat(&mut rng, 7);
            let l = small_q_nonzero(&mut rng, 9, 6);
            [u[0] * l, u[1] * l, u[2] * l, u[3] * l]
        }
        1 => {
            // some components exactly zero
            let mut c = [Q::ZERO; 4];
            let k = rng.usize_below(4);
            c[k] = small_q_nonzero(&mut rng, 9, 5);
            if rng.bool() {
                c[rng.usize_below(4)] = small_q_nonzero(&mut rng, 9, 5);
            }
            c
        }
        _ => loop {
            let c = [small_q(&mut rng, 9, 6), small_q(&mut rng, 9, 6), small_q(&mut rng, 9, 6), small_q(&mut rng, 9, 6)];
            if c.iter().any(|x| !x.is_zero()) {
                break c;
            }
        },
    };
    let desc = format!("q = {:?} (x,y,z,w)", q);
    let mut fails: Fails = Vec::new();
    let inv = g!(sub, cfg, idx, "Q", desc, "Quaternion::inverse", mkq(q).inverse());
    let ir = rawq(&inv);
    let n2 = norm2(q);
    let exp: Vec<Q> = conj(q).iter().map(|c| *c / n2).collect();
    if ir[..] != exp[..] {
        fails.push(("Quaternion::inverse".into(), "not_conjugate_over_norm_squared", format!("inverse = {:?}, expected conj(q)/|q|^2 = {:?}", ir, exp)));
    }
    if ham(q, ir) != ONE_Q || ham(ir, q) != ONE_Q {
        fails.push(("Quaternion::inverse".into(), "not_a_two_sided_inverse", format!("inverse = {:?}; Hamilton products q*inv = {:?}, inv*q = {:?}, expected (0,0,0,1)", ir, ham(q, ir), ham(ir, q))));
    }
    let r = g!(sub, cfg, idx, "Q", desc, "Mul for Quaternion", mkq(q) * inv);
    let l = g!(sub, cfg, idx, "Q", desc, "Mul for Quaternion", inv * mkq(q));
    if rawq(&r) != ONE_Q || rawq(&l) != ONE_Q {
        fails.push(("Quaternion::inverse".into(), "product_with_inverse_not_identity", format!("q * q.inverse() = {:?}, q.inverse() * q = {:?}", rawq(&r), rawq(&l))));
    }
    let mut h = H64::new();
    hq(&mut h, &q);
    let nz = q.iter().filter(|x| !x.is_zero()).count();
    finish(sub, cfg, idx, "Q", &desc, h.get(), nz >= 2 && n2 != Q::ONE, fails, || format!("{} -> inverse {:?}", desc, ir));
}

// ------------------------------------------------------------------ unit quaternions on Q

fn unit_rotation_q<M3, M4>(sub: &mut Sub, cfg: &Config, idx: u64, lay: &str)
where
    M3: MatX<Q> + From<Quaternion<Q>>,
    M4: MatX<Q> + From<Quaternion<Q>>,
{
    let mut rng = Rng::for_case("unit_rotation_q/case", cfg.case_seed(), idx);
    let _ = take_poison();
    let p = rational_unit_quat(&mut rng, 5);
    let q = rational_unit_quat(&mut rng, 5);
    let v = [small_q(&mut rng, 7, 4), small_q(&mut rng, 7, 4), small_q(&mut rng, 7, 4)];
    let w = small_q(&mut rng, 7, 4);
    let ty = format!("{}<Q>", lay);
    let ty = ty.as_str();
    let desc = format!("unit p = {:?}, unit q = {:?} (x,y,z,w), v = {:?}, w = {}", p, q, v, w);
    let mut fails: Fails = Vec::new();
    let vv = Vec3 { x: v[0], y: v[1], z: v[2] };
    let qv = g!(sub, cfg, idx, ty, desc, "Mul<Vec3> for Quaternion", mkq(q) * vv);
    let qv = [qv.x, qv.y, qv.z];
    let textbook = matvec3(quat_to_mat3(q), v);
    if qv != textbook {
        fails.push(("Mul<Vec3> for Quaternion".into(), "not_the_rotation_of_the_unit_quaternion", format!("q*v = {:?}, textbook rotation matrix of q applied to v = {:?}", qv, textbook)));
    }
    let m3 = g!(sub, cfg, idx, ty, desc, "Mat3::from(Quaternion)", M3::from(mkq(q)));
    let m4 = g!(sub, cfg, idx, ty, desc, "Mat4::from(Quaternion)", M4::from(mkq(q)));
    let m3v: Vec<Q> = (0..3).map(|i| (0..3).fold(Q::ZERO, |s, k| s + m3.get(i, k) * v[k])).collect();
    if m3v[..] != qv[..] {
        fails.push(("Mul<Vec3> for Quaternion".into(), "differs_from_converted_mat3", format!("q*v = {:?}, Mat3::from(q) (raw fields) applied to v = {:?}, Mat3 = {:?}", qv, m3v, m3.to_rows())));
    }
    let v4 = [v[0], v[1], v[2], w];
    let m4v: Vec<Q> = (0..4).map(|i| (0..4).fold(Q::ZERO, |s, k| s + m4.get(i, k) * v4[k])).collect();
    let q4 = g!(sub, cfg, idx, ty, desc, "Mul<Vec4> for Quaternion", mkq(q) * Vec4 { x: v[0], y: v[1], z: v[2], w });
    let q4 = [q4.x, q4.y, q4.z, q4.w];
    if q4[3] != w {
        fails.push(("Mul<Vec4> for Quaternion".into(), "w_not_left_untouched", format!("q*(v,w) = {:?}", q4)));
    }
    if q4[..3] != qv[..] {
        fails.push(("Mul<Vec4> for Quaternion".into(), "xyz_differs_from_vec3_application", format!("q*(v,w) = {:?}, q*v = {:?}", q4, qv)));
    }
    if m4v[..] != q4[..] {
        fails.push(("Mul<Vec4> for Quaternion".into(), "differs_from_converted_mat4", format!("q*(v,w) = {:?}, Mat4::from(q) (raw fields) applied = {:?}, Mat4 = {:?}", q4, m4v, m4.to_rows())));
    }
    // (p*q)*v = p*(q*v)
    let pq = g!(sub, cfg, idx, ty, desc, "Mul for Quaternion", mkq(p) * mkq(q));
    let lhs = g!(sub, cfg, idx, ty, desc, "Mul<Vec3> for Quaternion", pq * vv);
    let rhs = g!(sub, cfg, idx, ty, desc, "Mul<Vec3> for Quaternion", mkq(p) * (mkq(q) * vv));
    let (lhs, rhs) = ([lhs.x, lhs.y, lhs.z], [rhs.x, rhs.y, rhs.z]);
    let both = matvec3(quat_to_mat3(p), textbook);
    if lhs != rhs || lhs != both {
        fails.push(("Mul<Vec3> for Quaternion".into(), "application_does_not_compose", format!("(p*q)*v = {:?}, p*(q*v) = {:?}, rotation of p after rotation of q = {:?}", lhs, rhs, both)));
    }
    let mut h = H64::new();
    h.s(lay);
    hq(&mut h, &p);
    hq(&mut h, &q);
    hq(&mut h, &v);
    let nontrivial = q[3] != Q::ONE && q[3] != Q::int(-1) && p[3].abs_q() != Q::ONE && v.iter().any(|x| !x.is_zero());
    finish(sub, cfg, idx, ty, &desc, h.get(), nontrivial, fails, || format!("{}: q*v = {:?}", desc, qv));
}

// ------------------------------------------------------------------ normalized / magnitude on Q

fn norm_q(sub: &mut Sub, cfg: &Config, idx: u64) {
    let mut rng = Rng::for_case("norm_q/case", cfg.case_seed(), idx);
    let _ = take_poison();
    let u = rational_unit_quat(&mut rng, 9);
    let l = small_q_pos(&mut rng, 20, 9);
    let q = [u[0] * l, u[1] * l, u[2] * l, u[3] * l];
    let desc = format!("q = {:?} = {} * unit {:?}", q, l, u);
    let mut fails: Fails = Vec::new();
    let m = g!(sub, cfg, idx, "Q", desc, "Quaternion::magnitude", mkq(q).magnitude());
    let m2 = g!(sub, cfg, idx, "Q", desc, "Quaternion::magnitude_squared", mkq(q).magnitude_squared());
    let n = g!(sub, cfg, idx, "Q", desc, "Quaternion::normalized", mkq(q).normalized());
    if m != l {
        fails.push(("Quaternion::magnitude".into(), "not_the_euclidean_norm", format!("magnitude = {}, expected {}", m, l)));
    }
    if m2 != l * l {
        fails.push(("Quaternion::magnitude_squared".into(), "not_the_squared_norm", format!("magnitude_squared = {}, expected {}", m2, l * l)));
    }
    if rawq(&n) != u {
        fails.push(("Quaternion::normalized".into(), "not_q_over_its_norm", format!("normalized = {:?}, expected {:?}", rawq(&n), u)));
    }
    let mut h = H64::new();
    hq(&mut h, &q);
    finish(sub, cfg, idx, "Q", &desc, h.get(), l != Q::ONE && u.iter().filter(|x| !x.is_zero()).count() >= 2, fails, || format!("{} -> magnitude {}", desc, m));
}

// ------------------------------------------------------------------ rotation_from_to_3d on Q

#[derive(Clone, Copy, PartialEq, Debug)]
enum PairKind {
    General,
    NearAntiparallel,
    Parallel,
    AntiparallelXY,
    AntiparallelYZ,
}
impl PairKind {
    fn what(self) -> &'static str {
        match self {
            PairKind::General => "general_pair_not_mapped_onto_target",
            PairKind::NearAntiparallel => "nearly_opposite_pair_not_mapped_onto_target",
            PairKind::Parallel => "parallel_pair_not_mapped_onto_target",
            PairKind::AntiparallelXY => "opposite_pair_not_mapped_onto_target_branch_x_dominant",
            PairKind::AntiparallelYZ => "opposite_pair_not_mapped_onto_target_branch_z_dominant",
        }
    }
}

fn gen_pair_q(rng: &mut Rng) -> (PairKind, [Q; 3], [Q; 3]) {
    let scale = |v: [Q; 3], k: Q| [v[0] * k, v[1] * k, v[2] * k];
    match rng.below(20) {
        0..=10 => {
            // from = a P e_x, to = b P (cos phi, sin phi, 0): |from||to| = ab and
            // |from x to|^2 + (|from||to| + from.to)^2 = (2ab cos(phi/2))^2, with cos(phi/2) rational
            let near = rng.chance(1, 8);
            let t = if near {
                // phi close to pi (but far outside vek's epsilon band): t = tan(phi/4) close to 1
                let d = Q::frac(1, 1 << rng.range_i64(3, 9));
                if rng.bool() { Q::ONE - d } else { Q::ONE + d }
            } else {
                loop {
                    let t = small_q(rng, 9, 7);
                    if t.abs_q() != Q::ONE {
                        break t;
                    }
                }
            };
            let den = Q::ONE + t * t;
            let (c2, s2) = ((Q::ONE - t * t) / den, (t + t) / den);
            let (c, s) = (c2 * c2 - s2 * s2, s2 * c2 * Q::int(2));
            let p = rational_rotation(rng, 3);
            let (a, b) = (small_q_pos(rng, 6, 4), small_q_pos(rng, 6, 4));
            let col = |j: usize| [p[0][j], p[1][j], p[2][j]];
            let (e0, e1) = (col(0), col(1));
            let from = scale(e0, a);
            let to = [(e0[0] * c + e1[0] * s) * b, (e0[1] * c + e1[1] * s) * b, (e0[2] * c + e1[2] * s) * b];
            (if near { PairKind::NearAntiparallel } else { PairKind::General }, from, to)
        }
        11 | 12 => {
            // exactly parallel: any rational from
            let from = loop {
                let f = [small_q(rng, 7, 4), small_q(rng, 7, 4), small_q(rng, 7, 4)];
                if f.iter().any(|x| !x.is_zero()) {
                    break f;
                }
            };
            (PairKind::Parallel, from, scale(from, small_q_pos(rng, 6, 4)))
        }
        13..=16 => {
            // exactly antiparallel, |x| > |z|: vek's axis is (-y, x, 0), its norm sqrt(x^2+y^2) must be rational
            let (x, y) = loop {
                let (xy, _) = rational_length_vec2(rng, 5);
                if !xy[0].is_zero() {
                    break (xy[0], xy[1]);
                }
            };
            // |z| < |x|, including z = 0
            let z = x * Q::frac(rng.range_i64(-6, 6), 7);
            let from = [x, y, z];
            (PairKind::AntiparallelXY, from, scale(from, -small_q_pos(rng, 6, 4)))
        }
        _ => {
            // exactly antiparallel, |x| <= |z|: vek's axis is (0, -z, y), sqrt(y^2+z^2) must be rational
            let (yz, _) = rational_length_vec2(rng, 5);
            let (y, z) = match rng.below(4) {
                0 => (yz[1], yz[0]),
                _ => (yz[0], yz[1]),
            };
            // |x| <= |z| including the tie |x| = |z| and x = 0 (from = (0,0,1), (1,0,1), (0,y,0) ...)
            let x = z * Q::frac(rng.range_i64(-7, 7), 7);
            let from = [x, y, z];
            (PairKind::AntiparallelYZ, from, scale(from, -small_q_pos(rng, 6, 4)))
        }
    }
}

/// exact oracle: R (3x3, acting on columns) maps `from` onto the direction of `to`
fn maps_onto(r: [[Q; 3]; 3], from: [Q; 3], to: [Q; 3]) -> (bool, [Q; 3]) {
    let img = matvec3(r, from);
    let c = cross3(img, to);
    (c.iter().all(|x| x.is_zero()) && dot3(img, to) > Q::ZERO, img)
}

fn from_to_quat_q(sub: &mut Sub, cfg: &Config, idx: u64) {
    let mut rng = Rng::for_case("from_to_exact_q/case", cfg.case_seed(), idx);
    let _ = take_poison();
    let (kind, from, to) = gen_pair_q(&mut rng);
    let desc = format!("{:?}: from = {:?}, to = {:?}", kind, from, to);
    let mut fails: Fails = Vec::new();
    let api = "Quaternion::rotation_from_to_3d";
    let q = g!(sub, cfg, idx, "Q", desc, api, Quaternion::<Q>::rotation_from_to_3d(Vec3 { x: from[0], y: from[1], z: from[2] }, Vec3 { x: to[0], y: to[1], z: to[2] }));
    let qr = rawq(&q);
    if norm2(qr) != Q::ONE {
        fails.push((api.into(), "result_not_a_unit_quaternion", format!("q = {:?}, |q|^2 = {}", qr, norm2(qr))));
    }
    let (ok, img) = maps_onto(quat_to_mat3(qr), from, to);
    if !ok {
        fails.push((api.into(), kind.what(), format!("q = {:?}; rotation of q applied to from = {:?}; cross with to = {:?}, dot with to = {}", qr, img, cross3(img, to), dot3(img, to))));
    }
    // vek's own application of the result (only attributable to q*v when the result itself is right)
    let qf = g!(sub, cfg, idx, "Q", desc, "Mul<Vec3> for Quaternion", q * Vec3 { x: from[0], y: from[1], z: from[2] });
    let qf = [qf.x, qf.y, qf.z];
    if ok && norm2(qr) == Q::ONE && qf != img {
        fails.push(("Mul<Vec3> for Quaternion".into(), "from_to_result_applied_by_vek_differs_from_its_rotation", format!("q = {:?}; q*from = {:?}, rotation of q applied to from = {:?}", qr, qf, img)));
    }
    let mut h = H64::new();
    hq(&mut h, &from);
    hq(&mut h, &to);
    let nontrivial = kind != PairKind::Parallel;
    finish_ctx(sub, cfg, idx, "Q", &desc, h.get(), nontrivial, fails, || format!("{} -> q = {:?}", desc, qr), &format!("[{:?}]", kind));
}

fn from_to_mat_q<M3, M4>(sub: &mut Sub, cfg: &Config, idx: u64, lay: &str, m3f: &dyn Fn(Vec3<Q>, Vec3<Q>) -> M3, m4f: &dyn Fn(Vec4<Q>, Vec4<Q>) -> M4)
where
    M3: MatX<Q>,
    M4: MatX<Q>,
{
    let mut rng = Rng::for_case("from_to_exact_q/case", cfg.case_seed(), idx);
    let _ = take_poison();
    let (kind, from, to) = gen_pair_q(&mut rng);
    let (w1, w2) = (small_q(&mut rng, 5, 3), small_q(&mut rng, 5, 3));
    let ty = format!("{}<Q>", lay);
    let ty = ty.as_str();
    let desc = format!("{:?}: from = {:?}, to = {:?} (Mat4 gets them as Vec4 with w = {}, {})", kind, from, to, w1, w2);
    let mut fails: Fails = Vec::new();
    let m3 = g!(sub, cfg, idx, ty, desc, "Mat3::rotation_from_to_3d", m3f(Vec3 { x: from[0], y: from[1], z: from[2] }, Vec3 { x: to[0], y: to[1], z: to[2] }));
    let m4 = g!(sub, cfg, idx, ty, desc, "Mat4::rotation_from_to_3d", m4f(Vec4 { x: from[0], y: from[1], z: from[2], w: w1 }, Vec4 { x: to[0], y: to[1], z: to[2], w: w2 }));
    let mut r3 = [[Q::ZERO; 3]; 3];
    let mut r4 = [[Q::ZERO; 3]; 3];
    for i in 0..3 {
        for j in 0..3 {
            r3[i][j] = m3.get(i, j);
            r4[i][j] = m4.get(i, j);
        }
    }
    for (api, r) in [("Mat3::rotation_from_to_3d", r3), ("Mat4::rotation_from_to_3d", r4)] {
        // proper rotation
        let mut orth = true;
        for i in 0..3 {
            for j in 0..3 {
                let d = (0..3).fold(Q::ZERO, |s, k| s + r[k][i] * r[k][j]);
                orth &= d == if i == j { Q::ONE } else { Q::ZERO };
            }
        }
        let det = monitors::gen::det(r);
        if !orth || det != Q::ONE {
            fails.push((api.into(), "result_not_a_proper_rotation", format!("R = {:?}, det = {}", r, det)));
        }
        let (ok, img) = maps_onto(r, from, to);
        if !ok {
            fails.push((api.into(), kind.what(), format!("R = {:?}; R from = {:?}; cross with to = {:?}, dot with to = {}", r, img, cross3(img, to), dot3(img, to))));
        }
    }
    let border = (0..4).all(|i| m4.get(3, i) == if i == 3 { Q::ONE } else { Q::ZERO } && m4.get(i, 3) == if i == 3 { Q::ONE } else { Q::ZERO });
    if !border {
        fails.push(("Mat4::rotation_from_to_3d".into(), "last_row_or_column_not_identity", format!("Mat4 = {:?}", m4.to_rows())));
    }
    let mut h = H64::new();
    h.s(lay);
    hq(&mut h, &from);
    hq(&mut h, &to);
    finish_ctx(sub, cfg, idx, ty, &desc, h.get(), kind != PairKind::Parallel, fails, || format!("{} -> Mat3 = {:?}", desc, r3), &format!("[{:?}]", kind));
}

// ------------------------------------------------------------------ float tiers

trait Fl: Real + std::fmt::Debug + 'static {
    const TY: &'static str;
    const EPS: f64;
    fn of(x: f64) -> Self;
    fn to64(self) -> f64;
}
impl Fl for f32 {
    const TY: &'static str = "f32";
    const EPS: f64 = f32::EPSILON as f64;
    fn of(x: f64) -> f32 {
        x as f32
    }
    fn to64(self) -> f64 {
        self as f64
    }
}
impl Fl for f64 {
    const TY: &'static str = "f64";
    const EPS: f64 = f64::EPSILON;
    fn of(x: f64) -> f64 {
        x
    }
    fn to64(self) -> f64 {
        self
    }
}

fn quat_mat64(q: [f64; 4]) -> [[f64; 3]; 3] {
    let [x, y, z, w] = q;
    [
        [1.0 - 2.0 * (y * y + z * z), 2.0 * (x * y - z * w), 2.0 * (x * z + y * w)],
        [2.0 * (x * y + z * w), 1.0 - 2.0 * (x * x + z * z), 2.0 * (y * z - x * w)],
        [2.0 * (x * z - y * w), 2.0 * (y * z + x * w), 1.0 - 2.0 * (x * x + y * y)],
    ]
}
fn mv64(m: [[f64; 3]; 3], v: [f64; 3]) -> [f64; 3] {
    [m[0][0] * v[0] + m[0][1] * v[1] + m[0][2] * v[2], m[1][0] * v[0] + m[1][1] * v[1] + m[1][2] * v[2], m[2][0] * v[0] + m[2][1] * v[1] + m[2][2] * v[2]]
}
fn len64(v: [f64; 3]) -> f64 {
    (v[0] * v[0] + v[1] * v[1] + v[2] * v[2]).sqrt()
}
fn rod64(angle: f64, n: [f64; 3]) -> [[f64; 3]; 3] {
    // columns = c e + s (n x e) + (1-c)(n.e) n
    let (s, c) = angle.sin_cos();
    let mut o = [[0.0; 3]; 3];
    for j in 0..3 {
        let mut e = [0.0; 3];
        e[j] = 1.0;
        let nxe = [n[1] * e[2] - n[2] * e[1], n[2] * e[0] - n[0] * e[2], n[0] * e[1] - n[1] * e[0]];
        let ne = n[j];
        for i in 0..3 {
            o[i][j] = c * e[i] + s * nxe[i] + (1.0 - c) * ne * n[i];
        }
    }
    o
}

fn from_to_float<T: Fl, M3: MatX<T>, M4: MatX<T>>(
    sub: &mut Sub,
    cfg: &Config,
    idx: u64,
    lay: &str,
    qf: &dyn Fn(Vec3<T>, Vec3<T>) -> Quaternion<T>,
    m3f: &dyn Fn(Vec3<T>, Vec3<T>) -> M3,
    m4f: &dyn Fn(Vec3<T>, Vec3<T>) -> M4,
) where
    T: std::ops::Neg<Output = T> + std::ops::Mul<Output = T>,
{
    let mut rng = Rng::for_case(&format!("from_to_float/{}", T::TY), cfg.case_seed(), idx);
    let rand_dir = |rng: &mut Rng| loop {
        let v = [rng.f64_in(-1.0, 1.0), rng.f64_in(-1.0, 1.0), rng.f64_in(-1.0, 1.0)];
        let l = len64(v);
        if l > 0.1 && l <= 1.0 {
            break [v[0] / l, v[1] / l, v[2] / l];
        }
    };
    let mag = |rng: &mut Rng| 10f64.powf(rng.f64_in(-3.0, 3.0));
    let kind = rng.below(10);
    let d = rand_dir(&mut rng);
    let m = mag(&mut rng);
    let mut from: [T; 3] = [T::of(d[0] * m), T::of(d[1] * m), T::of(d[2] * m)];
    if kind == 0 || kind == 1 {
        // axis-aligned / in-plane sources for the bit-exact antiparallel sub-branches
        match rng.below(6) {
            0 => from = [T::of(0.0), T::of(0.0), T::of(m)],
            1 => from = [T::of(m), T::of(0.0), T::of(m)],
            2 => from = [T::of(m), T::of(0.0), T::of(0.0)],
            3 => from = [T::of(0.0), T::of(m), T::of(0.0)],
            _ => {}
        }
    }
    let exact_anti = kind == 0 || kind == 1 || kind == 3;
    if kind == 3 {
        // integer components: -k*from is exactly representable for small integer k that are not
        // powers of two, so the pair is exactly opposite but |from||to| and from.to round differently
        let top = if T::EPS > 1e-10 { 4000 } else { 4_000_000 };
        from = [T::of(rng.range_i64(-top, top) as f64), T::of(rng.range_i64(-top, top) as f64), T::of(rng.range_i64(-top, top) as f64)];
    }
    let to: [T; 3] = if kind == 3 {
        let k = T::of([3.0, 5.0, 6.0, 7.0, 9.0, 10.0, 11.0, 13.0][rng.usize_below(8)]);
        [-(from[0] * k), -(from[1] * k), -(from[2] * k)]
    } else if exact_anti {
        // to = -2^j from, bit exact
        let k = T::of([0.25, 0.5, 1.0, 2.0, 4.0][rng.usize_below(5)]);
        [-(from[0] * k), -(from[1] * k), -(from[2] * k)]
    } else if kind == 2 {
        // close to (anti)parallel
        let e = rand_dir(&mut rng);
        let sgn = if rng.bool() { 1.0 } else { -1.0 };
        // nearly parallel pairs down to angles far below sqrt(eps) of either type (well conditioned: the
        // rotation is tiny, not undefined; a "the vectors are parallel" shortcut taken by tolerance, or
        // by an equality that only holds after rounding, returns the identity here: seeded change C05_P);
        // nearly opposite pairs as before (below 1e-3 rad they are ill conditioned and not judged)
        let eps = if sgn > 0.0 { 10f64.powf(rng.f64_in(-12.0, -1.0)) } else { 10f64.powf(rng.f64_in(-4.0, -1.0)) };
        let m2 = mag(&mut rng);
        [T::of((sgn * d[0] + eps * e[0]) * m2), T::of((sgn * d[1] + eps * e[1]) * m2), T::of((sgn * d[2] + eps * e[2]) * m2)]
    } else {
        let e = rand_dir(&mut rng);
        let m2 = mag(&mut rng);
        [T::of(e[0] * m2), T::of(e[1] * m2), T::of(e[2] * m2)]
    };
    let f64v = |v: [T; 3]| [v[0].to64(), v[1].to64(), v[2].to64()];
    let (f, t) = (f64v(from), f64v(to));
    let ty = format!("{}<{}>", lay, T::TY);
    let ty = ty.as_str();
    let desc = format!("from = {:?}, to = {:?}{}", from, to, if kind == 3 { " (to = -k * from with integer components and integer k, exactly representable)" } else if exact_anti { " (to = -2^j * from, bit exact)" } else { "" });
    let (lf, lt) = (len64(f), len64(t));
    if lf == 0.0 || lt == 0.0 {
        sub.inconclusive("outside_domain:zero_direction");
        return;
    }
    let cos_t = ((f[0] * t[0] + f[1] * t[1] + f[2] * t[2]) / (lf * lt)).clamp(-1.0, 1.0);
    let cos_half = ((1.0 + cos_t) / 2.0).max(0.0).sqrt();
    if !exact_anti && cos_half < 5e-4 {
        // within ~1e-3 rad of opposite without being exactly opposite: vek switches branch inside
        // an epsilon band and the general branch divides by ~cos(theta/2)
        sub.inconclusive("ill_conditioned:nearly_opposite");
        return;
    }
    let tol0 = 64.0 * T::EPS;
    let tol = if exact_anti { 4.0 * tol0 } else { tol0 * (1.0 + 1.0 / cos_half) };
    let vf = Vec3 { x: from[0], y: from[1], z: from[2] };
    let vt = Vec3 { x: to[0], y: to[1], z: to[2] };
    let q = g!(sub, cfg, idx, ty, desc, "Quaternion::rotation_from_to_3d", qf(vf, vt));
    let m3 = g!(sub, cfg, idx, ty, desc, "Mat3::rotation_from_to_3d", m3f(vf, vt));
    let m4 = g!(sub, cfg, idx, ty, desc, "Mat4::rotation_from_to_3d", m4f(vf, vt));
    let qr = [q.x.to64(), q.y.to64(), q.z.to64(), q.w.to64()];
    let mut fails: Fails = Vec::new();
    let n2 = qr.iter().map(|x| x * x).sum::<f64>();
    if !((n2 - 1.0).abs() <= 8.0 * tol0) {
        fails.push(("Quaternion::rotation_from_to_3d".into(), "result_not_a_unit_quaternion", format!("q = {:?}, |q|^2 = {}", qr, n2)));
    }
    let fd = [f[0] / lf, f[1] / lf, f[2] / lf];
    let td = [t[0] / lt, t[1] / lt, t[2] / lt];
    let what = if exact_anti { "opposite_pair_not_mapped_onto_target" } else { "general_pair_not_mapped_onto_target" };
    let mut rm3 = [[0.0; 3]; 3];
    let mut rm4 = [[0.0; 3]; 3];
    for i in 0..3 {
        for j in 0..3 {
            rm3[i][j] = m3.get(i, j).to64();
            rm4[i][j] = m4.get(i, j).to64();
        }
    }
    for (api, r) in [("Quaternion::rotation_from_to_3d", quat_mat64(qr)), ("Mat3::rotation_from_to_3d", rm3), ("Mat4::rotation_from_to_3d", rm4)] {
        let img = mv64(r, fd);
        let err = (0..3).map(|i| (img[i] - td[i]).abs()).fold(0.0, f64::max);
        if !(err <= tol) {
            fails.push((api.into(), what, format!("rotation = {:?}; image of the unit from-direction = {:?}, unit to-direction = {:?}, max error {:e} > tolerance {:e}", r, img, td, err, tol)));
        }
    }
    let mut h = H64::new();
    h.s(ty);
    for x in f.iter().chain(t.iter()) {
        h.f(*x);
    }
    finish(sub, cfg, idx, ty, &desc, h.get(), cos_t < 0.999, fails, || format!("{} -> q = {:?}", desc, qr));
}

fn angle_axis_float<T: Fl>(sub: &mut Sub, cfg: &Config, idx: u64) {
    use std::f64::consts::PI;
    let mut rng = Rng::for_case(&format!("angle_axis_float/{}", T::TY), cfg.case_seed(), idx);
    let kind = rng.below(16);
    // a unit quaternion built here (not by vek): (n sin(a/2), cos(a/2)), a in (-2pi, 2pi)
    let (a, n): (f64, [f64; 3]) = match kind {
        0 => (0.0, [1.0, 0.0, 0.0]),
        1 => (2.0 * PI, [0.0, 1.0, 0.0]), // w = -1 after rounding
        _ => {
            let a = match rng.below(8) {
                0 => rng.f64_in(-0.2, 0.2),
                1 => rng.f64_in(PI - 0.1, PI + 0.1) * if rng.bool() { 1.0 } else { -1.0 },
                // small rotations (what a per-frame delta orientation is): 1e-1 .. 1e-7 rad, either sign,
                // and the same distance from a full turn (w close to -1)
                2 | 3 => 10f64.powf(rng.f64_in(-7.0, -1.0)) * if rng.bool() { 1.0 } else { -1.0 },
                4 => (2.0 * PI - 10f64.powf(rng.f64_in(-7.0, -1.0))) * if rng.bool() { 1.0 } else { -1.0 },
                _ => rng.f64_in(-2.0 * PI, 2.0 * PI),
            };
            let n = loop {
                let v = [rng.f64_in(-1.0, 1.0), rng.f64_in(-1.0, 1.0), rng.f64_in(-1.0, 1.0)];
                let l = len64(v);
                if l > 0.1 && l <= 1.0 {
                    break [v[0] / l, v[1] / l, v[2] / l];
                }
            };
            (a, n)
        }
    };
    let (sh, ch) = (a / 2.0).sin_cos();
    // kind 1: exactly -identity; kind 2: w = +-1 exactly with a vector part far below the rounding
    // of w (what cos(angle/2) rounds to for an angle within ~sqrt(eps) of 0 or of a full turn)
    let q = match kind {
        1 => Quaternion { x: T::of(0.0), y: T::of(0.0), z: T::of(0.0), w: T::of(-1.0) },
        2 => {
            let tiny = T::EPS * 10f64.powf(rng.f64_in(-3.0, -0.5));
            Quaternion { x: T::of(n[0] * tiny), y: T::of(n[1] * tiny), z: T::of(n[2] * tiny), w: T::of(if rng.bool() { 1.0 } else { -1.0 }) }
        }
        // kind 3: |w| one or two ulps *above* 1 with a vector part at rounding level -- what the product of
        // a unit quaternion with its conjugate comes out as (w = 1.0000001 in f32); still the identity
        // rotation to within rounding, so the answer must be finite: angle ~ 0 (mod 2pi), any unit axis
        3 => {
            let up = 1.0 + T::EPS * (1 + rng.below(2)) as f64;
            let tiny = T::EPS * rng.f64_in(0.0, 0.4);
            Quaternion { x: T::of(n[0] * tiny), y: T::of(n[1] * tiny), z: T::of(n[2] * tiny), w: T::of(if rng.bool() { up } else { -up }) }
        }
        _ => Quaternion { x: T::of(n[0] * sh), y: T::of(n[1] * sh), z: T::of(n[2] * sh), w: T::of(ch) },
    };
    let qr = [q.x.to64(), q.y.to64(), q.z.to64(), q.w.to64()];
    let desc = format!("q = {:?} (x,y,z,w) ~ angle {} about {:?}", qr, a, n);
    let w = qr[3];
    // |w| exactly 1 (vector part zero or lost in the rounding of w): the rotation is the identity,
    // any finite unit axis is a correct answer
    let exact_identity = (w.abs() == 1.0 || kind == 3) && qr[0].abs() <= T::EPS && qr[1].abs() <= T::EPS && qr[2].abs() <= T::EPS;
    // The map q -> rotation is well conditioned everywhere (an error d in q moves the rotation by O(d)),
    // and so is the extraction problem: angle = 2 atan2(|xyz|, w), axis = xyz / |xyz|.  The tolerance
    // is therefore a plain multiple of eps; a formula that loses accuracy for small angles
    // (acos(w), sqrt(1 - w^2) near |w| = 1) is an unstable algorithm, not an ill-conditioned input.
    // Only when the vector part is below eps is the axis arbitrary: then the rotation differs from the
    // identity by less than 2 eps and any unit axis with a matching tiny angle is right.
    let (angle, axis) = g!(sub, cfg, idx, T::TY, desc, "Quaternion::into_angle_axis", q.into_angle_axis());
    let (angle, axis) = (angle.to64(), [axis.x.to64(), axis.y.to64(), axis.z.to64()]);
    let mut fails: Fails = Vec::new();
    let api = "Quaternion::into_angle_axis";
    let tol = 64.0 * T::EPS * 8.0;
    let al = len64(axis);
    if !((al - 1.0).abs() <= tol) {
        fails.push((api.into(), "axis_not_unit", format!("angle = {}, axis = {:?}, |axis| = {}, tolerance {:e}", angle, axis, al, tol)));
    }
    // same rotation: Rodrigues matrix of the returned pair vs the textbook matrix of q
    let got = rod64(angle, axis);
    let exp = quat_mat64(qr);
    let mut err = 0.0f64;
    for i in 0..3 {
        for j in 0..3 {
            err = err.max((got[i][j] - exp[i][j]).abs());
        }
    }
    if !(err <= 2.0 * tol) {
        fails.push((api.into(), "angle_axis_describes_another_rotation", format!("returned angle = {}, axis = {:?}: rotation {:?}; rotation of q: {:?}; max error {:e} > tolerance {:e}", angle, axis, got, exp, err, 2.0 * tol)));
    }
    let mut h = H64::new();
    h.s(T::TY);
    for x in qr {
        h.f(x);
    }
    finish(sub, cfg, idx, T::TY, &desc, h.get(), !exact_identity, fails, || format!("{} -> angle {}, axis {:?}", desc, angle, axis));
}

/// vek's own angle-axis constructors against Rodrigues' formula, and back through into_angle_axis:
/// axes with special structure (on a coordinate axis with either sign, in a coordinate plane, any
/// length) and special angles (0, tiny, quarter and half turns, near a full turn) included, because
/// that is what a fast path keys on.
fn rotation_3d_float<T: Fl>(sub: &mut Sub, cfg: &Config, idx: u64) {
    use std::f64::consts::PI;
    let mut rng = Rng::for_case(&format!("rotation_3d_float/{}", T::TY), cfg.case_seed(), idx);
    let mut axis: [f64; 3] = match rng.below(5) {
        0 => {
            let mut a = [0.0; 3];
            a[rng.below(3) as usize] = if rng.bool() { 1.0 } else { -1.0 };
            a
        }
        1 => {
            let k = rng.below(3) as usize;
            let mut a = [rng.f64_in(-1.0, 1.0), rng.f64_in(-1.0, 1.0), rng.f64_in(-1.0, 1.0)];
            a[k] = 0.0;
            a
        }
        _ => [rng.f64_in(-1.0, 1.0), rng.f64_in(-1.0, 1.0), rng.f64_in(-1.0, 1.0)],
    };
    let scale = match rng.below(4) {
        0 => 1.0,
        1 => 2f64.powi(rng.range_i64(-6, 6) as i32),
        _ => rng.f64_in(0.05, 20.0),
    };
    for a in axis.iter_mut() {
        *a = T::of(*a * scale).to64();
    }
    let l = len64(axis);
    if !(l > 1e-3) {
        sub.inconclusive("outside_domain:zero_axis");
        return;
    }
    let angle = T::of(match rng.below(8) {
        0 => 0.0,
        1 => rng.f64_in(-1.0, 1.0) * 10f64.powf(rng.f64_in(-9.0, -2.0)),
        2 => (rng.range_i64(-4, 4) as f64) * PI / 2.0,
        3 => rng.f64_in(PI - 0.05, PI + 0.05) * if rng.bool() { 1.0 } else { -1.0 },
        _ => rng.f64_in(-2.0 * PI, 2.0 * PI),
    })
    .to64();
    let n = [axis[0] / l, axis[1] / l, axis[2] / l];
    let desc = format!("angle = {:?}, axis = {:?} (|axis| = {})", angle, axis, l);
    let va = Vec3 { x: T::of(axis[0]), y: T::of(axis[1]), z: T::of(axis[2]) };
    let q = g!(sub, cfg, idx, T::TY, desc, "Quaternion::rotation_3d", Quaternion::<T>::rotation_3d(T::of(angle), va));
    let qr = [q.x.to64(), q.y.to64(), q.z.to64(), q.w.to64()];
    let exp = rod64(angle, n);
    let tol = 64.0 * T::EPS;
    let mut fails: Fails = Vec::new();
    let dist = |a: &[[f64; 3]; 3], b: &[[f64; 3]; 3]| -> f64 {
        let mut e = 0.0f64;
        for i in 0..3 {
            for j in 0..3 {
                let d = (a[i][j] - b[i][j]).abs();
                e = if d.is_nan() { f64::INFINITY } else { e.max(d) };
            }
        }
        e
    };
    // the quaternion the constructor returns is the rotation by `angle` about `axis`
    let got = quat_mat64(qr);
    let e1 = dist(&got, &exp);
    if !(e1 <= tol) {
        fails.push(("Quaternion::rotation_3d".into(), "not_the_rotation_about_the_given_axis", format!("q = {:?}: its rotation matrix {:?} differs from Rodrigues' {:?} by {:e} > {:e}", qr, got, exp, e1, tol)));
    }
    // ... and it rotates a vector accordingly, through vek's own Mul<Vec3>
    let v = [T::of(rng.f64_in(-2.0, 2.0)).to64(), T::of(rng.f64_in(-2.0, 2.0)).to64(), T::of(rng.f64_in(-2.0, 2.0)).to64()];
    let rv: Vec3<T> = g!(sub, cfg, idx, T::TY, desc, "Mul<Vec3> for Quaternion", q * Vec3 { x: T::of(v[0]), y: T::of(v[1]), z: T::of(v[2]) });
    let rv = [rv.x.to64(), rv.y.to64(), rv.z.to64()];
    for i in 0..3 {
        let e = exp[i][0] * v[0] + exp[i][1] * v[1] + exp[i][2] * v[2];
        if !((rv[i] - e).abs() <= 4.0 * tol * (1.0 + len64(v))) {
            fails.push(("Mul<Vec3> for Quaternion".into(), "rotation_3d_times_vector", format!("q * {:?} = {:?}, Rodrigues gives component {} = {}", v, rv, i, e)));
            break;
        }
    }
    // the axis-specific constructors agree with the general one on their own axis
    if axis[1] == 0.0 && axis[2] == 0.0 && axis[0] > 0.0 {
        let qx = g!(sub, cfg, idx, T::TY, desc, "Quaternion::rotation_x", Quaternion::<T>::rotation_x(T::of(angle)));
        let e = dist(&quat_mat64([qx.x.to64(), qx.y.to64(), qx.z.to64(), qx.w.to64()]), &exp);
        if !(e <= tol) {
            fails.push(("Quaternion::rotation_x".into(), "differs_from_rodrigues", format!("rotation_x({}) = {:?}, error {:e}", angle, qx, e)));
        }
    }
    // back through into_angle_axis (every rotation: the extraction is well conditioned, see angle_axis_float)
    {
        let (a2, ax2) = g!(sub, cfg, idx, T::TY, desc, "Quaternion::into_angle_axis", q.into_angle_axis());
        let (a2, ax2) = (a2.to64(), [ax2.x.to64(), ax2.y.to64(), ax2.z.to64()]);
        let tol2 = 8.0 * 64.0 * T::EPS;
        let back = rod64(a2, ax2);
        let e = dist(&back, &exp);
        if !(e <= 2.0 * tol2 + tol) {
            fails.push(("Quaternion::into_angle_axis".into(), "round_trip_describes_another_rotation", format!("rotation_3d -> into_angle_axis gives angle {}, axis {:?}: rotation {:?} vs {:?}, error {:e}", a2, ax2, back, exp, e)));
        }
    }
    let mut h = H64::new();
    h.s(T::TY).f(angle);
    for x in axis {
        h.f(x);
    }
    finish(sub, cfg, idx, T::TY, &desc, h.get(), angle != 0.0, fails, || format!("{} -> q = {:?}", desc, qr));
}

// ------------------------------------------------------------------ main

fn main() {
    use vek::mat::repr_c::column_major as cm;
    use vek::mat::repr_c::row_major as rm;
    let cfg = Config::from_args(PROP);
    let mut rep = Report::new(cfg.clone());

    {
        let mut s = Sub::new("algebra_sym", "one Sym-traced execution per identity on free symbols (all inputs at once): Hamilton product (8 symbols), associativity in both groupings (12), identity/default neutral on both sides, |pq|^2=|p|^2|q|^2, conj(pq)=conj(q)conj(p), inverse = conj/|q|^2 and two-sided, q*s, q/s, add/sub/neg per component (structural), dot, magnitude_squared, q*Vec3 = vector part of q(0,v)q* (7), q*Vec4 keeps w (8), (p*q)*v = p*(q*v) (11); each logged output is compared with the reference by polynomial identity testing at 6 random points of GF(2^61-1) or structurally; distinct = distinct (api, identity) pairs")
            .with_floor(29)
            .require(&["Mul for Quaternion", "Mul<T> for Quaternion", "Div<T> for Quaternion", "Add for Quaternion", "Sub for Quaternion", "Neg for Quaternion", "Quaternion::conjugate", "Quaternion::inverse", "Quaternion::dot", "Quaternion::magnitude_squared", "Quaternion::identity", "Default for Quaternion", "Quaternion::zero", "Mul<Vec3> for Quaternion", "Mul<Vec4> for Quaternion"]);
        if cfg.wants("algebra_sym") {
            algebra_sym(&mut s, &cfg);
        }
        rep.push(s);
    }
    {
        let mut s = Sub::new("hamilton_table_q", "the 16 products of the basis {1,i,j,k} and ijk in both groupings through vek's Mul on exact rationals, against the table derived from i^2=j^2=k^2=ijk=-1; enumerated completely").with_floor(18).require(&["Mul for Quaternion"]);
        s.exhaustive = true;
        if cfg.wants("hamilton_table_q") {
            hamilton_table(&mut s, &cfg);
        }
        rep.push(s);
    }
    {
        let mut s = Sub::new("conversions_tag", "from_xyzw, from_vec4/into_vec4, into_vec3, from_scalar_and_vec3 (Vec3 and Vec4 argument)/into_scalar_and_vec3 and the From impls on opaque Tag elements: every output position must hold the tag of the right source component; enumerated")
            .with_floor(10)
            .require(&["Quaternion::from_xyzw", "Quaternion::from_vec4", "Quaternion::into_vec4", "Quaternion::into_vec3", "Quaternion::from_scalar_and_vec3", "Quaternion::into_scalar_and_vec3", "From<Vec4> for Quaternion", "From<Quaternion> for Vec4", "From<Quaternion> for Vec3"]);
        s.exhaustive = true;
        if cfg.wants("conversions_tag") {
            conversions_tag(&mut s, &cfg);
        }
        rep.push(s);
    }
    let n = cfg.n(8000, 600_000);
    {
        let proto = Sub::new("inverse_q", "random non-zero exact rational quaternions (general small rationals; one or two non-zero components; rational-norm ones = unit * length): inverse == conj/|q|^2, Hamilton products q*inv = inv*q = 1 computed by the reference and by vek's Mul; non-trivial = at least two non-zero components and |q| != 1; distinct by hash of q").with_floor(n / 4).require(&["Quaternion::inverse", "Mul for Quaternion"]);
        rep.push(run_cases(&cfg, proto, n, |s, i| inverse_q(s, &cfg, i)));
    }
    {
        let proto = Sub::new("unit_rotation_q", "rational unit quaternions p, q (parametrisation g^2/|g|^2, g integer quaternion) and rational v, w, per layout: q*v == textbook rotation matrix of q (monitors::gen::quat_to_mat3) applied to v == raw Mat3::from(q) applied to v; q*(v,w) == raw Mat4::from(q) applied, w untouched; (p*q)*v == p*(q*v) == R(p)R(q)v; non-trivial = p, q not +-identity and v != 0; distinct by hash of (layout,p,q,v)")
            .with_floor(n)
            .require(&["Mul<Vec3> for Quaternion", "Mul<Vec4> for Quaternion", "Mat3::from(Quaternion)", "Mat4::from(Quaternion)", "Mul for Quaternion"]);
        rep.push(run_cases(&cfg, proto, n, |s, i| {
            unit_rotation_q::<rm::Mat3<Q>, rm::Mat4<Q>>(s, &cfg, i, "Rows");
            unit_rotation_q::<cm::Mat3<Q>, cm::Mat4<Q>>(s, &cfg, i, "Cols");
        }));
    }
    {
        let proto = Sub::new("norm_q", "quaternions with rational norm (rational unit quaternion times a positive rational length): magnitude == length, magnitude_squared == length^2, normalized == the unit quaternion, exactly; non-trivial = length != 1 and at least two non-zero components").with_floor(n / 4).require(&["Quaternion::magnitude", "Quaternion::magnitude_squared", "Quaternion::normalized"]);
        rep.push(run_cases(&cfg, proto, n, |s, i| norm_q(s, &cfg, i)));
    }
    {
        let proto = Sub::new("from_to_exact_q", "rotation_from_to_3d (Quaternion; Mat3 and Mat4 in both layouts, Mat4 through Vec4 arguments) on exact rationals with every radical rational: from = a P e_x, to = b P (cos phi, sin phi, 0) with P a rational rotation and rational cos/sin of phi/2 (incl. tan(phi/4) within 2^-3..2^-9 of 1, i.e. phi close to pi, outside vek's epsilon band); exactly parallel pairs; exactly opposite pairs to = -k from with (x,y) Pythagorean and |z|<|x| (x-dominant sub-branch) or (y,z) Pythagorean and |x|<=|z| incl. ties and zeros (z-dominant sub-branch). Oracle: |q|^2 = 1, textbook rotation of q (resp. the raw matrix, which must be orthogonal with Leibniz det +1) maps from onto a positive multiple of to: cross = 0, dot > 0; non-trivial = not parallel; distinct by hash of (from,to,layout)")
            .with_floor(n)
            .require(&["Quaternion::rotation_from_to_3d", "Mat3::rotation_from_to_3d", "Mat4::rotation_from_to_3d"]);
        rep.push(run_cases(&cfg, proto, n, |s, i| {
            from_to_quat_q(s, &cfg, i);
            from_to_mat_q::<rm::Mat3<Q>, rm::Mat4<Q>>(s, &cfg, i, "Rows", &|a, b| rm::Mat3::rotation_from_to_3d(a, b), &|a, b| rm::Mat4::rotation_from_to_3d(a, b));
            from_to_mat_q::<cm::Mat3<Q>, cm::Mat4<Q>>(s, &cfg, i, "Cols", &|a, b| cm::Mat3::rotation_from_to_3d(a, b), &|a, b| cm::Mat4::rotation_from_to_3d(a, b));
        }));
    }
    {
        let proto = Sub::new("from_to_float", "rotation_from_to_3d on f32 and f64 (Quaternion, Mat3, Mat4, both layouts): random direction pairs with magnitudes 1e-3..1e3, nearly (anti)parallel pairs, bit-exact opposite pairs to = -2^j from (random and axis-aligned / in-plane sources for both sub-branches), and exactly opposite integer pairs to = -k from with k in {3,5,6,7,9,10,11,13} (|from||to| and from.to round differently there). Oracle in f64: |q|^2 = 1 within 512 eps; the unit from-direction is mapped onto the unit to-direction within 64 eps (1 + 1/cos(theta/2)) (4*64 eps for exact opposites); pairs within ~1e-3 rad of opposite without being exactly opposite are ill_conditioned; non-trivial = angle > 2.5 degrees")
            .with_floor(n)
            .require(&["Quaternion::rotation_from_to_3d", "Mat3::rotation_from_to_3d", "Mat4::rotation_from_to_3d"]);
        rep.push(run_cases(&cfg, proto, n, |s, i| {
            from_to_float::<f32, rm::Mat3<f32>, rm::Mat4<f32>>(s, &cfg, i, "Rows", &|a, b| Quaternion::rotation_from_to_3d(a, b), &|a, b| rm::Mat3::rotation_from_to_3d(a, b), &|a, b| rm::Mat4::rotation_from_to_3d(a, b));
            from_to_float::<f32, cm::Mat3<f32>, cm::Mat4<f32>>(s, &cfg, i, "Cols", &|a, b| Quaternion::rotation_from_to_3d(a, b), &|a, b| cm::Mat3::rotation_from_to_3d(a, b), &|a, b| cm::Mat4::rotation_from_to_3d(a, b));
            from_to_float::<f64, rm::Mat3<f64>, rm::Mat4<f64>>(s, &cfg, i, "Rows", &|a, b| Quaternion::rotation_from_to_3d(a, b), &|a, b| rm::Mat3::rotation_from_to_3d(a, b), &|a, b| rm::Mat4::rotation_from_to_3d(a, b));
            from_to_float::<f64, cm::Mat3<f64>, cm::Mat4<f64>>(s, &cfg, i, "Cols", &|a, b| Quaternion::rotation_from_to_3d(a, b), &|a, b| cm::Mat3::rotation_from_to_3d(a, b), &|a, b| cm::Mat4::rotation_from_to_3d(a, b));
        }));
    }
    {
        let proto = Sub::new("angle_axis_float", "into_angle_axis on f32 and f64 for unit quaternions (n sin(a/2), cos(a/2)) built by the harness in f64 and rounded, a in (-2pi,2pi) (uniform, near 0, near +-pi), random unit n, plus exact +-identity. Oracle: returned axis is unit and Rodrigues' formula for the returned (angle, axis) gives the textbook rotation matrix of q, within 512 eps everywhere (the extraction problem is well conditioned: angle = 2 atan2(|xyz|, w)); a in (-2pi,2pi) also log-uniform 1e-7..1e-1 from 0 and from a full turn (small delta rotations); non-trivial = not +-identity")
            .with_floor(n)
            .require(&["Quaternion::into_angle_axis"]);
        rep.push(run_cases(&cfg, proto, n, |s, i| {
            angle_axis_float::<f32>(s, &cfg, i);
            angle_axis_float::<f64>(s, &cfg, i);
        }));
    }
    {
        let proto = Sub::new("rotation_3d_float", "vek's own angle-axis constructor on f32 and f64: axes on a coordinate axis with either sign / in a coordinate plane / generic, any length (powers of two, 0.05..20); angles 0, tiny (1e-9..1e-2), multiples of pi/2, near +-pi, uniform in (-2pi,2pi). Oracle: the textbook matrix of the returned quaternion equals Rodrigues' formula for (angle, axis/|axis|) within 64 eps; q * v (vek's Mul<Vec3>) equals that matrix applied to v; rotation_x agrees on +x; into_angle_axis of the result describes the same rotation (within 1024 eps, tiny angles included). non-trivial = angle != 0; distinct by hash of type, angle, axis")
            .with_floor(n)
            .require(&["Quaternion::rotation_3d", "Quaternion::into_angle_axis", "Mul<Vec3> for Quaternion"]);
        rep.push(run_cases(&cfg, proto, n, |s, i| {
            rotation_3d_float::<f32>(s, &cfg, i);
            rotation_3d_float::<f64>(s, &cfg, i);
        }));
    }
    std::process::exit(rep.finish());
}
